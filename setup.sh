#!/bin/sh
# Builds the symbolic executor from /verif/gosym (offline; x/tools v0.29.0 from the module cache).
set -e
cd "$(dirname "$0")"
export GOFLAGS=-mod=mod GOPROXY=off GOSUMDB=off GOTOOLCHAIN=local
mkdir -p bin evidence replays
(cd gosym && go build -o ../bin/gosym .)
python3 gen_rt.py
python3 gen_shapes.py
echo "gosym built"
