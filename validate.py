#!/usr/bin/env python3
"""Validates MANIFEST.json and evidence/*.json against the given schemas (run with python3-vt)."""
import json, glob, sys, jsonschema
ok = True
def chk(path, schema):
    global ok
    try:
        jsonschema.validate(json.load(open(path)), json.load(open(schema)))
        print("ok  ", path)
    except Exception as e:
        ok = False
        print("FAIL", path, str(e)[:300])
chk('/verif/MANIFEST.json', '/root/.vp/MANIFEST.schema.json')
for f in sorted(glob.glob('/verif/evidence/*.json')):
    chk(f, '/root/.vp/EVIDENCE.schema.json')
m = json.load(open('/verif/MANIFEST.json'))
ids = [json.loads(l)['id'] for l in open('/verif/properties.jsonl')]
claimed = {c['property_id'] for c in m['checks']}
na = {x['property_id'] if isinstance(x, dict) else x for x in m.get('not_applicable', [])}
missing = [i for i in ids if i not in claimed and i not in na]
print("unlisted properties:", missing)
sys.exit(0 if ok else 1)
