#!/usr/bin/env python3
"""Regenerates the 'Registered bounds' table of DESIGN.md §0.1 from checks.json."""
import json, re
c = json.load(open('/verif/checks.json'))
rows = ["| id | bound | outside the claim |", "|----|-------|-------------------|"]
for p in sorted(c):
    b = c[p]["bounds"]["quick"].replace("|", "\\|")
    t = c[p]["bounds"].get("thorough", "")
    if t and t != c[p]["bounds"]["quick"]:
        b += " **Thorough:** " + t.replace("|", "\\|")
    rows.append("| %s | %s | %s |" % (p, b, c[p].get("outside", "").replace("|", "\\|")))
s = open('/verif/DESIGN.md').read()
m = re.search(r"(\*\*Registered bounds[^\n]*\*\*\n\n)(\|.*?\n)\n", s, re.S)
assert m, "table not found"
s = s[:m.start(2)] + "\n".join(rows) + "\n" + s[m.end(2):]
open('/verif/DESIGN.md', 'w').write(s)
print("rows:", len(rows) - 2)
