#!/usr/bin/env python3
"""Prints the DESIGN.md table rows for the seeded changes of one round (default r2) from seeded/*/meta.json
and notes.md. usage: seed_table.py [tag]"""
import glob, json, os, re, sys
VERIF = os.path.dirname(os.path.dirname(os.path.abspath(__file__)))
tag = sys.argv[1] if len(sys.argv) > 1 else "r2"
ADDED = json.load(open(os.path.join(VERIF, "selfcheck", "seed_added_%s.json" % tag)))
rows = []
first = caught = 0
for d in sorted(glob.glob(os.path.join(VERIF, "seeded", "*-%s-*" % tag))):
    name = os.path.basename(d)
    m = json.load(open(os.path.join(d, "meta.json")))
    notes = open(os.path.join(d, "notes.md")).read().splitlines()
    head = next((l for l in notes if l.strip()), "").lstrip("# ").strip()
    head = re.sub(r"\s+", " ", head)[:170]
    fc = m.get("first_contact", {})
    fc_ok = any(v.get("exit") == 1 for v in fc.values())
    if m.get("first_contact_note"):
        fc_ok = False
    fc_txt = "not evaluated (harness written first)" if m.get("first_contact_note") else "caught" if fc_ok else ("exit 2 (construct not modelled)" if any(v.get("exit") == 2 for v in fc.values()) else "missed")
    now = m.get("checks_run", {})
    by = ", ".join("%s (%d s)" % (p, v["seconds"]) for p, v in now.items() if v.get("exit") == 1) or "NOT CAUGHT"
    first += fc_ok
    caught += by != "NOT CAUGHT"
    rows.append("| %s | %s | %s | %s | %s |" % (name, head.replace("|", "\\|"), fc_txt, by, "caught as the check stood" if fc_ok else ADDED.get(name, "?")))
print("| change | what it is | first contact | caught by (now) | what had to be added |")
print("|--------|------------|---------------|-----------------|----------------------|")
print("\n".join(rows))
print("\n%d changes, %d caught on first contact, %d caught now" % (len(rows), first, caught), file=sys.stderr)
