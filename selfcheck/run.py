#!/usr/bin/env python3
"""Seeded-bug self-check (framework test, not a MANIFEST command).

For every entry of mutations.json: copy /repo's working tree to a scratch
directory outside /repo and /verif, apply the one-hunk change, make sure it
still builds (and optionally passes the repo's own tests), run the listed
property checks against the scratch copy (VERIF_REPO) and report which turn
red. The scratch copy is removed after each mutation.

usage: run.py [-k substring] [--tests] [--tier quick]
"""
import argparse, json, os, shutil, subprocess, sys, tempfile, time
VERIF = os.path.dirname(os.path.dirname(os.path.abspath(__file__)))
ENV = dict(os.environ, GOFLAGS="-mod=mod", GOPROXY="off", GOSUMDB="off", GOTOOLCHAIN="local")

def main():
    ap = argparse.ArgumentParser()
    ap.add_argument("-k", default="")
    ap.add_argument("--tests", action="store_true")
    ap.add_argument("--tier", default="quick")
    ap.add_argument("--file", default=os.path.join(VERIF, "selfcheck", "mutations.json"))
    a = ap.parse_args()
    muts = json.load(open(a.file))
    rows = []
    for m in muts:
        if a.k and a.k not in m["name"]:
            continue
        tmp = tempfile.mkdtemp(prefix="verif_mut_")
        dst = os.path.join(tmp, "repo")
        try:
            shutil.copytree("/repo", dst, ignore=shutil.ignore_patterns(".git"))
            edits = m.get("edits") or [{"file": m["file"], "old": m["old"], "new": m["new"]}]
            bad = None
            for ed in edits:
                p = os.path.join(dst, ed["file"])
                s = open(p).read()
                if s.count(ed["old"]) != 1:
                    bad = "PATCH-DOES-NOT-APPLY(%d)" % s.count(ed["old"])
                    break
                open(p, "w").write(s.replace(ed["old"], ed["new"]))
            if bad:
                rows.append((m["name"], bad, ""))
                print("%-60s %-8s %s" % rows[-1], flush=True)
                continue
            r = subprocess.run(["go", "build", "./..."], cwd=dst, env=ENV, capture_output=True, text=True)
            if r.returncode != 0:
                rows.append((m["name"], "DOES-NOT-BUILD", r.stderr[-300:]))
                continue
            tests = ""
            if a.tests:
                r = subprocess.run(["go", "test", "-vet=off", "-count=1", "./..."], cwd=dst, env=ENV, capture_output=True, text=True)
                tests = "tests=%s" % ("pass" if r.returncode == 0 else "FAIL")
            res = []
            for prop in m["expect"]:
                t0 = time.time()
                r = subprocess.run([os.path.join(VERIF, "check"), prop, "--tier", a.tier], env=dict(ENV, VERIF_REPO=dst, VERIF_NOEVIDENCE="1"),
                                   capture_output=True, text=True)
                nv = sum(1 for l in r.stdout.splitlines() if l.startswith("VIOLATION"))
                res.append("%s:exit=%d,viol=%d,%.0fs" % (prop, r.returncode, nv, time.time() - t0))
            caught = all(":exit=1" in x for x in res)
            rows.append((m["name"], "CAUGHT" if caught else "MISSED", " ".join(res) + " " + tests))
        finally:
            shutil.rmtree(tmp, ignore_errors=True)
        print("%-60s %-8s %s" % rows[-1], flush=True)
    missed = [r for r in rows if r[1] != "CAUGHT"]
    print("\n%d mutations, %d caught, %d not" % (len(rows), len(rows) - len(missed), len(missed)))
    return 0 if not missed else 1

if __name__ == "__main__":
    sys.exit(main())
