#!/bin/bash
# usage: seedrun.sh <seeded-dir-name> <PROP> [extra ./check args]   -- runs a check against a scratch copy of /repo with the seeded patch
set -u
d=/verif/seeded/$1; prop=$2; shift 2
tmp=$(mktemp -d /tmp/verif_seedrun_XXXX)
trap 'rm -rf $tmp' EXIT
cp -r /repo $tmp/repo; rm -rf $tmp/repo/.git
(cd $tmp/repo && patch -p1 -s -i $d/patch.diff) || { echo PATCH-FAILED; exit 3; }
VERIF_REPO=$tmp/repo VERIF_NOEVIDENCE=1 /verif/check $prop "$@" 2>&1 | grep "^VIOLATION\|^  harness\|^C[0-9][0-9] \|MISMATCH\|INCONCL\|LOAD" | cut -c1-420 | awk '!seen[substr($0,1,120)]++' | head -${SEEDRUN_LINES:-24}
echo "exit=${PIPESTATUS[0]}"
