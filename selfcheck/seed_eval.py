#!/usr/bin/env python3
"""Evaluates sub-agent seeded changes: seed_eval.py <PROP> [--also P2,P3] [--tier quick]

For every /tmp/seed_<PROP>/_seed/patch*.diff: confirms in a scratch copy of /repo that the change
builds, that the pinned suite still passes with it, that the demonstration fails with it and passes
without it; then runs the registered check(s) against the changed copy. Confirmed changes are kept
as /verif/seeded/<PROP>-<n>/ (patch.diff, demonstration, notes, meta.json)."""
import argparse, glob, json, os, re, shutil, subprocess, sys, tempfile, time
VERIF = os.path.dirname(os.path.dirname(os.path.abspath(__file__)))
ENV = dict(os.environ, GOFLAGS="-mod=mod", GOPROXY="off", GOSUMDB="off", GOTOOLCHAIN="local")

def run(cmd, cwd, timeout=900, env=None):
    try:
        r = subprocess.run(cmd, cwd=cwd, env=env or ENV, capture_output=True, text=True, timeout=timeout)
        return r.returncode, (r.stdout + r.stderr)
    except subprocess.TimeoutExpired:
        return 124, "timeout"

def demo_pkg_dir(demo):
    src = open(demo).read()
    m = re.search(r'^package (\w+)', src, re.M)
    pkg = m.group(1) if m else "valid"
    return {"valid": "valid", "valid_test": "valid", "file": "file", "file_test": "file", "main": ".", "internal": "valid/internal"}.get(pkg, "valid")

def main():
    ap = argparse.ArgumentParser()
    ap.add_argument("prop")
    ap.add_argument("--also", default="")
    ap.add_argument("--tier", default="quick")
    ap.add_argument("--src", default=None)
    ap.add_argument("--tag", default="", help="infix for the directory name, e.g. r2 -> C01-r2-1")
    a = ap.parse_args()
    seed = a.src or "/tmp/seed_%s/_seed" % a.prop
    patches = sorted(glob.glob(seed + "/patch*.diff"))
    out = []
    for pf in patches:
        n = re.search(r'patch(\d*)\.diff', pf).group(1) or "1"
        demo = None
        for cand in ("demo%s_test.go" % ("" if n == "1" else n), "demo%s_test.go" % n):
            if os.path.exists(os.path.join(seed, cand)):
                demo = os.path.join(seed, cand)
        notes = os.path.join(seed, "notes%s.md" % ("" if n == "1" else n))
        if not os.path.exists(notes):
            notes = os.path.join(seed, "notes%s.md" % n)
        tmp = tempfile.mkdtemp(prefix="verif_seed_")
        res = {"property": a.prop, "patch": os.path.basename(pf), "demo": os.path.basename(demo) if demo else None}
        try:
            clean = os.path.join(tmp, "clean")
            mut = os.path.join(tmp, "mut")
            shutil.copytree("/repo", clean, ignore=shutil.ignore_patterns(".git"))
            shutil.copytree("/repo", mut, ignore=shutil.ignore_patterns(".git"))
            rc, o = run(["patch", "-p1", "-i", pf], mut)
            res["applies"] = rc == 0
            if rc != 0:
                res["error"] = o[-300:]
                out.append(res); continue
            rc, o = run(["go", "build", "./..."], mut)
            res["builds"] = rc == 0
            rc, o = run(["go", "test", "-vet=off", "-count=1", "./..."], mut)
            res["suite_passes_with_change"] = rc == 0
            if demo:
                d = demo_pkg_dir(demo)
                for tree, key in ((mut, "demo_fails_with_change"), (clean, "demo_passes_without_change")):
                    dst = os.path.join(tree, d, "zz_seed_demo_test.go")
                    shutil.copy(demo, dst)
                    race = ["-race"] if os.path.exists(notes) and "race" in open(notes).read().lower() and a.prop in ("C10", "C11") else []
                    env = dict(ENV, CGO_ENABLED="1") if race else ENV
                    rc, o = run(["go", "test", "-vet=off", "-count=1"] + race + ["./" + d], tree, env=env)
                    res[key] = (rc != 0) if tree is mut else (rc == 0)
                    os.remove(dst)
            checks = {}
            for prop in [a.prop] + [x for x in a.also.split(",") if x]:
                t0 = time.time()
                rc, o = run([os.path.join(VERIF, "check"), prop, "--tier", a.tier], VERIF, timeout=3600,
                            env=dict(ENV, VERIF_REPO=mut, VERIF_NOEVIDENCE="1"))
                nv = sum(1 for l in o.splitlines() if l.startswith("VIOLATION"))
                checks[prop] = {"exit": rc, "violations": nv, "seconds": round(time.time() - t0)}
            res["checks"] = checks
            confirmed = res.get("builds") and res.get("suite_passes_with_change") and res.get("demo_fails_with_change") and res.get("demo_passes_without_change")
            res["confirmed"] = bool(confirmed)
            if confirmed:
                dst = os.path.join(VERIF, "seeded", "%s-%s%s" % (a.prop, (a.tag + "-") if a.tag else "", n))
                os.makedirs(dst, exist_ok=True)
                shutil.copy(pf, os.path.join(dst, "patch.diff"))
                shutil.copy(demo, os.path.join(dst, os.path.basename(demo).replace("demo2", "demo").replace("demo", "demo", 1)))
                if os.path.exists(notes):
                    shutil.copy(notes, os.path.join(dst, "notes.md"))
                meta = {"breaks_property": a.prop, "written_by": "independent sub-agent given only the property text and a scratch worktree",
                        "demo_goes_into": demo_pkg_dir(demo), "needs_to_manifest": "see notes.md",
                        "confirmed_here": {k: res[k] for k in ("builds", "suite_passes_with_change", "demo_fails_with_change", "demo_passes_without_change")},
                        "checks_run": checks, "repo_commit": subprocess.run(["git", "-C", "/repo", "rev-parse", "--short", "HEAD"], capture_output=True, text=True).stdout.strip()}
                json.dump(meta, open(os.path.join(dst, "meta.json"), "w"), indent=1)
        finally:
            shutil.rmtree(tmp, ignore_errors=True)
        out.append(res)
        print(json.dumps(res), flush=True)
    return 0

if __name__ == "__main__":
    sys.exit(main())
