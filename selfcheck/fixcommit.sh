#!/bin/bash
# usage: fixcommit.sh "fix: message"  -- commits /repo's working tree only if it builds and the pinned suite passes
set -euo pipefail
cd /repo
export GOFLAGS=-mod=mod GOPROXY=off GOSUMDB=off GOTOOLCHAIN=local
go build ./...
if ! go test -vet=off -count=1 ./... > /tmp/fixcommit.log 2>&1; then
  grep -v "^=== RUN\|--- PASS" /tmp/fixcommit.log | tail -30
  echo "TESTS FAIL: not committed"; exit 1
fi
git commit -qam "$1"
git log --oneline -1
