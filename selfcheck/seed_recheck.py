#!/usr/bin/env python3
"""Re-runs the registered checks against every confirmed seeded change under /verif/seeded/.
usage: seed_recheck.py [-k substr] [--tier quick] [--also]   (updates meta.json: checks_run)"""
import argparse, glob, json, os, shutil, subprocess, sys, tempfile, time
VERIF = os.path.dirname(os.path.dirname(os.path.abspath(__file__)))
ENV = dict(os.environ, GOFLAGS="-mod=mod", GOPROXY="off", GOSUMDB="off", GOTOOLCHAIN="local")
ap = argparse.ArgumentParser(); ap.add_argument("-k", default=""); ap.add_argument("--tier", default="quick"); ap.add_argument("--props", default="")
a = ap.parse_args()
tot = caught = 0
for d in sorted(glob.glob(os.path.join(VERIF, "seeded", "*"))):
    name = os.path.basename(d)
    if a.k and a.k not in name: continue
    meta = json.load(open(os.path.join(d, "meta.json")))
    props = [meta["breaks_property"]] + [p for p in a.props.split(",") if p and p != meta["breaks_property"]]
    tmp = tempfile.mkdtemp(prefix="verif_seedre_")
    try:
        mut = os.path.join(tmp, "repo")
        shutil.copytree("/repo", mut, ignore=shutil.ignore_patterns(".git"))
        r = subprocess.run(["patch", "-p1", "-s", "-i", os.path.join(d, "patch.diff")], cwd=mut, capture_output=True, text=True)
        if r.returncode != 0:
            print(name, "PATCH-DOES-NOT-APPLY"); continue
        res = {}
        for p in props:
            t0 = time.time()
            r = subprocess.run([os.path.join(VERIF, "check"), p, "--tier", a.tier], env=dict(ENV, VERIF_REPO=mut, VERIF_NOEVIDENCE="1"), capture_output=True, text=True)
            res[p] = {"exit": r.returncode, "violations": sum(1 for l in r.stdout.splitlines() if l.startswith("VIOLATION")), "seconds": round(time.time() - t0), "tier": a.tier}
        meta.setdefault("checks_run", {}).update(res)
        json.dump(meta, open(os.path.join(d, "meta.json"), "w"), indent=1)
        tot += 1
        ok = any(v["exit"] == 1 for v in res.values())
        caught += ok
        print("%-8s %-7s %s" % (name, "CAUGHT" if ok else "MISSED", json.dumps(res)), flush=True)
    finally:
        shutil.rmtree(tmp, ignore_errors=True)
print("%d seeded changes, %d caught" % (tot, caught))
