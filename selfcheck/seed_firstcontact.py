#!/usr/bin/env python3
"""Freezes the first-contact result of newly evaluated seeded changes: for every seeded/*-<tag>-* whose meta.json has
no 'first_contact' yet, copies checks_run (as written by seed_eval.py) into it. usage: seed_firstcontact.py r5"""
import glob, json, os, sys
VERIF = os.path.dirname(os.path.dirname(os.path.abspath(__file__)))
tag = sys.argv[1]
for d in sorted(glob.glob(os.path.join(VERIF, "seeded", "*-%s-*" % tag))):
    p = os.path.join(d, "meta.json")
    m = json.load(open(p))
    if "first_contact" not in m:
        m["first_contact"] = {k: {x: v[x] for x in ("exit", "violations", "seconds") if x in v} for k, v in m.get("checks_run", {}).items()}
        json.dump(m, open(p, "w"), indent=1)
        print(os.path.basename(d), m["first_contact"])
