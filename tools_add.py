#!/usr/bin/env python3
"""helper: register a property in checks.json and MANIFEST.json (idempotent)"""
import json, sys
def add(pid, families, bounds, outside, assumptions, level_text, level_note, technique="SSA symbolic execution + SMT (z3)", opts=None, design="DESIGN.md §3 "):
    c = json.load(open('/verif/checks.json'))
    c[pid] = {"families": families, "opts": opts or {"quick": {"hsecs": 150}, "thorough": {"hsecs": 1500}}, "bounds": bounds, "outside": outside, "assumptions": assumptions}
    json.dump(dict(sorted(c.items())), open('/verif/checks.json', 'w'), indent=1, ensure_ascii=False)
    m = json.load(open('/verif/MANIFEST.json'))
    m["checks"] = [x for x in m["checks"] if x["property_id"] != pid]
    m["checks"].append({"property_id": pid, "quick_cmd": "./check %s --tier quick" % pid, "thorough_cmd": "./check %s --tier thorough" % pid,
        "evidence_file": "evidence/%s.json" % pid, "replay_cmd_template": "./check %s --replay {path}" % pid, "engine": "gosym",
        "level_claimed": {"category": "model_checking", "text": level_text, "design_ref": design + pid},
        "level_note": level_note, "technique": technique})
    m["checks"].sort(key=lambda x: x["property_id"])
    m["engines"][0]["serves_properties"] = sorted(x["property_id"] for x in m["checks"])
    m["not_applicable"] = [x for x in m.get("not_applicable", []) if x["property_id"] != pid]
    json.dump(m, open('/verif/MANIFEST.json', 'w'), indent=1, ensure_ascii=False)
def fixed(pid, commit, what, harness, label):
    k = json.load(open('/verif/known_findings.json'))
    k["fixed"].append({"entry": "fixed: property=%s %s %s" % (pid, commit, what), "property": pid, "commit": commit, "harness": harness, "label": label})
    json.dump(k, open('/verif/known_findings.json', 'w'), indent=1, ensure_ascii=False)
TRUST = "trusted: go/ssa lowering, gosym interpreter and its reflect/strings/regexp models (validated by the Example conformance run and by native replay of every counterexample), the listed stdlib contracts, z3"
