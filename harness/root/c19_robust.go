//go:build verif

package main

import (
	"errors"
	"go/ast"
	"go/scanner"
	"go/token"
)

// C19: the injector never damages what it cannot process. A directory of up
// to three entries, each of nine classes, is handed to handleDir / handleFile /
// handlePatternFiles; no path may panic, files that are not .go or do not parse
// stay byte-identical and are never written, and every processable annotated
// file is merged whatever else the directory contains.

// vSym: when set, the annotated file's injected value and the non-.go file's content are symbolic bytes
var vSym bool

func vInjVal(name string) string {
	if !vSym {
		return "required"
	}
	v := vndString(name, 2)
	vAssume(len(v) > 0)
	for i := 0; i < len(v); i++ {
		c := v[i]
		vAssume(vAnd(vAnd(c != '"', c != '`'), vAnd(c != '\n', c != '\r')))
		vAssume(c < 0x80)
		vAssume(c != 0) // go/scanner rejects NUL
	}
	return v
}

func vAnnotatedSrc(val string, merged bool) (string, *ast.File) {
	tag := "json:\"x\""
	if merged {
		tag += " valid:\"" + val + "\""
	}
	return vBuildSource("", []vStructSrc{{name: "A", fields: []vField{
		{name: "X", typ: "string", hasTag: true, tag: tag, comment: "// @tag valid:\"" + val + "\""},
	}}}, "")
}

type vEntry struct {
	class   int
	name    string
	content string
	want    string // expected content after the run (class 4)
	val     string // injected value (class 4)
	extras  []vEntry // further directory entries created together with this one
}

// vMkEntry creates directory entry i of the given class under dir d/.
func vMkEntry(i, class int) vEntry {
	base := "d/" + string([]byte{byte('a' + i)})
	e := vEntry{class: class}
	switch class {
	case 0: // sub-directory (its name even ends in .go)
		e.name = base + "sub.go"
		vFSMkdir(e.name)
		return e
	case 1: // not a Go file
		e.name, e.content = base+".txt", "X string `json:\"x\"` // @tag valid:\"required\"\n"
		if vSym {
			e.content += vndString("txt"+base[2:], 3)
		}
		vFSPut(e.name, e.content)
		return e
	case 9: // not a .go file although its name contains ".go" and its content is an annotated Go source
		src, f := vAnnotatedSrc("required", false)
		e.class = 1
		e.name, e.content = base+".go.bak", src
		vFSPut(e.name, src)
		vParseResult(e.name, f, nil)
		return e
	case 2: // does not parse: a complete annotated struct, then a syntax error; go/parser returns the partial AST with the error
		good, f := vAnnotatedSrc("required", false)
		e.name, e.content = base+"broken.go", good+"func {\n"
		vFSPut(e.name, e.content)
		// go/parser reports syntax errors as a scanner.ErrorList with byte offsets
		vParseResult(e.name, f, scanner.ErrorList{&scanner.Error{Pos: token.Position{Filename: e.name, Offset: len(good) + 5, Line: 5, Column: 6}, Msg: "expected 'IDENT', found '{'"}})
		return e
	case 10: // does not parse at all
		e.class = 2
		e.name, e.content = base+"garbage.go", "package p\nfunc {\n// @tag valid:\"required\"\n"
		vFSPut(e.name, e.content)
		vParseResult(e.name, nil, errors.New("expected 'IDENT', found '{'"))
		return e
	case 11: // embedded field with a tag literal and an @tag comment, next to an annotated named field
		val := vInjVal("emb" + base[2:])
		src := "package p\ntype Base struct{}\ntype A struct {\n\tBase `json:\"b\"` // @tag valid:\"" + val + "\"\n\tX string `json:\"x\"` // @tag valid:\"" + val + "\"\n}\n"
		want := "package p\ntype Base struct{}\ntype A struct {\n\tBase `json:\"b\" valid:\"" + val + "\"` // @tag valid:\"" + val + "\"\n\tX string `json:\"x\" valid:\"" + val + "\"` // @tag valid:\"" + val + "\"\n}\n"
		f := &ast.File{Package: 1, Name: &ast.Ident{NamePos: 9, Name: "p"}}
		off := func(sub string) token.Pos { return token.Pos(vIndex(src, sub) + 1) }
		c1 := "// @tag valid:\"" + val + "\""
		f.Decls = []ast.Decl{
			&ast.GenDecl{TokPos: off("type Base"), Tok: token.TYPE, Specs: []ast.Spec{&ast.TypeSpec{Name: &ast.Ident{NamePos: off("Base struct"), Name: "Base"}, Type: &ast.StructType{Struct: off("struct{}"), Fields: &ast.FieldList{Opening: off("{}"), Closing: off("{}") + 1}}}}},
			&ast.GenDecl{TokPos: off("type A"), Tok: token.TYPE, Specs: []ast.Spec{&ast.TypeSpec{Name: &ast.Ident{NamePos: off("A struct"), Name: "A"}, Type: &ast.StructType{Struct: off("struct {"), Fields: &ast.FieldList{Opening: off("{\n\tBase"), List: []*ast.Field{
				{Type: &ast.Ident{NamePos: off("Base `"), Name: "Base"}, Tag: &ast.BasicLit{ValuePos: off("`json:\"b\"`"), Kind: token.STRING, Value: "`json:\"b\"`"},
					Comment: &ast.CommentGroup{List: []*ast.Comment{{Slash: off(c1), Text: c1}}}},
				{Names: []*ast.Ident{{NamePos: off("X string"), Name: "X"}}, Type: &ast.Ident{NamePos: off("string `json:\"x\""), Name: "string"}, Tag: &ast.BasicLit{ValuePos: off("`json:\"x\"`"), Kind: token.STRING, Value: "`json:\"x\"`"},
					Comment: &ast.CommentGroup{List: []*ast.Comment{{Slash: token.Pos(vLastIndex(src, c1) + 1), Text: c1}}}},
			}}}}}},
		}
		e.class = 4
		e.name, e.content, e.want = base+"embedded.go", src, want
		vFSPut(e.name, src)
		vParseResult(e.name, f, nil)
		return e
	case 12: // a dot-file (sorts before every other entry); not a Go file
		e.class = 1
		e.name, e.content = "d/."+base[2:]+"keep", "keep\n"
		vFSPut(e.name, e.content)
		return e
	case 13: // a field whose trailing comment group holds two @tag comments, next to an ordinary annotated field
		src, f := vBuildSource("", []vStructSrc{{name: "A", fields: []vField{
			{name: "W", typ: "int", hasTag: true, tag: "json:\"w\"", comment: "/* @tag a:\"1\" */", comment2: "/* @tag b:\"2\" */"},
			{name: "X", typ: "string", hasTag: true, tag: "json:\"x\"", comment: "// @tag valid:\"required\""},
		}}}, "")
		e.class = 5
		e.name, e.content = base+"twotags.go", src
		vFSPut(e.name, src)
		vParseResult(e.name, f, nil)
		return e
	case 14: // a dangling symbolic link whose name ends in .go (e.g. the generated file of a proto that was removed)
		e.class = 0
		e.name = base + "dangling.go"
		vFSSymlink(e.name, "gone/"+base[2:]+".pb.go")
		return e
	case 15: // a symbolic link to an annotated file that lives outside the directory
		val := vInjVal("lnk" + base[2:])
		src, f := vAnnotatedSrc(val, false)
		target := "t/" + base[2:] + "target.pb.go"
		vFSMkdir("t")
		vFSPut(target, src)
		vParseResult(target, f, nil)
		e.class = 4
		e.name, e.content = base+"link.go", src
		e.want, _ = vAnnotatedSrc(val, true)
		vFSSymlink(e.name, target)
		vParseResult(e.name, f, nil)
		return e
	case 16: // empty declaration groups ("type ()", "var ()", "import ()") before an annotated struct
		pre := "import ()\ntype ()\nvar ()\n"
		src, f := vBuildSource(pre, []vStructSrc{{name: "A", fields: []vField{{name: "X", typ: "string", hasTag: true, tag: "json:\"x\"", comment: "// @tag valid:\"required\""}}}}, "")
		want, _ := vBuildSource(pre, []vStructSrc{{name: "A", fields: []vField{{name: "X", typ: "string", hasTag: true, tag: "json:\"x\" valid:\"required\"", comment: "// @tag valid:\"required\""}}}}, "")
		off := func(sub string) token.Pos { return token.Pos(vIndex(src, sub) + 1) }
		groups := []ast.Decl{
			&ast.GenDecl{TokPos: off("import ()"), Tok: token.IMPORT, Lparen: off("import ()") + 7, Rparen: off("import ()") + 8},
			&ast.GenDecl{TokPos: off("type ()"), Tok: token.TYPE, Lparen: off("type ()") + 5, Rparen: off("type ()") + 6},
			&ast.GenDecl{TokPos: off("var ()"), Tok: token.VAR, Lparen: off("var ()") + 4, Rparen: off("var ()") + 5},
		}
		f.Decls = append(groups, f.Decls...)
		e.class = 4
		e.name, e.content, e.want = base+"emptygroups.go", src, want
		vFSPut(e.name, src)
		vParseResult(e.name, f, nil)
		return e
	case 17: // an annotated file that becomes shorter (the injected value replaces a longer one), with text after the struct
		post := "\n// trailer that must survive: 0123456789 0123456789\nvar Last = 1\n"
		src, f := vBuildSource("", []vStructSrc{{name: "A", fields: []vField{{name: "X", typ: "string", hasTag: true, tag: "json:\"x\" valid:\"required,to=1~100,phone\"", comment: "// @tag valid:\"int\""}}}}, post)
		want, _ := vBuildSource("", []vStructSrc{{name: "A", fields: []vField{{name: "X", typ: "string", hasTag: true, tag: "json:\"x\" valid:\"int\"", comment: "// @tag valid:\"int\""}}}}, post)
		e.class = 4
		e.name, e.content, e.want = base+"shrinks.go", src, want
		vFSPut(e.name, src)
		vParseResult(e.name, f, nil)
		return e
	case 18: // an annotated file among scratch files whose names extend its own (what editors, patch and half-finished runs leave behind)
		val := vInjVal("nb" + base[2:])
		src, f := vAnnotatedSrc(val, false)
		e.class = 4
		e.name, e.content = base+"nb.pb.go", src
		e.want, _ = vAnnotatedSrc(val, true)
		vFSPut(e.name, src)
		vParseResult(e.name, f, nil)
		for _, suffix := range []string{".tmp", ".bak", "~", ".orig", ".new", ".swp", ".lock"} {
			x := vEntry{class: 1, name: e.name + suffix, content: "scratch " + suffix + "\n"}
			vFSPut(x.name, x.content)
			e.extras = append(e.extras, x)
		}
		x := vEntry{class: 1, name: "d/." + base[2:] + "nb.pb.go.swp", content: "swap\n"}
		vFSPut(x.name, x.content)
		e.extras = append(e.extras, x)
		return e
	case 19: // valid Go whose tag is an interpreted string literal ("json:\"id\"") with an @tag comment
		src, f := vBuildSource("", []vStructSrc{{name: "A", fields: []vField{
			{name: "Id", typ: "int64", hasTag: true, rawLit: "\"json:\\\"id\\\"\"", comment: "// @tag valid:\"required\""},
			{name: "Note", typ: "string", hasTag: true, rawLit: "\"json:\\\"note\\\"\"", comment: "// plain"},
		}}}, "")
		e.class = 5
		e.name, e.content = base+"quotedtag.go", src
		vFSPut(e.name, src)
		vParseResult(e.name, f, nil)
		return e
	case 3: // valid, no annotations
		src, f := vBuildSource("", []vStructSrc{{name: "A", fields: []vField{{name: "X", typ: "string", hasTag: true, tag: "json:\"x\"", comment: "// plain"}, {name: "Y", typ: "int"}}}}, "")
		e.name, e.content = base+"plain.go", src
		vFSPut(e.name, src)
		vParseResult(e.name, f, nil)
		return e
	case 4: // valid, annotated
		val := vInjVal("val" + base[2:])
		src, f := vAnnotatedSrc(val, false)
		e.name, e.content = base+"ann.pb.go", src
		e.val = val
		e.want, _ = vAnnotatedSrc(val, true)
		vFSPut(e.name, src)
		vParseResult(e.name, f, nil)
		return e
	case 5: // @tag comment on a field without a tag literal
		src, f := vBuildSource("", []vStructSrc{{name: "A", fields: []vField{{name: "X", typ: "string", comment: "// @tag valid:\"required\""}, {name: "Y", typ: "int", hasTag: true, tag: "json:\"y\""}}}}, "")
		e.name, e.content = base+"notag.go", src
		vFSPut(e.name, src)
		vParseResult(e.name, f, nil)
		return e
	case 6: // comment merely mentions @tag
		src, f := vBuildSource("", []vStructSrc{{name: "A", fields: []vField{{name: "X", typ: "string", hasTag: true, tag: "json:\"x\"", comment: "// see @tag"}, {name: "Y", typ: "int", hasTag: true, tag: "json:\"y\"", comment: "// @tagged x:\"1\""}}}}, "")
		e.name, e.content = base+"mention.go", src
		vFSPut(e.name, src)
		vParseResult(e.name, f, nil)
		return e
	case 7: // grouped type declaration, non-struct first
		src := "package p\ntype (\n\tN int\n\tA struct {\n\t\tX string `json:\"x\"` // @tag valid:\"required\"\n\t}\n)\n"
		f := &ast.File{Package: 1, Name: &ast.Ident{NamePos: 9, Name: "p"}}
		f.Decls = []ast.Decl{&ast.GenDecl{TokPos: 11, Tok: token.TYPE, Lparen: 16, Specs: []ast.Spec{
			&ast.TypeSpec{Name: &ast.Ident{NamePos: 19, Name: "N"}, Type: &ast.Ident{NamePos: 21, Name: "int"}},
			&ast.TypeSpec{Name: &ast.Ident{NamePos: 26, Name: "A"}, Type: &ast.StructType{Struct: 28, Fields: &ast.FieldList{Opening: 35, List: []*ast.Field{
				{Names: []*ast.Ident{{NamePos: 39, Name: "X"}}, Type: &ast.Ident{NamePos: 41, Name: "string"}, Tag: &ast.BasicLit{ValuePos: 48, Kind: token.STRING, Value: "`json:\"x\"`"},
					Comment: &ast.CommentGroup{List: []*ast.Comment{{Slash: 59, Text: "// @tag valid:\"required\""}}}},
			}, Closing: 85}}},
		}, Rparen: 87}}
		e.name, e.content = base+"group.go", src
		vFSPut(e.name, src)
		vParseResult(e.name, f, nil)
		return e
	default: // a type declared inside a function, and a var declaration
		src := "package p\nvar V = 1\nfunc F() {\n\ttype L struct {\n\t\tX string `json:\"x\"` // @tag valid:\"required\"\n\t}\n}\n"
		f := &ast.File{Package: 1, Name: &ast.Ident{NamePos: 9, Name: "p"}}
		f.Decls = []ast.Decl{
			&ast.GenDecl{TokPos: 11, Tok: token.VAR, Specs: []ast.Spec{&ast.ValueSpec{Names: []*ast.Ident{{NamePos: 15, Name: "V"}}, Values: []ast.Expr{&ast.BasicLit{ValuePos: 19, Kind: token.INT, Value: "1"}}}}},
			&ast.FuncDecl{Name: &ast.Ident{NamePos: 26, Name: "F"}, Type: &ast.FuncType{Func: 21, Params: &ast.FieldList{Opening: 27, Closing: 28}}, Body: &ast.BlockStmt{Lbrace: 30}},
		}
		e.name, e.content = base+"local.go", src
		vFSPut(e.name, src)
		vParseResult(e.name, f, nil)
		return e
	}
}

func vWritten(name string) bool {
	for _, w := range vFSWrites() {
		if w == name {
			return true
		}
	}
	return false
}

func vCheckEntry(tag string, e vEntry) {
	for _, x := range e.extras {
		vCheckEntry(tag+" (scratch file next to an annotated file)", x)
	}
	if e.class == 0 {
		return
	}
	got, ok := vFSGet(e.name)
	vAssert(ok, tag+": file still exists")
	switch e.class {
	case 1:
		vAssert(got == e.content && !vWritten(e.name), tag+": a file that is not .go is left byte-identical and never written")
	case 2:
		vAssert(got == e.content && !vWritten(e.name), tag+": a .go file that does not parse is left byte-identical and never written")
	case 3, 6:
		vAssert(got == e.content, tag+": a valid file without annotations keeps its content")
	case 4:
		vAssert(got == e.want, tag+": an annotated file is processed whatever else the directory contains")
	}
}

const vNClasses = 20

// vCheckListing: the run neither leaves new entries behind nor removes any
func vCheckListing(tag, before string) {
	vAssert(vFSList("d") == before, tag+": the directory holds the same entries as before the run")
}

func H_C19_file() {
	vSym = true
	vFSMkdir("d")
	e := vMkEntry(0, vndChoice("class", vNClasses))
	before := vFSList("d")
	ok := vNoPanic(func() { _ = handleFile(vFSPath(e.name)) })
	vAssert(ok, "C19 handleFile: no crash on class "+string([]byte{byte('0' + e.class)}))
	vCheckEntry("C19 handleFile", e)
	vCheckListing("C19 handleFile", before)
	vReach("end")
}

func vDirScenario(n int) []vEntry {
	vFSMkdir("d")
	var es []vEntry
	for i := 0; i < n; i++ {
		es = append(es, vMkEntry(i, vndChoice("class"+string([]byte{byte('0' + i)}), vNClasses)))
	}
	return es
}

func H_C19_dir2() {
	vSym = true
	es := vDirScenario(2)
	before := vFSList("d")
	ok := vNoPanic(func() { _ = handleDir(vFSPath("d")) })
	vAssert(ok, "C19 handleDir: no crash")
	for _, e := range es {
		vCheckEntry("C19 handleDir", e)
	}
	vCheckListing("C19 handleDir", before)
	vReach("end")
}

func H_C19_dir3() {
	es := vDirScenario(3)
	before := vFSList("d")
	ok := vNoPanic(func() { _ = handleDir(vFSPath("d") + "/") })
	vAssert(ok, "C19 handleDir: no crash")
	for _, e := range es {
		vCheckEntry("C19 handleDir(3)", e)
	}
	vCheckListing("C19 handleDir(3)", before)
	vReach("end")
}

func H_C19_glob() {
	es := vDirScenario(2)
	pat := []string{"d/*.go", "d/*", "d/*ann*"}[vndChoice("pattern", 3)]
	before := vFSList("d")
	defer func() { vCheckListing("C19 handlePatternFiles "+pat, before) }()
	ok := vNoPanic(func() { _ = handlePatternFiles(vFSPath(pat)) })
	vAssert(ok, "C19 handlePatternFiles: no crash")
	for _, e := range es {
		if pat == "d/*ann*" && vIndex(e.name, "ann") < 0 && e.class != 0 {
			got, ok := vFSGet(e.name)
			vAssert(ok && got == e.content && !vWritten(e.name), "C19 handlePatternFiles "+pat+": a file the pattern does not match is untouched")
			continue
		}
		vCheckEntry("C19 handlePatternFiles "+pat, e)
	}
	vReach("end")
}

func H_C19_missing() {
	vFSMkdir("d")
	ok := vNoPanic(func() {
		_ = handleFile(vFSPath("d/none.go"))
		_ = handleDir(vFSPath("nodir"))
		_ = handlePatternFiles(vFSPath("d/[bad"))
	})
	vAssert(ok, "C19 missing inputs: no crash")
	vAssert(len(vFSWrites()) == 0, "C19 missing inputs: nothing written")
	vReach("end")
}

// vIndex / vLastIndex on concrete prefixes of possibly symbolic text: the searched marker is concrete and
// occurs in the concrete skeleton, so plain loops over bytes suffice (symbolic bytes are compared too)
func vIndex(s, sub string) int {
	for i := 0; i+len(sub) <= len(s); i++ {
		if s[i:i+len(sub)] == sub {
			return i
		}
	}
	return -1
}

func vLastIndex(s, sub string) int {
	for i := len(s) - len(sub); i >= 0; i-- {
		if s[i:i+len(sub)] == sub {
			return i
		}
	}
	return -1
}

// many unprocessable files in one directory (more than any small internal limit), annotated files among
// and after them: the run ends, nothing crashes, every annotated file is merged, broken files are untouched
func H_C19_many_broken() {
	vFSMkdir("d")
	n := 5 + vndChoice("more", 4)
	var broken []vEntry
	for i := 0; i < n; i++ {
		name := "d/" + string([]byte{byte('a' + i)}) + "_broken.go"
		content := "package p\nfunc {\n"
		vFSPut(name, content)
		vParseResult(name, nil, errors.New("expected 'IDENT', found '{'"))
		broken = append(broken, vEntry{class: 2, name: name, content: content})
	}
	var good []vEntry
	for _, nm := range []string{"d/c_mid.pb.go", "d/z_last.pb.go"} {
		src, f := vAnnotatedSrc("required", false)
		want, _ := vAnnotatedSrc("required", true)
		vFSPut(nm, src)
		vParseResult(nm, f, nil)
		good = append(good, vEntry{class: 4, name: nm, content: src, want: want})
	}
	ok := vNoPanic(func() { _ = handleDir(vFSPath("d")) })
	vAssert(ok, "C19 many broken files: no crash")
	for _, e := range append(broken, good...) {
		vCheckEntry("C19 many broken files", e)
	}
	vReach("end")
}

// thorough tier: three entries with symbolic contents; four entries with fixed contents
func H_C19T_dir3_symbolic() {
	vSym = true
	es := vDirScenario(3)
	ok := vNoPanic(func() { _ = handleDir(vFSPath("d")) })
	vAssert(ok, "C19 handleDir: no crash")
	for _, e := range es {
		vCheckEntry("C19 handleDir(3, symbolic contents)", e)
	}
	vReach("end")
}

func H_C19T_glob3() {
	es := vDirScenario(3)
	pat := []string{"d/*.go", "d/*", "d/?ann*", "d/[ab]*"}[vndChoice("pattern", 4)]
	ok := vNoPanic(func() { _ = handlePatternFiles(vFSPath(pat)) })
	vAssert(ok, "C19 handlePatternFiles: no crash")
	for i, e := range es {
		matched := true
		switch pat {
		case "d/?ann*":
			matched = vIndex(e.name, "ann") == 3
		case "d/[ab]*":
			matched = i < 2 && e.name[2] != '.'
		case "d/*.go":
			matched = len(e.name) > 3 && e.name[len(e.name)-3:] == ".go"
		case "d/*":
			matched = true // filepath.Match has no rule for leading dots: '*' matches them
		}
		if !matched && e.class != 0 {
			got, ok := vFSGet(e.name)
			vAssert(ok && got == e.content && !vWritten(e.name), "C19 handlePatternFiles "+pat+": a file the pattern does not match is untouched")
			continue
		}
		vCheckEntry("C19 handlePatternFiles(3) "+pat, e)
	}
	vReach("end")
}
