//go:build verif

package main

// C06 through the command-line entry points: every annotated .go file a directory or a glob pattern
// selects is merged (not only the first one), each exactly as when it is processed on its own.

func vC06Files(n int) []vEntry {
	vSym = true
	vFSMkdir("d")
	var es []vEntry
	for i := 0; i < n; i++ {
		es = append(es, vMkEntry(i, 4))
	}
	return es
}

func H_C06_cli_dir() {
	es := vC06Files(2 + vndChoice("extra", 2))
	ok := vNoPanic(func() { _ = handleDir(vFSPath("d")) })
	vAssert(ok, "C06 cli -d: no crash")
	for _, e := range es {
		got, found := vFSGet(e.name)
		vAssert(found && got == e.want, "C06 cli -d: every annotated file of the directory is merged")
	}
	vReach("end")
}

func H_C06_cli_glob() {
	es := vC06Files(2 + vndChoice("extra", 2))
	pat := []string{"d/*.go", "d/*", "d/*.pb.go"}[vndChoice("pattern", 3)]
	ok := vNoPanic(func() { _ = handlePatternFiles(vFSPath(pat)) })
	vAssert(ok, "C06 cli -p: no crash")
	for _, e := range es {
		got, found := vFSGet(e.name)
		vAssert(found && got == e.want, "C06 cli -p: every annotated file the pattern matches is merged")
	}
	vReach("end")
}

func H_C06_cli_file() {
	es := vC06Files(2)
	ok := vNoPanic(func() {
		_ = handleFile(vFSPath(es[1].name))
		_ = handleFile(vFSPath(es[0].name))
	})
	vAssert(ok, "C06 cli -f: no crash")
	for _, e := range es {
		got, found := vFSGet(e.name)
		vAssert(found && got == e.want, "C06 cli -f: each file given is merged, in any order")
	}
	vReach("end")
}

// the same for C07: a second pass over the directory changes nothing
func H_C07_cli_dir_twice() {
	es := vC06Files(2)
	ok := vNoPanic(func() { _ = handleDir(vFSPath("d")) })
	vAssert(ok, "C07 cli -d: no crash")
	// after the first pass the files hold the merged sources; the parser sees those
	for _, e := range es {
		_, f := vAnnotatedSrc(e.val, true)
		vParseResult(e.name, f, nil)
	}
	ok = vNoPanic(func() { _ = handleDir(vFSPath("d")) })
	vAssert(ok, "C07 cli -d: no crash on the second pass")
	for _, e := range es {
		got, found := vFSGet(e.name)
		vAssert(found && got == e.want, "C07 cli -d: a second pass leaves every file byte-for-byte unchanged")
	}
	vReach("end")
}

// a directory whose name contains glob metacharacters: -d takes the path literally
func H_C06_cli_dir_literal_name() {
	vSym = true
	val := vInjVal("val")
	src, f := vAnnotatedSrc(val, false)
	want, _ := vAnnotatedSrc(val, true)
	dir := []string{"p[v1]", "p*", "p?x", "d"}[vndChoice("dir", 4)]
	vFSMkdir(dir)
	vFSPut(dir+"/a.pb.go", src)
	vParseResult(dir+"/a.pb.go", f, nil)
	// look-alikes a pattern would match instead
	for _, other := range []string{"pv", "p1", "pxx"} {
		vFSMkdir(other)
		vFSPut(other+"/a.pb.go", src)
		vParseResult(other+"/a.pb.go", f, nil)
	}
	ok := vNoPanic(func() { _ = handleDir(vFSPath(dir)) })
	vAssert(ok, "C06 cli -d: no crash")
	got, found := vFSGet(dir + "/a.pb.go")
	vAssert(found && got == want, "C06 cli -d: the files of the directory named are merged")
	for _, other := range []string{"pv", "p1", "pxx"} {
		g, _ := vFSGet(other + "/a.pb.go")
		vAssert(g == src, "C06 cli -d: files of other directories are untouched")
	}
	vReach("end")
}
