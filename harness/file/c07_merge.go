//go:build verif

package file

// white-box harnesses of C07 (see c06_merge.go)

// C07: running the injector on a file it has already processed changes nothing.

// merge level: merging the comment's items into the already merged literal is the identity
func vC07Merge(nOld, nInj int, kmax, vmax int) {
	old := vItemsN("o", nOld, true, kmax, vmax)
	inj := vItemsN("i", nInj, true, kmax, vmax)
	sep := []string{" ", "  "}[vndChoice("sep", 2)]
	injText := vItemsText(inj, " ")
	m1 := newTagItems(vItemsText(old, sep)).override(newTagItems(injText)).format()
	m2 := newTagItems(m1).override(newTagItems(injText)).format()
	vAssert(m2 == m1, "C07 merge: a second merge of the same comment is the identity")
	m3 := newTagItems(m2).override(newTagItems(injText)).format()
	vAssert(m3 == m1, "C07 merge: a third merge is the identity")
	vReach("end")
}

func H_C07_merge_1_1()  { vC07Merge(1, 1, 2, 2) }
func H_C07_merge_2_1()  { vC07Merge(2, 1, 1, 2) }
func H_C07_merge_1_2()  { vC07Merge(1, 2, 1, 2) }
func H_C07_merge_0_2()  { vC07Merge(0, 2, 2, 2) }
func H_C07T_merge_2_2() { vC07Merge(2, 2, 2, 2) }
func H_C07T_merge_3_2() { vC07Merge(3, 2, 1, 2) }

// expression level: injectTag applied twice with the area re-derived from the first output
func H_C07_expr() {
	old := vItemsN("o", 1, true, 2, 2)
	inj := vItemsN("i", 2, true, 1, 2)
	oldText := vItemsText(old, " ")
	injText := vItemsText(inj, " ")
	pre := vndStringN("pre", 1)
	post := " // @tag " + injText + "\n"
	expr := "F string `" + oldText + "`"
	c0 := pre + expr + post
	start := len(pre) + 1
	c1 := string(injectTag([]byte(c0), textArea{Start: start, End: start + len(expr), CurrentTag: oldText, InjectTag: injText}))
	merged := vItemsText(vMerge(old, inj), " ")
	expr1 := "F string `" + merged + "`"
	vAssert(c1 == pre+expr1+post, "C07 expr: first run merges")
	c2 := string(injectTag([]byte(c1), textArea{Start: start, End: start + len(expr1), CurrentTag: merged, InjectTag: injText}))
	vAssert(c2 == c1, "C07 expr: second run leaves the bytes unchanged")
	vReach("end")
}

// file level: the whole pipeline twice (and a third time) on the in-memory file
func H_C07_merge_dupkey() {
	k := vKey("k", 2)
	a, b := vTagVal("a", 2, true), vTagVal("b", 2, true)
	injText := k + ":\"" + a + "\" " + k + ":\"" + b + "\""
	old := ""
	switch vndChoice("old", 3) {
	case 1:
		old = "json:\"x\""
	case 2:
		old = k + ":\"" + vTagVal("o", 1, true) + "\""
	}
	m1 := newTagItems(old).override(newTagItems(injText)).format()
	m2 := newTagItems(m1).override(newTagItems(injText)).format()
	vAssert(m2 == m1, "C07 merge: a comment that repeats a key still reaches a fixed point after one run")
	m3 := newTagItems(m2).override(newTagItems(injText)).format()
	vAssert(m3 == m2, "C07 merge: and stays there")
	vReach("end")
}
