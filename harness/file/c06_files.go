//go:build verif

package file

import (
	"errors"
	"go/ast"
)

// black-box harnesses of C06: ParseFile + WriteFile over the file model, nothing else of package file is named

func vRunInjector(rel, src string, f *ast.File) (string, error) {
	vFSPut(rel, src)
	vParseResult(rel, f, nil)
	path := vFSPath(rel)
	areas, err := ParseFile(path)
	if err != nil {
		return "", err
	}
	if err := WriteFile(path, areas); err != nil {
		return "", err
	}
	out, ok := vFSGet(rel)
	if !ok {
		return "", errors.New("file vanished")
	}
	return out, nil
}

// two annotated fields with an un-annotated one between them, in two structs; offsets shift
func H_C06_file_two_areas() {
	o1 := vItemsN("a", 1, true, 2, 2)
	i1 := vItemsN("b", 1, true, 2, 2)
	o2 := vItemsN("c", 1, true, 1, 2)
	i2 := vItemsN("d", 2, true, 1, 2)
	pre := vSrcText("pre", 1)
	// arbitrary text before the declarations: kept inside a comment so the file still parses
	pretext := "// " + pre + "\n"
	structs := []vStructSrc{
		{name: "A", fields: []vField{
			{name: "X", typ: "string", hasTag: true, tag: vItemsText(o1, " "), comment: "// x @tag " + vItemsText(i1, " ")},
			{name: "Y", typ: "int", hasTag: true, tag: "json:\"y\""},
			{name: "Z", typ: "int", hasTag: true, tag: vItemsText(o2, "  "), comment: "// @tag " + vItemsText(i2, " ")},
		}},
		{name: "B", fields: []vField{
			{name: "P", typ: "bool"},
			{name: "Q", typ: "string", hasTag: true, tag: "json:\"q\"", comment: "// plain comment"},
		}},
	}
	src, f := vBuildSource(pretext, structs, "// end\n")
	got, err := vRunInjector("a.go", src, f)
	vAssert(err == nil, "C06 file: processing succeeds")
	want := vExpectedSource(pretext, structs, "// end\n", map[string]string{
		"A.X": vItemsText(vMerge(o1, i1), " "),
		"A.Z": vItemsText(vMerge(o2, i2), " "),
	})
	vAssert(got == want, "C06 file: both annotated fields merged, everything else byte-identical")
	vReach("end")
}

// non-ASCII text before and inside comments; the injected key overrides an existing one
func H_C06_file_unicode() {
	v := vTagVal("v", 3, false)
	k := vKey("k", 2)
	vAssume(k != "json")
	structs := []vStructSrc{{name: "A", fields: []vField{
		{name: "X", typ: "string", hasTag: true, tag: "json:\"x\" " + k + ":\"old\"", comment: "// 名称 @tag " + k + ":\"" + v + "\""},
	}}}
	src, f := vBuildSource("// 注释 é\n", structs, "")
	got, err := vRunInjector("u.go", src, f)
	vAssert(err == nil, "C06 file: processing succeeds")
	want := vExpectedSource("// 注释 é\n", structs, "", map[string]string{"A.X": "json:\"x\" " + k + ":\"" + v + "\""})
	vAssert(got == want, "C06 file: override in place with non-ASCII text around")
	vReach("end")
}

// a file without annotations is written back unchanged
func H_C06_file_plain() {
	c := vSrcText("c", 3)
	vAssume(vNoByte(c, '@'))
	structs := []vStructSrc{{name: "A", fields: []vField{
		{name: "X", typ: "string", hasTag: true, tag: "json:\"x\"", comment: "// " + c},
		{name: "Y", typ: "int"},
	}}}
	src, f := vBuildSource("", structs, "")
	got, err := vRunInjector("p.go", src, f)
	vAssert(err == nil, "C06 file: processing succeeds")
	vAssert(got == src, "C06 file: fields without an @tag comment are untouched")
	vReach("end")
}

// the same comment text on several fields of one file (and a key it overrides in each of them)
func H_C06_file_same_comment() {
	v := vTagVal("v", 2, true)
	k := vKey("k", 2)
	vAssume(k != "json")
	vAssume(k != "extra")
	comment := "// @tag " + k + ":\"" + v + "\" extra:\"e\""
	structs := []vStructSrc{
		{name: "A", fields: []vField{
			{name: "X", typ: "string", hasTag: true, tag: "json:\"x\" " + k + ":\"old\"", comment: comment},
			{name: "Y", typ: "int", hasTag: true, tag: k + ":\"keep\" json:\"y\"", comment: comment},
		}},
		{name: "B", fields: []vField{
			{name: "Z", typ: "bool", hasTag: true, tag: "json:\"z\"", comment: comment},
		}},
	}
	src, f := vBuildSource("", structs, "")
	got, err := vRunInjector("s.go", src, f)
	vAssert(err == nil, "C06 file: processing succeeds")
	want := vExpectedSource("", structs, "", map[string]string{
		"A.X": "json:\"x\" " + k + ":\"" + v + "\" extra:\"e\"",
		"A.Y": k + ":\"" + v + "\" json:\"y\" extra:\"e\"",
		"B.Z": "json:\"z\" " + k + ":\"" + v + "\" extra:\"e\"",
	})
	vAssert(got == want, "C06 file: identical comments on several fields are merged independently")
	vReach("end")
}

// an override that makes an earlier literal shorter, with annotated fields after it
func H_C06_file_shrink() {
	v := vTagVal("v", 1, true)
	structs := []vStructSrc{{name: "A", fields: []vField{
		{name: "X", typ: "string", hasTag: true, tag: "json:\"name,omitempty\"", comment: "// @tag json:\"" + v + "\""},
		{name: "Y", typ: "int", hasTag: true, tag: "json:\"y\"", comment: "// @tag valid:\"required\""},
		{name: "Z", typ: "int", hasTag: true, tag: "json:\"zzzzzzzz\" valid:\"old\"", comment: "// @tag valid:\"n\" json:\"z\""},
	}}}
	src, f := vBuildSource("", structs, "// tail\n")
	got, err := vRunInjector("k.go", src, f)
	vAssert(err == nil, "C06 file: processing succeeds")
	want := vExpectedSource("", structs, "// tail\n", map[string]string{
		"A.X": "json:\"" + v + "\"",
		"A.Y": "json:\"y\" valid:\"required\"",
		"A.Z": "json:\"z\" valid:\"n\"",
	})
	vAssert(got == want, "C06 file: literals that shrink do not disturb later fields")
	vReach("end")
}

// an injected key that is a suffix of an existing key with the same value
func H_C06_suffix_key() {
	v := vTagVal("v", 2, true)
	structs := []vStructSrc{{name: "A", fields: []vField{
		{name: "X", typ: "string", hasTag: true, tag: "curl:\"" + v + "\"", comment: "// @tag url:\"" + v + "\""},
		{name: "Y", typ: "string", hasTag: true, tag: "valid:\"" + v + "\" json:\"y\"", comment: "// @tag valid:\"" + v + "\""},
	}}}
	src, f := vBuildSource("", structs, "")
	got, err := vRunInjector("x.go", src, f)
	vAssert(err == nil, "C06 file: processing succeeds")
	want := vExpectedSource("", structs, "", map[string]string{
		"A.X": "curl:\"" + v + "\" url:\"" + v + "\"",
		"A.Y": "valid:\"" + v + "\" json:\"y\"",
	})
	vAssert(got == want, "C06 file: keys are compared whole, an already present value is kept once")
	vReach("end")
}

// layouts other than gofmt's, and a doc comment that mentions @tag: only the tag literals of fields with
// a trailing @tag comment change
func H_C06_file_layouts() {
	vSetLayout(vndChoice("layout", vNLayouts))
	defer vSetLayout(0)
	v := vTagVal("v", 2, true)
	structs := []vStructSrc{{name: "A", fields: []vField{
		{name: "X", typ: "string", hasTag: true, tag: "json:\"x\"", doc: "//  doc @tag gorm:\"x\"", comment: "// @tag valid:\"" + v + "\""},
		{name: "LongerName", typ: "int", hasTag: true, tag: "json:\"n\"   yaml:\"n\"", doc: "// @tag valid:\"required\""},
		{name: "Z", typ: "[]byte", hasTag: true, tag: "a:\"1\"  b:\"2\"", comment: "//   z  @tag b:\"" + v + "\""},
	}}}
	pre, post := "import (\"fmt\")\nvar   _ = fmt.Sprint( 1,2 )\n", "func F( ) { }\n"
	src, f := vBuildSource(pre, structs, post)
	got, err := vRunInjector("y.go", src, f)
	vAssert(err == nil, "C06 layouts: processing succeeds")
	want := vExpectedSource(pre, structs, post, map[string]string{
		"A.X": "json:\"x\" valid:\"" + v + "\"",
		"A.Z": "a:\"1\" b:\"" + v + "\"",
	})
	vAssert(got == want, "C06 layouts: every byte outside the annotated fields' tag literals is unchanged")
	vReach("end")
}

// unexported fields and byte-identical fields: the field that carries the comment gets the tag, at its own place
func H_C06_file_unexported_and_identical() {
	v := vTagVal("v", 2, true)
	structs := []vStructSrc{
		{name: "A", fields: []vField{
			{name: "ID", typ: "int64", hasTag: true, tag: "json:\"id\""},
			{name: "age", typ: "int32", hasTag: true, tag: "json:\"age\"", comment: "// @tag valid:\"" + v + "\""},
			{name: "Name", typ: "string", hasTag: true, tag: "json:\"name\""},
		}},
		{name: "B", fields: []vField{
			{name: "ID", typ: "int64", hasTag: true, tag: "json:\"id\"", comment: "// @tag valid:\"required\""},
			{name: "Name", typ: "string", hasTag: true, tag: "json:\"name\"", comment: "// @tag valid:\"" + v + "\""},
			{name: "sizeCache", typ: "int32"},
		}},
	}
	src, f := vBuildSource("", structs, "")
	got, err := vRunInjector("i.go", src, f)
	vAssert(err == nil, "C06 unexported / identical fields: processing succeeds")
	want := vExpectedSource("", structs, "", map[string]string{
		"A.age":  "json:\"age\" valid:\"" + v + "\"",
		"B.ID":   "json:\"id\" valid:\"required\"",
		"B.Name": "json:\"name\" valid:\"" + v + "\"",
	})
	vAssert(got == want, "C06 unexported / identical fields: each annotated field is merged at its own position")
	vReach("end")
}

// ---- round 4 ----

// key names as they occur in real files (the symbolic keys above are 1..2 bytes of \w): the keys protoc-gen-go
// itself writes, the usual library keys, keys that are prefixes / suffixes of each other, keys with digits,
// underscores and upper case; every ordered pair (existing key, injected key) with symbolic values
