//go:build verif

package file

import (
	"errors"
	"go/ast"
)

// black-box harnesses of C07: ParseFile + WriteFile over the file model
func H_C07_file() {
	o1 := vItemsN("a", 1, true, 1, 2)
	i1 := vItemsN("b", 2, true, 1, 1)
	i2 := vItemsN("d", 1, true, 2, 2)
	structs := []vStructSrc{
		{name: "A", fields: []vField{
			{name: "X", typ: "string", hasTag: true, tag: vItemsText(o1, " "), comment: "// x @tag " + vItemsText(i1, " ")},
			{name: "Y", typ: "int"},
			{name: "Z", typ: "int", hasTag: true, tag: "json:\"z\"", comment: "// @tag " + vItemsText(i2, " ")},
		}},
	}
	src, f := vBuildSource("", structs, "")
	out1, err := vRunInjector("i.go", src, f)
	vAssert(err == nil, "C07 file: first run succeeds")
	merged := map[string]string{
		"A.X": vItemsText(vMerge(o1, i1), " "),
		"A.Z": vItemsText(vMerge([]vItem{{"json", "z"}}, i2), " "),
	}
	want := vExpectedSource("", structs, "", merged)
	vAssert(out1 == want, "C07 file: first run merges")
	if out1 != want {
		return
	}
	// the processed file, as the parser sees it
	var st2 []vStructSrc
	for _, st := range structs {
		ns := vStructSrc{name: st.name}
		for _, fd := range st.fields {
			if m, ok := merged[st.name+"."+fd.name]; ok {
				fd.tag = m
			}
			ns.fields = append(ns.fields, fd)
		}
		st2 = append(st2, ns)
	}
	src2, f2 := vBuildSource("", st2, "")
	vAssert(src2 == out1, "C07 file: source model of the processed file")
	out2, err := vRunInjector("i.go", src2, f2)
	vAssert(err == nil && out2 == out1, "C07 file: second run leaves the file byte-for-byte unchanged")
	out3, err := vRunInjector("i.go", out2, f2)
	vAssert(err == nil && out3 == out1, "C07 file: third run leaves the file unchanged")
	vReach("end")
}

func H_C07_file_plain() {
	c := vSrcText("c", 3)
	vAssume(vNoByte(c, '@'))
	structs := []vStructSrc{{name: "A", fields: []vField{
		{name: "X", typ: "string", hasTag: true, tag: "json:\"x\"", comment: "// " + c},
		{name: "Y", typ: "int"},
	}}}
	src, f := vBuildSource("// h\n", structs, "")
	out1, err := vRunInjector("p.go", src, f)
	vAssert(err == nil && out1 == src, "C07 plain: a file without @tag annotations is unchanged")
	out2, err := vRunInjector("p.go", out1, f)
	vAssert(err == nil && out2 == src, "C07 plain: and stays unchanged")
	vReach("end")
}

// the comment may name a key twice: the merge must still reach a fixed point after the first run
// an override that shortens an earlier literal while later fields are annotated too
func H_C07_file_shrink() {
	v := vTagVal("v", 1, true)
	mk := func(x, y, z string) []vStructSrc {
		return []vStructSrc{{name: "A", fields: []vField{
			{name: "X", typ: "string", hasTag: true, tag: x, comment: "// @tag json:\"" + v + "\""},
			{name: "Y", typ: "int", hasTag: true, tag: y, comment: "// @tag valid:\"required\""},
			{name: "Z", typ: "int", hasTag: true, tag: z, comment: "// @tag valid:\"n\" json:\"z\""},
		}}}
	}
	src, f := vBuildSource("", mk("json:\"name,omitempty\"", "json:\"y\"", "json:\"zzzzzzzz\" valid:\"old\""), "")
	out1, err := vRunInjector("k.go", src, f)
	vAssert(err == nil, "C07 shrink: first run succeeds")
	src2, f2 := vBuildSource("", mk("json:\""+v+"\"", "json:\"y\" valid:\"required\"", "json:\"z\" valid:\"n\""), "")
	vAssert(out1 == src2, "C07 shrink: first run merges every annotated field")
	if out1 != src2 {
		return
	}
	out2, err := vRunInjector("k.go", src2, f2)
	vAssert(err == nil && out2 == out1, "C07 shrink: second run leaves the file unchanged")
	vReach("end")
}

// layouts other than gofmt's (still valid Go): a file without annotations comes back byte-identical; an
// annotated one changes inside the tag literals only, and a second run changes nothing
func vSetLayout(i int) {
	switch i {
	case 0:
		vIndent, vGap, vNoFinalLine = "\t", " ", false
	case 1:
		vIndent, vGap, vNoFinalLine = "    ", " ", false // spaces instead of tabs
	case 2:
		vIndent, vGap, vNoFinalLine = "\t", "   ", false // wide gaps
	case 3:
		vIndent, vGap, vNoFinalLine = "", " ", true // no indentation, no final newline
	case 4:
		vIndent, vGap, vNoFinalLine = "\t \t", "\t", false
	}
}

const vNLayouts = 5

func H_C07_layouts_plain() {
	vSetLayout(vndChoice("layout", vNLayouts))
	defer vSetLayout(0)
	structs := []vStructSrc{{name: "A", fields: []vField{
		{name: "X", typ: "string", hasTag: true, tag: "json:\"x\"   valid:\"required\"", comment: "//  plain   comment"},
		{name: "LongerName", typ: "int"},
		{name: "Y", typ: "map[string]int", hasTag: true, tag: "json:\"y\""},
	}}}
	src, f := vBuildSource("import (\"fmt\")\nvar   _ = fmt.Sprint( 1,2 )\n", structs, "func F( ) { }\n")
	out1, err := vRunInjector("l.go", src, f)
	vAssert(err == nil && out1 == src, "C07 layouts: a file without @tag annotations is unchanged whatever its layout")
	vReach("end")
}

func H_C07_layouts_annotated() {
	vSetLayout(vndChoice("layout", vNLayouts))
	defer vSetLayout(0)
	mk := func(x, z string) []vStructSrc {
		return []vStructSrc{{name: "A", fields: []vField{
			{name: "X", typ: "string", hasTag: true, tag: x, comment: "// @tag valid:\"required\""},
			{name: "LongerName", typ: "int"},
			{name: "Z", typ: "[]byte", hasTag: true, tag: z, comment: "//   z  @tag json:\"zz\" gorm:\"-\""},
		}}}
	}
	pre, post := "var   V=1\n", "func F( ) { }\n"
	src, f := vBuildSource(pre, mk("json:\"x\"", "json:\"z\"  yaml:\"z\""), post)
	out1, err := vRunInjector("l.go", src, f)
	vAssert(err == nil, "C07 layouts: first run succeeds")
	src2, f2 := vBuildSource(pre, mk("json:\"x\" valid:\"required\"", "json:\"zz\" yaml:\"z\" gorm:\"-\""), post)
	vAssert(out1 == src2, "C07 layouts: first run changes the tag literals only")
	if out1 != src2 {
		return
	}
	out2, err := vRunInjector("l.go", src2, f2)
	vAssert(err == nil && out2 == out1, "C07 layouts: second run leaves the file unchanged")
	vReach("end")
}

// a field that carries @tag text in the comment above it as well as in its trailing comment: the
// trailing comment is the annotation; processing converges after the first run
func H_C07_doc_and_trailing() {
	v := vTagVal("v", 2, true)
	mk := func(x string) []vStructSrc {
		return []vStructSrc{{name: "A", fields: []vField{
			{name: "X", typ: "string", hasTag: true, tag: x, doc: "// X is the name @tag gorm:\"column:x\"", comment: "// @tag valid:\"" + v + "\""},
			{name: "Y", typ: "int", hasTag: true, tag: "json:\"y\"", doc: "// @tag valid:\"required\""},
		}}}
	}
	src, f := vBuildSource("", mk("json:\"x\""), "")
	out1, err := vRunInjector("d.go", src, f)
	vAssert(err == nil, "C07 doc+trailing: first run succeeds")
	src2, f2 := vBuildSource("", mk("json:\"x\" valid:\""+v+"\""), "")
	vAssert(out1 == src2, "C07 doc+trailing: the trailing comment's keys are injected, the comment above the field is text")
	if out1 != src2 {
		return
	}
	out2, err := vRunInjector("d.go", src2, f2)
	vAssert(err == nil && out2 == out1, "C07 doc+trailing: second run leaves the file unchanged")
	out3, err := vRunInjector("d.go", out2, f2)
	vAssert(err == nil && out3 == out1, "C07 doc+trailing: third run leaves the file unchanged")
	vReach("end")
}

// a field whose type is an anonymous struct: annotations on the nested fields and on the enclosing field
// (the file converges after the first run whatever the tool makes of the nested ones)
func H_C07_nested_anonymous() {
	v := vTagVal("v", 2, true)
	mk := func(outer, inner string) []vStructSrc {
		return []vStructSrc{{name: "A", fields: []vField{
			{name: "Buyer", hasTag: true, tag: outer, comment: "// @tag valid:\"" + v + "\"", sub: []vField{
				{name: "Name", typ: "string", hasTag: true, tag: inner, comment: "// @tag valid:\"required\""},
				{name: "Age", typ: "int"},
			}},
			{name: "Z", typ: "int", hasTag: true, tag: "json:\"z\"", comment: "// @tag valid:\"ge=1\""},
		}}}
	}
	src, f := vBuildSource("", mk("json:\"buyer\"", "json:\"name\""), "")
	out1, err := vRunInjector("n.go", src, f)
	vAssert(err == nil, "C07 nested anonymous struct: first run succeeds")
	// the processed file as the parser sees it: which literals changed is read back from the output
	cands := [][2]string{
		{"json:\"buyer\" valid:\"" + v + "\"", "json:\"name\""},
		{"json:\"buyer\" valid:\"" + v + "\"", "json:\"name\" valid:\"required\""},
		{"json:\"buyer\"", "json:\"name\" valid:\"required\""},
		{"json:\"buyer\"", "json:\"name\""},
	}
	hit := -1
	for i, c := range cands {
		st := mk(c[0], c[1])
		st[0].fields[1].tag = "json:\"z\" valid:\"ge=1\""
		s2, _ := vBuildSource("", st, "")
		if s2 == out1 {
			hit = i
		}
	}
	vAssert(hit >= 0, "C07 nested anonymous struct: the first run changes tag literals only")
	if hit < 0 {
		return
	}
	st := mk(cands[hit][0], cands[hit][1])
	st[0].fields[1].tag = "json:\"z\" valid:\"ge=1\""
	src2, f2 := vBuildSource("", st, "")
	out2, err := vRunInjector("n.go", src2, f2)
	vAssert(err == nil && out2 == out1, "C07 nested anonymous struct: second run leaves the file byte-for-byte unchanged")
	vReach("end")
}

// ---- round 4 ----

// lines longer than the buffers of line-oriented readers (bufio.Reader: 4096 bytes, bufio.Scanner: 64 KiB), as
// generated code has them (file descriptors, embedded tables): before the struct, inside the struct's trailing
// comment, after it; a file without annotations is unchanged, an annotated one changes inside the tag literal
// only, and the second run changes nothing
func vLongLine(n int) string {
	b := make([]byte, n)
	for i := range b {
		b[i] = byte('a' + i%26)
	}
	return string(b)
}

func H_C07_long_lines() {
	n := []int{4095, 4096, 5000, 70000}[vndChoice("len", 4)]
	long := "// " + vLongLine(n) + "\n"
	where := vndChoice("where", 3)
	pre, post, cmt := "", "", "// plain"
	switch where {
	case 0:
		pre = long
	case 1:
		post = long + "var Last = 1\n"
	case 2:
		cmt = "// " + vLongLine(n)
	}
	annotated := vndBool("annotated")
	fields := []vField{{name: "X", typ: "string", hasTag: true, tag: "json:\"x\"", comment: cmt}, {name: "Y", typ: "int", hasTag: true, tag: "json:\"y\""}}
	wantFields := []vField{fields[0], fields[1]}
	if annotated {
		fields[1].comment = "// @tag valid:\"required\""
		wantFields[1] = vField{name: "Y", typ: "int", hasTag: true, tag: "json:\"y\" valid:\"required\"", comment: "// @tag valid:\"required\""}
	}
	src, f := vBuildSource(pre, []vStructSrc{{name: "A", fields: fields}}, post)
	want, f2 := vBuildSource(pre, []vStructSrc{{name: "A", fields: wantFields}}, post)
	out1, err := vRunInjector("p.go", src, f)
	vAssert(err == nil && out1 == want, "C07 long lines: only the tag literal of the annotated field changes")
	out2, err := vRunInjector("p.go", out1, f2)
	vAssert(err == nil && out2 == want, "C07 long lines: the second run changes nothing")
	vReach("end")
}

// an injected value with a back quote (a regular expression or a message quoting code). What the first run
// writes either no longer parses (a raw literal cannot hold a back quote: later runs must leave the file alone)
// or parses with the literal the injector chose; either way the second and third run change nothing. The
// parse result of each later run is derived from the previous run's output the way go/parser reads it
// (the native replay runs the real parser on the same bytes).
func H_C07_backquote_value() {
	val := []string{"a`b", "re='^`[a-z]+`$'", "`", "x` json:\"y"}[vndChoice("val", 4)]
	fields := []vField{{name: "X", typ: "string", hasTag: true, tag: "protobuf:\"bytes,1\" json:\"x\"", comment: "// @tag valid:\"" + val + "\""}}
	src, f := vBuildSource("", []vStructSrc{{name: "A", fields: fields}}, "var Last = 1\n")
	out, err := vRunInjector("p.go", src, f)
	vAssert(err == nil, "C07 back quote: first run")
	first := out
	for run := 2; run <= 3; run++ {
		// the literal as it stands in the file now
		a := vIndexStr(out, "X string ") + len("X string ")
		b := vIndexStr(out, " // @tag")
		vAssert(a >= len("X string ") && b > a, "C07 back quote: the field line is still there")
		if !(a >= len("X string ") && b > a) {
			return
		}
		lit := out[a:b]
		parses := true
		if lit[0] == '`' {
			for i := 1; i < len(lit)-1; i++ {
				if lit[i] == '`' {
					parses = false // the raw literal ends early: syntax error
				}
			}
		}
		var next string
		if !parses {
			vFSPut("p.go", out)
			vParseResult("p.go", nil, errors.New("syntax error: unexpected literal"))
			if areas, perr := ParseFile(vFSPath("p.go")); perr == nil { // what the command does: parse, and write only then
				_ = WriteFile(vFSPath("p.go"), areas)
			}
			next, _ = vFSGet("p.go")
		} else {
			// same layout, the tag literal replaced by lit (positions depend on lengths only)
			pad := make([]byte, len(lit)-2)
			for i := range pad {
				pad[i] = 'p'
			}
			fs := []vField{{name: "X", typ: "string", hasTag: true, tag: string(pad), comment: "// @tag valid:\"" + val + "\""}}
			_, f2 := vBuildSource("", []vStructSrc{{name: "A", fields: fs}}, "var Last = 1\n")
			vSetFirstTag(f2, lit)
			next, err = vRunInjector("p.go", out, f2)
			vAssert(err == nil, "C07 back quote: later run")
		}
		vAssert(next == first, "C07 back quote: a later run leaves the file as the first run wrote it")
		out = next
	}
	vReach("end")
}

func vIndexStr(s, sub string) int {
	for i := 0; i+len(sub) <= len(s); i++ {
		if s[i:i+len(sub)] == sub {
			return i
		}
	}
	return -1
}

func vSetFirstTag(f *ast.File, lit string) {
	f.Decls[0].(*ast.GenDecl).Specs[0].(*ast.TypeSpec).Type.(*ast.StructType).Fields.List[0].Tag.Value = lit
}

// twin fields: two (three) structs declare a byte-identical field -- same name, type and tag literal, as
// the first field of several messages is in generated code -- but their @tag comments differ. Every field
// receives its own comment's value on the first run, and later runs change nothing.
func H_C07_twin_fields() {
	v1, v2 := vTagVal("v1", 2, true), vTagVal("v2", 2, true)
	n := 2 + vndChoice("third", 2)
	vals := []string{v1, v2, "int"}
	var structs []vStructSrc
	merged := map[string]string{}
	for i := 0; i < n; i++ {
		name := string([]byte{byte('A' + i)})
		structs = append(structs, vStructSrc{name: name, fields: []vField{
			{name: "Id", typ: "int64", hasTag: true, tag: "json:\"id\"", comment: "// @tag valid:\"" + vals[i] + "\""},
			{name: "N", typ: "int"},
		}})
		merged[name+".Id"] = "json:\"id\" valid:\"" + vals[i] + "\""
	}
	src, f := vBuildSource("", structs, "")
	out1, err := vRunInjector("i.go", src, f)
	vAssert(err == nil, "C07 twin fields: first run succeeds")
	want := vExpectedSource("", structs, "", merged)
	vAssert(out1 == want, "C07 twin fields: every field receives the value of its own comment")
	if out1 != want {
		return
	}
	var st2 []vStructSrc
	for _, st := range structs {
		ns := vStructSrc{name: st.name}
		for _, fd := range st.fields {
			if m, ok := merged[st.name+"."+fd.name]; ok {
				fd.tag = m
			}
			ns.fields = append(ns.fields, fd)
		}
		st2 = append(st2, ns)
	}
	src2, f2 := vBuildSource("", st2, "")
	out2, err := vRunInjector("i.go", src2, f2)
	vAssert(err == nil && out2 == out1, "C07 twin fields: second run leaves the file byte-for-byte unchanged")
	vReach("end")
}
