//go:build verif

package file

// Harness runtime for the injector, native side: a scratch directory on the real
// file system plays the role of the executor's in-memory file system, and the real
// go/parser parses what the harness wrote (vParseResult only feeds the executor's stub).

import (
	"go/ast"
	"os"
	"path/filepath"
	"sort"
	"time"
)

var (
	vFSRootDir string
	vFSPutLog  = map[string]string{}
	vFSPutTime = map[string]time.Time{}
)

func vFSRoot() string {
	if vFSRootDir == "" {
		d, err := os.MkdirTemp("", "verif_fs_")
		if err != nil {
			panic(err)
		}
		vFSRootDir = d
	}
	return vFSRootDir
}

func init() { vCleanup = vFSCleanup }

func vFSCleanup() {
	if vFSRootDir != "" {
		os.RemoveAll(vFSRootDir)
	}
}

func vFSPath(rel string) string { return filepath.Join(vFSRoot(), rel) }

func vFSPut(rel, content string) {
	p := vFSPath(rel)
	os.MkdirAll(filepath.Dir(p), 0755)
	if err := os.WriteFile(p, []byte(content), 0644); err != nil {
		panic(err)
	}
	vFSPutLog[rel] = content
	if fi, err := os.Stat(p); err == nil {
		vFSPutTime[rel] = fi.ModTime()
	}
}

func vFSMkdir(rel string) { os.MkdirAll(vFSPath(rel), 0755) }

// vFSSymlink: a symbolic link at rel pointing at targetRel (which need not exist)
func vFSSymlink(rel, targetRel string) {
	p := vFSPath(rel)
	os.MkdirAll(filepath.Dir(p), 0755)
	os.Remove(p)
	if err := os.Symlink(vFSPath(targetRel), p); err != nil {
		panic(err)
	}
}

func vFSGet(rel string) (string, bool) {
	b, err := os.ReadFile(vFSPath(rel))
	return string(b), err == nil
}

// vFSWrites: natively, the files whose content or modification time differs from what the harness put there.
func vFSWrites() []string {
	var out []string
	for rel, c := range vFSPutLog {
		now, ok := vFSGet(rel)
		fi, err := os.Stat(vFSPath(rel))
		if !ok || now != c || err != nil || !fi.ModTime().Equal(vFSPutTime[rel]) {
			out = append(out, rel)
		}
	}
	sort.Strings(out)
	return out
}

// vFSList: the names in the directory, sorted, one per line
func vFSList(rel string) string {
	es, _ := os.ReadDir(vFSPath(rel))
	out := ""
	for i, e := range es {
		if i > 0 {
			out += "\n"
		}
		out += e.Name()
	}
	return out
}

func vParseResult(rel string, f *ast.File, err error) {}
