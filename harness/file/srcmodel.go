//go:build verif

package file

import (
	"go/ast"
	"go/token"
)

// Source model shared by the injector harnesses (package file and package main): a Go source
// text and the *ast.File go/parser produces for it are built together from pieces, so every
// position is consistent by construction.

type vField struct {
	name, typ string
	hasTag    bool
	tag       string   // text between the backquotes
	rawLit    string   // when set: the tag literal exactly as written (e.g. an interpreted string literal), tag is ignored
	comment   string   // full comment text incl. "//", "" = none
	comment2  string   // a second comment in the same trailing group (the first must then be a /* */ comment)
	doc       string   // a comment on the line above the field (its doc comment), "" = none
	sub       []vField // non-nil: the field's type is an anonymous struct with these fields (typ is ignored)
}

// layout of the rendered source: gofmt's by default; other layouts are still valid Go
var (
	vIndent      = "\t"
	vGap         = " "
	vNoFinalLine bool
)

type vStructSrc struct {
	name   string
	fields []vField
}

// vBuildSource renders the source and builds the matching AST.
func vBuildSource(pre string, structs []vStructSrc, post string) (string, *ast.File) {
	src := "package p\n" + pre
	f := &ast.File{Package: 1, Name: &ast.Ident{NamePos: 9, Name: "p"}}
	for _, st := range structs {
		declPos := token.Pos(len(src) + 1)
		src += "type "
		namePos := token.Pos(len(src) + 1)
		src += st.name + " "
		structPos := token.Pos(len(src) + 1)
		src += "struct {\n"
		fl := &ast.FieldList{Opening: structPos + 7}
		for _, fd := range st.fields {
			var docGroup *ast.CommentGroup
			if fd.doc != "" {
				src += vIndent
				dp := token.Pos(len(src) + 1)
				src += fd.doc + "\n"
				docGroup = &ast.CommentGroup{List: []*ast.Comment{{Slash: dp, Text: fd.doc}}}
				f.Comments = append(f.Comments, docGroup)
			}
			src += vIndent
			np := token.Pos(len(src) + 1)
			src += fd.name + vGap
			tp := token.Pos(len(src) + 1)
			var ftype ast.Expr = &ast.Ident{NamePos: tp, Name: fd.typ}
			if fd.sub != nil {
				// anonymous struct type: one level of nested fields, each with optional tag and trailing comment
				src += "struct {\n"
				sfl := &ast.FieldList{Opening: tp + 7}
				for _, sf := range fd.sub {
					src += vIndent + vIndent
					snp := token.Pos(len(src) + 1)
					src += sf.name + vGap
					stp := token.Pos(len(src) + 1)
					src += sf.typ
					saf := &ast.Field{Names: []*ast.Ident{{NamePos: snp, Name: sf.name}}, Type: &ast.Ident{NamePos: stp, Name: sf.typ}}
					if sf.hasTag {
						src += vGap
						svp := token.Pos(len(src) + 1)
						slit := "`" + sf.tag + "`"
						src += slit
						saf.Tag = &ast.BasicLit{ValuePos: svp, Kind: token.STRING, Value: slit}
					}
					if sf.comment != "" {
						src += vGap
						scp := token.Pos(len(src) + 1)
						src += sf.comment
						scg := &ast.CommentGroup{List: []*ast.Comment{{Slash: scp, Text: sf.comment}}}
						saf.Comment = scg
						f.Comments = append(f.Comments, scg)
					}
					src += "\n"
					sfl.List = append(sfl.List, saf)
				}
				src += vIndent
				sfl.Closing = token.Pos(len(src) + 1)
				src += "}"
				ftype = &ast.StructType{Struct: tp, Fields: sfl}
			} else {
				src += fd.typ
			}
			af := &ast.Field{Doc: docGroup, Names: []*ast.Ident{{NamePos: np, Name: fd.name}}, Type: ftype}
			if fd.hasTag {
				src += vGap
				vp := token.Pos(len(src) + 1)
				lit := "`" + fd.tag + "`"
				if fd.rawLit != "" {
					lit = fd.rawLit
				}
				src += lit
				af.Tag = &ast.BasicLit{ValuePos: vp, Kind: token.STRING, Value: lit}
			}
			if fd.comment != "" {
				src += vGap
				cp := token.Pos(len(src) + 1)
				src += fd.comment
				cg := &ast.CommentGroup{List: []*ast.Comment{{Slash: cp, Text: fd.comment}}}
				if fd.comment2 != "" {
					src += " "
					cp2 := token.Pos(len(src) + 1)
					src += fd.comment2
					cg.List = append(cg.List, &ast.Comment{Slash: cp2, Text: fd.comment2})
				}
				af.Comment = cg
				f.Comments = append(f.Comments, cg)
			}
			src += "\n"
			fl.List = append(fl.List, af)
		}
		fl.Closing = token.Pos(len(src) + 1)
		src += "}\n"
		f.Decls = append(f.Decls, &ast.GenDecl{TokPos: declPos, Tok: token.TYPE, Specs: []ast.Spec{
			&ast.TypeSpec{Name: &ast.Ident{NamePos: namePos, Name: st.name}, Type: &ast.StructType{Struct: structPos, Fields: fl}},
		}})
	}
	src += post
	if vNoFinalLine && len(src) > 0 && src[len(src)-1] == '\n' {
		src = src[:len(src)-1]
	}
	return src, f
}

// vExpectedSource: the same source with every annotated field's literal replaced by the merged tag.
func vExpectedSource(pre string, structs []vStructSrc, post string, merged map[string]string) string {
	var out []vStructSrc
	for _, st := range structs {
		ns := vStructSrc{name: st.name}
		for _, fd := range st.fields {
			if m, ok := merged[st.name+"."+fd.name]; ok {
				fd.tag = m
			}
			ns.fields = append(ns.fields, fd)
		}
		out = append(out, ns)
	}
	s, _ := vBuildSource(pre, out, post)
	return s
}
