//go:build verif

package file

import (
	"errors"
	"go/ast"
)

// C06/C07/C19 share this file's source model: a Go source text and the
// *ast.File go/parser would produce for it are built together from pieces, so
// every position is consistent by construction (assumption A-parser: go/parser
// reports exactly these positions, tag literals and trailing comments; the
// native replay runs the real parser on the same bytes).

func vNoByte(s string, c byte) bool {
	ok := true
	for i := 0; i < len(s); i++ {
		ok = vAnd(ok, s[i] != c)
	}
	return ok
}

// vKey: a tag key, \w bytes
func vKey(name string, max int) string {
	k := vndString(name, max)
	vAssume(len(k) > 0)
	for i := 0; i < len(k); i++ {
		c := k[i]
		vAssume(vOr(vOr(vAnd(c >= 'a', c <= 'z'), vAnd(c >= 'A', c <= 'Z')), vOr(vAnd(c >= '0', c <= '9'), c == '_')))
	}
	return k
}

// vVal: a tag value: non-empty, no double quote, no backquote, no newline; anything else incl. '$', '\', space, non-ASCII
func vTagVal(name string, max int, ascii bool) string {
	v := vndString(name, max)
	vAssume(len(v) > 0)
	vAssume(vNoByte(v, '"'))
	vAssume(vNoByte(v, '`'))
	vAssume(vNoByte(v, '\n'))
	vAssume(vNoByte(v, '\r'))
	vAssume(vNoByte(v, 0)) // go/scanner rejects NUL
	if ascii {
		for i := 0; i < len(v); i++ {
			vAssume(v[i] < 0x80)
		}
	} else {
		vAssume(vValidUTF8(v))
		vAssume(vNoByte(v, '$')) // '$' is covered by the ASCII variant (Go's template names accept unicode letters)
	}
	return v
}

// vSrcText: bytes that may appear inside a // comment of a Go file (what go/scanner accepts)
func vSrcText(name string, max int) string {
	c := vndString(name, max)
	vAssume(vValidUTF8(c))
	vAssume(vNoByte(c, 0))
	vAssume(vNoByte(c, '\n'))
	vAssume(vNoByte(c, '\r'))
	return c
}

type vItem struct{ k, v string }

func vItemsText(items []vItem, sep string) string {
	s := ""
	for i, it := range items {
		if i > 0 {
			s += sep
		}
		s += it.k + ":\"" + it.v + "\""
	}
	return s
}

// vMerge: the statement's merge rule. Old keys keep their position; a mentioned key takes the
// injected value; new keys follow in the order of the comment; no key twice.
func vMerge(old, inj []vItem) []vItem {
	var out []vItem
	used := make([]bool, len(inj))
	for _, o := range old {
		it := o
		for j := range inj {
			if !used[j] && inj[j].k == o.k {
				it = inj[j]
				used[j] = true
				break
			}
		}
		out = append(out, it)
	}
	for j := range inj {
		if !used[j] {
			out = append(out, inj[j])
		}
	}
	return out
}

func vDistinctKeys(items []vItem) {
	for i := range items {
		for j := 0; j < i; j++ {
			vAssume(items[i].k != items[j].k)
		}
	}
}

func vItems(prefix string, n int, ascii bool) []vItem { return vItemsN(prefix, n, ascii, 2, 2) }

func vItemsN(prefix string, n int, ascii bool, kmax, vmax int) []vItem {
	var out []vItem
	for i := 0; i < n; i++ {
		out = append(out, vItem{vKey(prefix+"k"+vDigit(i), kmax), vTagVal(prefix+"v"+vDigit(i), vmax, ascii)})
	}
	vDistinctKeys(out)
	return out
}

func vDigit(i int) string { return string([]byte{byte('0' + i)}) }

// ---- merge level: newTagItems / override / format / injectTag ----

func vC06Merge(nOld, nInj int, ascii bool, kmax, vmax int) {
	old := vItemsN("o", nOld, ascii, kmax, vmax)
	inj := vItemsN("i", nInj, ascii, kmax, vmax)
	// the existing literal may separate items by any run of blanks
	sep := []string{" ", " \t "}[vndChoice("sep", 2)]
	oldText := vItemsText(old, sep)
	injText := vItemsText(inj, " ")
	pre := vndStringN("pre", 1) // arbitrary bytes around the field expression
	post := vndStringN("post", 1)
	expr := "F string `" + oldText + "`"
	contents := pre + expr + post
	start := len(pre) + 1 // token.Pos is offset+1
	area := textArea{Start: start, End: start + len(expr), CurrentTag: oldText, InjectTag: injText}
	got := string(injectTag([]byte(contents), area))
	want := pre + "F string `" + vItemsText(vMerge(old, inj), " ") + "`" + post
	vAssert(got == want, "C06 merge: injected keys carry the comment's value, other keys keep value and position, new keys appended, bytes outside the literal unchanged")
	vReach("end")
}

func H_C06_merge_0_1()  { vC06Merge(0, 1, true, 2, 3) }
func H_C06_merge_1_1()  { vC06Merge(1, 1, true, 2, 3) }
func H_C06_merge_1_2()  { vC06Merge(1, 2, true, 2, 2) }
func H_C06_merge_2_1()  { vC06Merge(2, 1, true, 2, 2) }
func H_C06_merge_2_2()  { vC06Merge(2, 2, true, 1, 2) }
func H_C06T_merge_2_2() { vC06Merge(2, 2, true, 2, 2) }
func H_C06_merge_0_2()  { vC06Merge(0, 2, true, 2, 2) }
func H_C06_merge_utf8() { vC06Merge(1, 1, false, 2, 4) }
func H_C06T_merge_3_2() { vC06Merge(3, 2, true, 2, 2) }
func H_C06T_merge_2_3() { vC06Merge(2, 3, true, 2, 2) }
func H_C06T_merge_3_3() { vC06Merge(3, 3, true, 1, 2) }

// tagFromComment: the text after "@tag " up to the end of the comment
func H_C06_comment() {
	before := vndString("before", 2)
	vAssume(vNoByte(before, '@'))
	vAssume(vNoByte(before, '\n'))
	inj := vndString("inj", 3)
	vAssume(vNoByte(inj, '\n'))
	switch vndChoice("shape", 4) {
	case 0:
		vAssert(tagFromComment("// "+before+"@tag "+inj) == inj, "C06 comment: text after '@tag ' is the injected tag")
	case 1:
		vAssert(tagFromComment("// "+before+inj) == "" || vNot(vNoByte(inj, '@')), "C06 comment: no '@tag ' marker, nothing injected")
	case 2:
		vAssert(tagFromComment("// "+before+"@tag") == "", "C06 comment: '@tag' without following text injects nothing")
	case 3:
		vAssert(tagFromComment("/* "+before+"@tag "+inj+" */") == inj+" */", "C06 comment: block comment text after the marker")
	}
	vReach("end")
}

// ---- file level ----

func vRunInjector(rel, src string, f *ast.File) (string, error) {
	vFSPut(rel, src)
	vParseResult(rel, f, nil)
	path := vFSPath(rel)
	areas, err := ParseFile(path)
	if err != nil {
		return "", err
	}
	if err := WriteFile(path, areas); err != nil {
		return "", err
	}
	out, ok := vFSGet(rel)
	if !ok {
		return "", errors.New("file vanished")
	}
	return out, nil
}

// two annotated fields with an un-annotated one between them, in two structs; offsets shift
func H_C06_file_two_areas() {
	o1 := vItemsN("a", 1, true, 2, 2)
	i1 := vItemsN("b", 1, true, 2, 2)
	o2 := vItemsN("c", 1, true, 1, 2)
	i2 := vItemsN("d", 2, true, 1, 2)
	pre := vSrcText("pre", 1)
	// arbitrary text before the declarations: kept inside a comment so the file still parses
	pretext := "// " + pre + "\n"
	structs := []vStructSrc{
		{name: "A", fields: []vField{
			{name: "X", typ: "string", hasTag: true, tag: vItemsText(o1, " "), comment: "// x @tag " + vItemsText(i1, " ")},
			{name: "Y", typ: "int", hasTag: true, tag: "json:\"y\""},
			{name: "Z", typ: "int", hasTag: true, tag: vItemsText(o2, "  "), comment: "// @tag " + vItemsText(i2, " ")},
		}},
		{name: "B", fields: []vField{
			{name: "P", typ: "bool"},
			{name: "Q", typ: "string", hasTag: true, tag: "json:\"q\"", comment: "// plain comment"},
		}},
	}
	src, f := vBuildSource(pretext, structs, "// end\n")
	got, err := vRunInjector("a.go", src, f)
	vAssert(err == nil, "C06 file: processing succeeds")
	want := vExpectedSource(pretext, structs, "// end\n", map[string]string{
		"A.X": vItemsText(vMerge(o1, i1), " "),
		"A.Z": vItemsText(vMerge(o2, i2), " "),
	})
	vAssert(got == want, "C06 file: both annotated fields merged, everything else byte-identical")
	vReach("end")
}

// non-ASCII text before and inside comments; the injected key overrides an existing one
func H_C06_file_unicode() {
	v := vTagVal("v", 3, false)
	k := vKey("k", 2)
	vAssume(k != "json")
	structs := []vStructSrc{{name: "A", fields: []vField{
		{name: "X", typ: "string", hasTag: true, tag: "json:\"x\" " + k + ":\"old\"", comment: "// 名称 @tag " + k + ":\"" + v + "\""},
	}}}
	src, f := vBuildSource("// 注释 é\n", structs, "")
	got, err := vRunInjector("u.go", src, f)
	vAssert(err == nil, "C06 file: processing succeeds")
	want := vExpectedSource("// 注释 é\n", structs, "", map[string]string{"A.X": "json:\"x\" " + k + ":\"" + v + "\""})
	vAssert(got == want, "C06 file: override in place with non-ASCII text around")
	vReach("end")
}

// a file without annotations is written back unchanged
func H_C06_file_plain() {
	c := vSrcText("c", 3)
	vAssume(vNoByte(c, '@'))
	structs := []vStructSrc{{name: "A", fields: []vField{
		{name: "X", typ: "string", hasTag: true, tag: "json:\"x\"", comment: "// " + c},
		{name: "Y", typ: "int"},
	}}}
	src, f := vBuildSource("", structs, "")
	got, err := vRunInjector("p.go", src, f)
	vAssert(err == nil, "C06 file: processing succeeds")
	vAssert(got == src, "C06 file: fields without an @tag comment are untouched")
	vReach("end")
}

// the same comment text on several fields of one file (and a key it overrides in each of them)
func H_C06_file_same_comment() {
	v := vTagVal("v", 2, true)
	k := vKey("k", 2)
	vAssume(k != "json")
	vAssume(k != "extra")
	comment := "// @tag " + k + ":\"" + v + "\" extra:\"e\""
	structs := []vStructSrc{
		{name: "A", fields: []vField{
			{name: "X", typ: "string", hasTag: true, tag: "json:\"x\" " + k + ":\"old\"", comment: comment},
			{name: "Y", typ: "int", hasTag: true, tag: k + ":\"keep\" json:\"y\"", comment: comment},
		}},
		{name: "B", fields: []vField{
			{name: "Z", typ: "bool", hasTag: true, tag: "json:\"z\"", comment: comment},
		}},
	}
	src, f := vBuildSource("", structs, "")
	got, err := vRunInjector("s.go", src, f)
	vAssert(err == nil, "C06 file: processing succeeds")
	want := vExpectedSource("", structs, "", map[string]string{
		"A.X": "json:\"x\" " + k + ":\"" + v + "\" extra:\"e\"",
		"A.Y": k + ":\"" + v + "\" json:\"y\" extra:\"e\"",
		"B.Z": "json:\"z\" " + k + ":\"" + v + "\" extra:\"e\"",
	})
	vAssert(got == want, "C06 file: identical comments on several fields are merged independently")
	vReach("end")
}

// an override that makes an earlier literal shorter, with annotated fields after it
func H_C06_file_shrink() {
	v := vTagVal("v", 1, true)
	structs := []vStructSrc{{name: "A", fields: []vField{
		{name: "X", typ: "string", hasTag: true, tag: "json:\"name,omitempty\"", comment: "// @tag json:\"" + v + "\""},
		{name: "Y", typ: "int", hasTag: true, tag: "json:\"y\"", comment: "// @tag valid:\"required\""},
		{name: "Z", typ: "int", hasTag: true, tag: "json:\"zzzzzzzz\" valid:\"old\"", comment: "// @tag valid:\"n\" json:\"z\""},
	}}}
	src, f := vBuildSource("", structs, "// tail\n")
	got, err := vRunInjector("k.go", src, f)
	vAssert(err == nil, "C06 file: processing succeeds")
	want := vExpectedSource("", structs, "// tail\n", map[string]string{
		"A.X": "json:\"" + v + "\"",
		"A.Y": "json:\"y\" valid:\"required\"",
		"A.Z": "json:\"z\" valid:\"n\"",
	})
	vAssert(got == want, "C06 file: literals that shrink do not disturb later fields")
	vReach("end")
}

// an injected key that is a suffix of an existing key with the same value
func H_C06_suffix_key() {
	v := vTagVal("v", 2, true)
	structs := []vStructSrc{{name: "A", fields: []vField{
		{name: "X", typ: "string", hasTag: true, tag: "curl:\"" + v + "\"", comment: "// @tag url:\"" + v + "\""},
		{name: "Y", typ: "string", hasTag: true, tag: "valid:\"" + v + "\" json:\"y\"", comment: "// @tag valid:\"" + v + "\""},
	}}}
	src, f := vBuildSource("", structs, "")
	got, err := vRunInjector("x.go", src, f)
	vAssert(err == nil, "C06 file: processing succeeds")
	want := vExpectedSource("", structs, "", map[string]string{
		"A.X": "curl:\"" + v + "\" url:\"" + v + "\"",
		"A.Y": "valid:\"" + v + "\" json:\"y\"",
	})
	vAssert(got == want, "C06 file: keys are compared whole, an already present value is kept once")
	vReach("end")
}

// layouts other than gofmt's, and a doc comment that mentions @tag: only the tag literals of fields with
// a trailing @tag comment change
func H_C06_file_layouts() {
	vSetLayout(vndChoice("layout", vNLayouts))
	defer vSetLayout(0)
	v := vTagVal("v", 2, true)
	structs := []vStructSrc{{name: "A", fields: []vField{
		{name: "X", typ: "string", hasTag: true, tag: "json:\"x\"", doc: "//  doc @tag gorm:\"x\"", comment: "// @tag valid:\"" + v + "\""},
		{name: "LongerName", typ: "int", hasTag: true, tag: "json:\"n\"   yaml:\"n\"", doc: "// @tag valid:\"required\""},
		{name: "Z", typ: "[]byte", hasTag: true, tag: "a:\"1\"  b:\"2\"", comment: "//   z  @tag b:\"" + v + "\""},
	}}}
	pre, post := "import (\"fmt\")\nvar   _ = fmt.Sprint( 1,2 )\n", "func F( ) { }\n"
	src, f := vBuildSource(pre, structs, post)
	got, err := vRunInjector("y.go", src, f)
	vAssert(err == nil, "C06 layouts: processing succeeds")
	want := vExpectedSource(pre, structs, post, map[string]string{
		"A.X": "json:\"x\" valid:\"" + v + "\"",
		"A.Z": "a:\"1\" b:\"" + v + "\"",
	})
	vAssert(got == want, "C06 layouts: every byte outside the annotated fields' tag literals is unchanged")
	vReach("end")
}

// unexported fields and byte-identical fields: the field that carries the comment gets the tag, at its own place
func H_C06_file_unexported_and_identical() {
	v := vTagVal("v", 2, true)
	structs := []vStructSrc{
		{name: "A", fields: []vField{
			{name: "ID", typ: "int64", hasTag: true, tag: "json:\"id\""},
			{name: "age", typ: "int32", hasTag: true, tag: "json:\"age\"", comment: "// @tag valid:\"" + v + "\""},
			{name: "Name", typ: "string", hasTag: true, tag: "json:\"name\""},
		}},
		{name: "B", fields: []vField{
			{name: "ID", typ: "int64", hasTag: true, tag: "json:\"id\"", comment: "// @tag valid:\"required\""},
			{name: "Name", typ: "string", hasTag: true, tag: "json:\"name\"", comment: "// @tag valid:\"" + v + "\""},
			{name: "sizeCache", typ: "int32"},
		}},
	}
	src, f := vBuildSource("", structs, "")
	got, err := vRunInjector("i.go", src, f)
	vAssert(err == nil, "C06 unexported / identical fields: processing succeeds")
	want := vExpectedSource("", structs, "", map[string]string{
		"A.age":  "json:\"age\" valid:\"" + v + "\"",
		"B.ID":   "json:\"id\" valid:\"required\"",
		"B.Name": "json:\"name\" valid:\"" + v + "\"",
	})
	vAssert(got == want, "C06 unexported / identical fields: each annotated field is merged at its own position")
	vReach("end")
}

// ---- round 4 ----

// key names as they occur in real files (the symbolic keys above are 1..2 bytes of \w): the keys protoc-gen-go
// itself writes, the usual library keys, keys that are prefixes / suffixes of each other, keys with digits,
// underscores and upper case; every ordered pair (existing key, injected key) with symbolic values
var vC06Keys = []string{"protobuf", "json", "protobuf_key", "protobuf_val", "protobuf_oneof", "valid", "xml", "yaml", "bson", "gorm", "form",
	"binding", "validate", "db", "mapstructure", "json2", "JSON", "_", "x_y", "protobuf2", "key", "val", "oneof", "tag", "inject", "go", "type", "string"}

func vC06RealKeys(lo, hi int) {
	i := lo + vndChoice("old", hi-lo)
	j := vndChoice("inj", len(vC06Keys))
	old := []vItem{{vC06Keys[i], vTagVal("ov0", 2, true)}, {"zzz", "keep"}}
	inj := []vItem{{vC06Keys[j], vTagVal("iv0", 2, true)}}
	oldText := vItemsText(old, " ")
	injText := vItemsText(inj, " ")
	expr := "F string `" + oldText + "`"
	area := textArea{Start: 1, End: 1 + len(expr), CurrentTag: oldText, InjectTag: injText}
	got := string(injectTag([]byte(expr+"\n"), area))
	want := "F string `" + vItemsText(vMerge(old, inj), " ") + "`\n"
	vAssert(got == want, "C06 merge with real key names: the injected key carries the comment's value whatever it is called")
	vReach("end")
}

func H_C06_real_keys_00() { vC06RealKeys(0, 2) }
func H_C06_real_keys_01() { vC06RealKeys(2, 4) }
func H_C06_real_keys_02() { vC06RealKeys(4, 6) }
func H_C06_real_keys_03() { vC06RealKeys(6, 8) }
func H_C06_real_keys_04() { vC06RealKeys(8, 10) }
func H_C06_real_keys_05() { vC06RealKeys(10, 12) }
func H_C06_real_keys_06() { vC06RealKeys(12, 14) }
func H_C06_real_keys_07() { vC06RealKeys(14, 16) }
func H_C06_real_keys_08() { vC06RealKeys(16, 18) }
func H_C06_real_keys_09() { vC06RealKeys(18, 20) }
func H_C06_real_keys_10() { vC06RealKeys(20, 22) }
func H_C06_real_keys_11() { vC06RealKeys(22, 24) }
func H_C06_real_keys_12() { vC06RealKeys(24, 26) }
func H_C06_real_keys_13() { vC06RealKeys(26, 28) }

