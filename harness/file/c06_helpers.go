//go:build verif

package file

// C06/C07/C19 share this file's source model: a Go source text and the
// *ast.File go/parser would produce for it are built together from pieces, so
// every position is consistent by construction (assumption A-parser: go/parser
// reports exactly these positions, tag literals and trailing comments; the
// native replay runs the real parser on the same bytes).

func vNoByte(s string, c byte) bool {
	ok := true
	for i := 0; i < len(s); i++ {
		ok = vAnd(ok, s[i] != c)
	}
	return ok
}

// vKey: a tag key, \w bytes
func vKey(name string, max int) string {
	k := vndString(name, max)
	vAssume(len(k) > 0)
	for i := 0; i < len(k); i++ {
		c := k[i]
		vAssume(vOr(vOr(vAnd(c >= 'a', c <= 'z'), vAnd(c >= 'A', c <= 'Z')), vOr(vAnd(c >= '0', c <= '9'), c == '_')))
	}
	return k
}

// vVal: a tag value: non-empty, no double quote, no backquote, no newline; anything else incl. '$', '\', space, non-ASCII
func vTagVal(name string, max int, ascii bool) string {
	v := vndString(name, max)
	vAssume(len(v) > 0)
	vAssume(vNoByte(v, '"'))
	vAssume(vNoByte(v, '`'))
	vAssume(vNoByte(v, '\n'))
	vAssume(vNoByte(v, '\r'))
	vAssume(vNoByte(v, 0)) // go/scanner rejects NUL
	if ascii {
		for i := 0; i < len(v); i++ {
			vAssume(v[i] < 0x80)
		}
	} else {
		vAssume(vValidUTF8(v))
		vAssume(vNoByte(v, '$')) // '$' is covered by the ASCII variant (Go's template names accept unicode letters)
	}
	return v
}

// vSrcText: bytes that may appear inside a // comment of a Go file (what go/scanner accepts)
func vSrcText(name string, max int) string {
	c := vndString(name, max)
	vAssume(vValidUTF8(c))
	vAssume(vNoByte(c, 0))
	vAssume(vNoByte(c, '\n'))
	vAssume(vNoByte(c, '\r'))
	return c
}

type vItem struct{ k, v string }

func vItemsText(items []vItem, sep string) string {
	s := ""
	for i, it := range items {
		if i > 0 {
			s += sep
		}
		s += it.k + ":\"" + it.v + "\""
	}
	return s
}

// vMerge: the statement's merge rule. Old keys keep their position; a mentioned key takes the
// injected value; new keys follow in the order of the comment; no key twice.
func vMerge(old, inj []vItem) []vItem {
	var out []vItem
	used := make([]bool, len(inj))
	for _, o := range old {
		it := o
		for j := range inj {
			if !used[j] && inj[j].k == o.k {
				it = inj[j]
				used[j] = true
				break
			}
		}
		out = append(out, it)
	}
	for j := range inj {
		if !used[j] {
			out = append(out, inj[j])
		}
	}
	return out
}

func vDistinctKeys(items []vItem) {
	for i := range items {
		for j := 0; j < i; j++ {
			vAssume(items[i].k != items[j].k)
		}
	}
}

func vItems(prefix string, n int, ascii bool) []vItem { return vItemsN(prefix, n, ascii, 2, 2) }

func vItemsN(prefix string, n int, ascii bool, kmax, vmax int) []vItem {
	var out []vItem
	for i := 0; i < n; i++ {
		out = append(out, vItem{vKey(prefix+"k"+vDigit(i), kmax), vTagVal(prefix+"v"+vDigit(i), vmax, ascii)})
	}
	vDistinctKeys(out)
	return out
}

func vDigit(i int) string { return string([]byte{byte('0' + i)}) }

var vC06Keys = []string{"protobuf", "json", "protobuf_key", "protobuf_val", "protobuf_oneof", "valid", "xml", "yaml", "bson", "gorm", "form",
	"binding", "validate", "db", "mapstructure", "json2", "JSON", "_", "x_y", "protobuf2", "key", "val", "oneof", "tag", "inject", "go", "type", "string"}
