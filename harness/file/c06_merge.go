//go:build verif

package file

// white-box harnesses of C06: they name the injector's internal functions and types (newTagItems, override,
// format, injectTag, textArea, tagFromComment). When a change renames or removes one of these the file stops
// compiling; the driver then leaves it out and runs the black-box harnesses of c06_files.go alone.

// ---- merge level: newTagItems / override / format / injectTag ----

func vC06Merge(nOld, nInj int, ascii bool, kmax, vmax int) {
	old := vItemsN("o", nOld, ascii, kmax, vmax)
	inj := vItemsN("i", nInj, ascii, kmax, vmax)
	// the existing literal may separate items by any run of blanks
	sep := []string{" ", " \t "}[vndChoice("sep", 2)]
	oldText := vItemsText(old, sep)
	injText := vItemsText(inj, " ")
	pre := vndStringN("pre", 1) // arbitrary bytes around the field expression
	post := vndStringN("post", 1)
	expr := "F string `" + oldText + "`"
	contents := pre + expr + post
	start := len(pre) + 1 // token.Pos is offset+1
	area := textArea{Start: start, End: start + len(expr), CurrentTag: oldText, InjectTag: injText}
	got := string(injectTag([]byte(contents), area))
	want := pre + "F string `" + vItemsText(vMerge(old, inj), " ") + "`" + post
	vAssert(got == want, "C06 merge: injected keys carry the comment's value, other keys keep value and position, new keys appended, bytes outside the literal unchanged")
	vReach("end")
}

func H_C06_merge_0_1()  { vC06Merge(0, 1, true, 2, 3) }
func H_C06_merge_1_1()  { vC06Merge(1, 1, true, 2, 3) }
func H_C06_merge_1_2()  { vC06Merge(1, 2, true, 2, 2) }
func H_C06_merge_2_1()  { vC06Merge(2, 1, true, 2, 2) }
func H_C06_merge_2_2()  { vC06Merge(2, 2, true, 1, 2) }
func H_C06T_merge_2_2() { vC06Merge(2, 2, true, 2, 2) }
func H_C06_merge_0_2()  { vC06Merge(0, 2, true, 2, 2) }
func H_C06_merge_utf8() { vC06Merge(1, 1, false, 2, 4) }
func H_C06T_merge_3_2() { vC06Merge(3, 2, true, 2, 2) }
func H_C06T_merge_2_3() { vC06Merge(2, 3, true, 2, 2) }
func H_C06T_merge_3_3() { vC06Merge(3, 3, true, 1, 2) }

// tagFromComment: the text after "@tag " up to the end of the comment
func H_C06_comment() {
	before := vndString("before", 2)
	vAssume(vNoByte(before, '@'))
	vAssume(vNoByte(before, '\n'))
	inj := vndString("inj", 3)
	vAssume(vNoByte(inj, '\n'))
	switch vndChoice("shape", 4) {
	case 0:
		vAssert(tagFromComment("// "+before+"@tag "+inj) == inj, "C06 comment: text after '@tag ' is the injected tag")
	case 1:
		vAssert(tagFromComment("// "+before+inj) == "" || vNot(vNoByte(inj, '@')), "C06 comment: no '@tag ' marker, nothing injected")
	case 2:
		vAssert(tagFromComment("// "+before+"@tag") == "", "C06 comment: '@tag' without following text injects nothing")
	case 3:
		vAssert(tagFromComment("/* "+before+"@tag "+inj+" */") == inj+" */", "C06 comment: block comment text after the marker")
	}
	vReach("end")
}

// ---- file level ----
func vC06RealKeys(lo, hi int) {
	i := lo + vndChoice("old", hi-lo)
	j := vndChoice("inj", len(vC06Keys))
	old := []vItem{{vC06Keys[i], vTagVal("ov0", 2, true)}, {"zzz", "keep"}}
	inj := []vItem{{vC06Keys[j], vTagVal("iv0", 2, true)}}
	oldText := vItemsText(old, " ")
	injText := vItemsText(inj, " ")
	expr := "F string `" + oldText + "`"
	area := textArea{Start: 1, End: 1 + len(expr), CurrentTag: oldText, InjectTag: injText}
	got := string(injectTag([]byte(expr+"\n"), area))
	want := "F string `" + vItemsText(vMerge(old, inj), " ") + "`\n"
	vAssert(got == want, "C06 merge with real key names: the injected key carries the comment's value whatever it is called")
	vReach("end")
}

func H_C06_real_keys_00() { vC06RealKeys(0, 2) }
func H_C06_real_keys_01() { vC06RealKeys(2, 4) }
func H_C06_real_keys_02() { vC06RealKeys(4, 6) }
func H_C06_real_keys_03() { vC06RealKeys(6, 8) }
func H_C06_real_keys_04() { vC06RealKeys(8, 10) }
func H_C06_real_keys_05() { vC06RealKeys(10, 12) }
func H_C06_real_keys_06() { vC06RealKeys(12, 14) }
func H_C06_real_keys_07() { vC06RealKeys(14, 16) }
func H_C06_real_keys_08() { vC06RealKeys(16, 18) }
func H_C06_real_keys_09() { vC06RealKeys(18, 20) }
func H_C06_real_keys_10() { vC06RealKeys(20, 22) }
func H_C06_real_keys_11() { vC06RealKeys(22, 24) }
func H_C06_real_keys_12() { vC06RealKeys(24, 26) }
func H_C06_real_keys_13() { vC06RealKeys(26, 28) }
