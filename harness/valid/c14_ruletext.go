//go:build verif

package valid

import "strings"

// C14: rule text through builder -> RM.Set/Get -> ValidNamesSplit -> ParseValidNameKV.

// vHasCJK: independent test "s (valid UTF-8) contains a code point in U+4E00..U+9FA5".
func vHasCJK(s string) bool {
	has := false
	for i := 0; i+2 < len(s); i++ {
		b0, b1, b2 := s[i], s[i+1], s[i+2]
		r := int(b0&0x0F)<<12 | int(b1&0x3F)<<6 | int(b2&0x3F)
		has = vOr(has, vAnd(vAnd(b0 >= 0xE0, b0 <= 0xEF), vAnd(r >= 0x4E00, r <= 0x9FA5)))
	}
	return has
}

// vNoByte: s does not contain byte c (no forks).
func vNoByte(s string, c byte) bool {
	ok := true
	for i := 0; i < len(s); i++ {
		ok = vAnd(ok, s[i] != c)
	}
	return ok
}

func vSplitNoLoss(sep byte, max int) {
	s := vndString("s", max)
	var parts []string
	if sep == ',' {
		parts = ValidNamesSplit(s)
	} else {
		parts = ValidNamesSplit(s, sep)
	}
	joined := strings.Join(parts, string([]byte{sep}))
	vAssert(vOr(joined == s, joined+string([]byte{sep}) == s), "C14 split: pieces joined by the separator give back the text (up to one trailing separator)")
	vReach("end")
}

func H_C14_noloss_comma() { vSplitNoLoss(',', 5) }
func H_C14_noloss_slash() { vSplitNoLoss('/', 5) }

// Quoted commas never split: 'q' is one token whatever q contains (no quote inside).
func H_C14_quoted_comma() {
	pre := vndString("pre", 2)
	q := vndString("q", 3)
	post := vndString("post", 2)
	vAssume(vNoByte(pre, '\''))
	vAssume(vNoByte(pre, ','))
	vAssume(vNoByte(q, '\''))
	vAssume(vNoByte(post, '\''))
	vAssume(vNoByte(post, ','))
	s := pre + "'" + q + "'" + post
	parts := ValidNamesSplit(s)
	vAssert(len(parts) == 1, "C14 split: commas inside single quotes never split a rule")
	if len(parts) == 1 {
		vAssert(parts[0] == s, "C14 split: quoted token returned verbatim")
	}
	vReach("end")
}

var vC14Keys = []string{Required, VTo, VIn, VInclude, VRe, VPhone, VDate, VInts, VPrefix, Either}

// expected value text after GenValidKV's documented conventions
func vC14Value(key, val string) string {
	if val == "" {
		return ""
	}
	switch key {
	case VIn, VInclude:
		return "(" + val + ")"
	case VRe:
		return "'" + val + "'"
	}
	return val
}

func vC14Label(msg string) string {
	if vHasCJK(msg) {
		return ExplainZh + " " + msg
	}
	return ExplainEn + " " + msg
}

// one rule: key x symbolic value x symbolic message
func vC14One(withVal, withMsg bool, maxVal, maxMsg int) {
	key := vC14Keys[vndChoice("key", len(vC14Keys))]
	val, msg := "", ""
	if withVal {
		val = vndString("val", maxVal)
		vAssume(len(val) > 0)
		// documented well-formedness: no comma / quote / '|' in a bare value, no leading '='
		vAssume(vNoByte(val, ','))
		vAssume(vNoByte(val, '\''))
		vAssume(vNoByte(val, '|'))
		vAssume(vNoByte(val, '='))
	}
	var text string
	if withMsg {
		msg = vndString("msg", maxMsg)
		vAssume(len(msg) > 0)
		vAssume(vValidUTF8(msg))
		vAssume(vNoByte(msg, ','))
		vAssume(vNoByte(msg, '\''))
		vAssume(vNoByte(msg, '|'))
		text = GenValidKV(key, val, msg)
	} else {
		text = GenValidKV(key, val)
	}
	rm := NewRule().Set("F", text)
	parts := ValidNamesSplit(rm.Get("F"))
	vAssert(len(parts) == 1, "C14 roundtrip: one rule in, one rule out")
	if len(parts) != 1 {
		return
	}
	k, v, m := ParseValidNameKV(parts[0])
	vAssert(k == key, "C14 roundtrip: key recovered")
	vAssert(v == vC14Value(key, val), "C14 roundtrip: value recovered")
	if withMsg {
		vAssert(m == vC14Label(msg), "C14 roundtrip: message recovered with its label")
	} else {
		vAssert(m == "", "C14 roundtrip: no message")
	}
	vReach("end")
}

func H_C14_rt_key()         { vC14One(false, false, 0, 0) }
func H_C14_rt_key_val()     { vC14One(true, false, 3, 0) }
func H_C14_rt_key_msg()     { vC14One(false, true, 0, 4) }
func H_C14_rt_key_val_msg() { vC14One(true, true, 2, 4) }

// two rules accumulated with RM.Set (two calls and one call), order and count preserved
func H_C14_rt_two() {
	v1 := vndString("v1", 2)
	v2 := vndString("v2", 2)
	for _, v := range []string{v1, v2} {
		vAssume(len(v) > 0)
		vAssume(vNoByte(v, ','))
		vAssume(vNoByte(v, '\''))
		vAssume(vNoByte(v, '|'))
		vAssume(vNoByte(v, '='))
	}
	a := GenValidKV(VTo, v1)
	b := GenValidKV(VRe, v2)
	var rm RM
	if vndBool("twoCalls") {
		rm = NewRule().Set("F", a).Set("F", b)
	} else {
		rm = NewRule().Set("F", a, b)
	}
	parts := ValidNamesSplit(rm.Get("F"))
	vAssert(len(parts) == 2, "C14 roundtrip: two rules in, two rules out")
	if len(parts) != 2 {
		return
	}
	k1, x1, _ := ParseValidNameKV(parts[0])
	k2, x2, _ := ParseValidNameKV(parts[1])
	vAssert(vAnd(k1 == VTo, x1 == v1), "C14 roundtrip: first rule recovered in order")
	vAssert(vAnd(k2 == VRe, x2 == "'"+v2+"'"), "C14 roundtrip: second rule recovered in order")
	vReach("end")
}

// thorough tier: longer texts
func H_C14T_noloss_comma()   { vSplitNoLoss(',', 7) }
func H_C14T_noloss_slash()   { vSplitNoLoss('/', 7) }
func H_C14T_rt_key_val_msg() { vC14One(true, true, 3, 6) }

// several quoted segments: a comma inside any of them never splits
func H_C14_two_quoted() {
	q1 := vndString("q1", 2)
	q2 := vndString("q2", 2)
	mid := vndString("mid", 1)
	vAssume(vNoByte(q1, '\''))
	vAssume(vNoByte(q2, '\''))
	vAssume(vNoByte(mid, '\''))
	vAssume(vNoByte(mid, ','))
	s := "re='" + q1 + "'|a" + mid + "'" + q2 + "' z"
	parts := ValidNamesSplit(s)
	vAssert(len(parts) == 1 && parts[0] == s, "C14 split: commas inside any single-quoted segment never split a rule")
	two := ValidNamesSplit(s + ",to=1~2|'" + q2 + "'")
	vAssert(len(two) == 2 && two[0] == s && two[1] == "to=1~2|'"+q2+"'", "C14 split: a comma between quoted segments splits exactly there")
	vReach("end")
}

// results of earlier splits are not disturbed by later ones
func H_C14_sequence() {
	vPoolMode([]string{"lifo", "adversarial"}[vndChoice("pool", 2)])
	q := vndString("q", 2)
	vAssume(vNoByte(q, '\''))
	vAssume(vNoByte(q, '|')) // '|' is the message delimiter
	a := ValidNamesSplit("in=(a/'b," + q + "'/d)")
	b := ValidNamesSplit("re='x," + q + "y',required")
	c := ValidNamesSplit("'zz',p")
	vAssert(len(a) == 1 && a[0] == "in=(a/'b,"+q+"'/d)", "C14 sequence: first result intact")
	vAssert(len(b) == 2 && b[0] == "re='x,"+q+"y'" && b[1] == "required", "C14 sequence: second result intact")
	vAssert(len(c) == 2 && c[0] == "'zz'" && c[1] == "p", "C14 sequence: third result")
	k, v, _ := ParseValidNameKV(a[0])
	vAssert(k == "in" && v == "(a/'b,"+q+"'/d)", "C14 sequence: parsed from the first result")
	vReach("end")
}

// a single rule whose bare value contains apostrophes (it's, O'Brien, '), with and without a message: one
// rule in, one rule out, value and message recovered
func H_C14_rt_apostrophe() {
	key := []string{VPrefix, VSuffix, VEq, VTo}[vndChoice("key", 4)]
	val := vndString("val", 3)
	vAssume(len(val) > 0)
	vAssume(vNot(vNoByte(val, '\'')))
	vAssume(vNoByte(val, ','))
	vAssume(vNoByte(val, '|'))
	vAssume(vNoByte(val, '='))
	msg := vndString("msg", 2)
	vAssume(vValidUTF8(msg))
	vAssume(vNoByte(msg, ','))
	vAssume(vNoByte(msg, '\''))
	vAssume(vNoByte(msg, '|'))
	text := GenValidKV(key, val) // an empty message means: none given
	if msg != "" {
		text = GenValidKV(key, val, msg)
	}
	parts := ValidNamesSplit(NewRule().Set("F", text).Get("F"))
	vAssert(len(parts) == 1, "C14 apostrophe: one rule in, one rule out")
	if len(parts) != 1 {
		return
	}
	k, v, m := ParseValidNameKV(parts[0])
	vAssert(k == key, "C14 apostrophe: key recovered")
	vAssert(v == val, "C14 apostrophe: value recovered")
	if msg == "" {
		vAssert(m == "", "C14 apostrophe: no message")
	} else {
		vAssert(m == vC14Label(msg), "C14 apostrophe: message recovered with its label")
	}
	vReach("end")
}

// RM.Set accumulates: every rule of every call is kept, in order, also when a later call repeats a rule,
// or gives a rule whose text occurs inside an earlier one (int after ints, le=10 after le=100, re after
// required), and a value that starts with its own key survives the builder
func H_C14_set_accumulates() {
	lists := [][2][]string{
		{{"required"}, {"required", "int"}},
		{{"ints", "le=100"}, {"int", "le=10"}},
		{{"required"}, {"re='^a'"}},
		{{"year2month", "ge=2|min 2 and int"}, {"year", "int"}},
		{{"to=1~5", "in=(a/b)"}, {"to=1~10", "in=(a/b)"}},
		{{"either=1"}, {"either=1", "botheq=1"}},
	}
	pick := lists[vndChoice("lists", len(lists))]
	var rm RM
	switch vndChoice("how", 3) {
	case 0:
		rm = NewRule().Set("F", pick[0]...).Set("F", pick[1]...)
	case 1:
		rm = NewRule().Set("F,G", pick[0]...).Set("F", pick[1]...)
	case 2:
		rm = NewRule().Set("F", pick[0]...)
		for _, r := range pick[1] {
			rm.Set("G,F", r)
		}
	}
	want := append(append([]string{}, pick[0]...), pick[1]...)
	parts := ValidNamesSplit(rm.Get("F"))
	vAssert(len(parts) == len(want), "C14 Set: the same number of rules as were set")
	if len(parts) == len(want) {
		for i := range parts {
			vAssert(parts[i] == want[i], "C14 Set: rules recovered in order")
		}
	}
	vReach("end")
}

func H_C14_value_starting_with_key() {
	key := []string{VPrefix, VSuffix, VIn, VInclude, VEq, BothEq}[vndChoice("key", 6)]
	tail := vndString("tail", 2)
	vAssume(vNoByte(tail, ','))
	vAssume(vNoByte(tail, '\''))
	vAssume(vNoByte(tail, '|'))
	vAssume(vNoByte(tail, '='))
	vAssume(vNoByte(tail, '('))
	vAssume(vNoByte(tail, ')'))
	val := key + "=" + tail
	if key == BothEq { // documented convenience: the id may be given with or without the key
		vReach("botheq")
		return
	}
	text := GenValidKV(key, val, "m")
	parts := ValidNamesSplit(NewRule().Set("F", text).Get("F"))
	vAssert(len(parts) == 1, "C14 value starting with its key: one rule in, one rule out")
	if len(parts) != 1 {
		return
	}
	k, v, m := ParseValidNameKV(parts[0])
	vAssert(k == key && v == vC14Value(key, val) && m == vC14Label("m"), "C14 value starting with its key: key, value and message recovered")
	vReach("end")
}

// ---- round 4 ----

// the label follows the message alone: a value (or option list) with Han characters and a message without,
// and the other way round; value = one three-byte character (every well-formed one), message of 1..3 bytes
func H_C14_rt_label_follows_message() {
	key := vC14Keys[vndChoice("key", len(vC14Keys))]
	val := vndStringN("val", 3)
	vAssume(vValidUTF8(val))
	vAssume(val[0] >= 0xE0)
	msg := vndString("msg", 3)
	vAssume(len(msg) > 0)
	vAssume(vValidUTF8(msg))
	vAssume(vNoByte(msg, ','))
	vAssume(vNoByte(msg, '\''))
	vAssume(vNoByte(msg, '|'))
	text := GenValidKV(key, val, msg)
	parts := ValidNamesSplit(NewRule().Set("F", text).Get("F"))
	vAssert(len(parts) == 1, "C14 label: one rule in, one rule out")
	if len(parts) != 1 {
		return
	}
	k, v, m := ParseValidNameKV(parts[0])
	vAssert(k == key && v == vC14Value(key, val), "C14 label: key and value recovered")
	vAssert(m == vC14Label(msg), "C14 label: the message gains the label its own characters call for, whatever the value holds")
	vReach("end")
}

// the same text split with two separators in either order (the rule splitter uses ',', the option
// splitter of in / include uses '/'): each call's pieces belong to its own separator, and a third call
// repeats the first
func vC14TwoSeps(first int, lead bool, maxPost int) {
	t := "'" + vndString("q", 2) + "'" + vndString("post", maxPost)
	if lead {
		t = vndString("pre", 1) + t
	}
	seps := []byte{',', '/'}
	split := func(i int) []string {
		if seps[i] == ',' {
			return ValidNamesSplit(t)
		}
		return ValidNamesSplit(t, seps[i])
	}
	noloss := func(parts []string, sep byte, tag string) {
		joined := strings.Join(parts, string([]byte{sep}))
		vAssert(vOr(joined == t, joined+string([]byte{sep}) == t), "C14 split "+tag+": pieces joined by this call's separator give back the text")
	}
	p1 := append([]string(nil), split(first)...)
	noloss(p1, seps[first], "first call")
	p2 := split(1 - first)
	noloss(p2, seps[1-first], "second call, other separator, same text")
	p3 := split(first)
	vAssert(len(p3) == len(p1), "C14 split: a repeated call gives the same number of pieces")
	if len(p3) == len(p1) {
		for i := range p3 {
			vAssert(p3[i] == p1[i], "C14 split: a repeated call gives the same pieces")
		}
	}
	vReach("end")
}

func H_C14_split_two_separators_comma_first()   { vC14TwoSeps(0, false, 2) }
func H_C14_split_two_separators_slash_first()   { vC14TwoSeps(1, false, 2) }
func H_C14_split_two_separators_comma_first_l() { vC14TwoSeps(0, true, 2) }
func H_C14_split_two_separators_slash_first_l() { vC14TwoSeps(1, true, 2) }
func H_C14T_split_two_separators_comma_first()  { vC14TwoSeps(0, true, 3) }
func H_C14T_split_two_separators_slash_first()  { vC14TwoSeps(1, true, 3) }

// messages that themselves contain the words the labels are made of ("explain:", "说明:") are messages like
// any other: recovered whole, with their label in front
func H_C14_rt_message_with_label_words() {
	word := []string{"explain:", "说明:", "explain", "说明", "Explain:", "explain: explain:"}[vndChoice("word", 6)]
	pre, post := vndString("pre", 1), vndString("post", 1)
	msg := pre + word + post
	vAssume(vValidUTF8(msg))
	vAssume(vNoByte(pre+post, ','))
	vAssume(vNoByte(pre+post, '\''))
	vAssume(vNoByte(pre+post, '|'))
	key := vC14Keys[vndChoice("key", len(vC14Keys))]
	val := ""
	if vndBool("withVal") {
		val = "1~2"
	}
	text := GenValidKV(key, val, msg)
	parts := ValidNamesSplit(NewRule().Set("F", text).Get("F"))
	vAssert(len(parts) == 1, "C14 roundtrip (label words in the message): one rule in, one rule out")
	if len(parts) == 1 {
		k, v, m := ParseValidNameKV(parts[0])
		vAssert(k == key, "C14 roundtrip (label words in the message): key recovered")
		vAssert(v == vC14Value(key, val), "C14 roundtrip (label words in the message): value recovered")
		vAssert(m == vC14Label(msg), "C14 roundtrip (label words in the message): message recovered whole, with its label")
	}
	vReach("end")
}

// a message may itself contain the message delimiter: everything after the first '|' of the rule is the message
func H_C14_rt_message_with_bar() {
	a, b := vndString("a", 2), vndString("b", 2)
	msg := a + "|" + b
	if vndBool("twice") {
		msg += "|"
	}
	vAssume(len(a) > 0)
	vAssume(vValidUTF8(a))
	vAssume(vValidUTF8(b))
	for _, c := range []byte{',', '\'', '|'} {
		vAssume(vNoByte(a+b, c))
	}
	key := vC14Keys[vndChoice("key", len(vC14Keys))]
	val := ""
	if vndBool("withVal") {
		val = "1~2"
	}
	text := GenValidKV(key, val, msg)
	parts := ValidNamesSplit(NewRule().Set("F", text).Get("F"))
	vAssert(len(parts) == 1, "C14 roundtrip (message with '|'): one rule in, one rule out")
	if len(parts) == 1 {
		k, v, m := ParseValidNameKV(parts[0])
		vAssert(k == key, "C14 roundtrip (message with '|'): key recovered")
		vAssert(v == vC14Value(key, val), "C14 roundtrip (message with '|'): value recovered")
		vAssert(m == vC14Label(msg), "C14 roundtrip (message with '|'): message recovered whole, with its label")
	}
	vReach("end")
}
