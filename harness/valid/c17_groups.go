//go:build verif

package valid

import "strings"

// C17: either / botheq groups are judged per object: an either group is
// violated exactly when every member is empty, a botheq group exactly when
// the members are not all equal, a single-member group is a rule-writing
// error; one clause per violated group listing all members.

type vG2 struct {
	A string `valid:"either=1"`
	B string `valid:"either=1"`
	Z string // keeps a nested object non-zero when the group is all-empty
}

type vG3 struct {
	A int     `valid:"either=x"`
	B bool    `valid:"either=x"`
	C float64 `valid:"either=x"`
}

type vGE struct {
	A int `valid:"botheq=1"`
	B int `valid:"botheq=1"`
	C int `valid:"botheq=1"`
}

type vGS struct {
	A string `valid:"botheq=p"`
	B string `valid:"botheq=p"`
}

type vGTwo struct {
	A string `valid:"either=1"`
	B string `valid:"either=1,botheq=2"`
	C string `valid:"botheq=2"`
}

type vGSingle struct {
	A string `valid:"either=1"`
	B int    `valid:"botheq=2"`
}

type vGHolder struct {
	X vG2   `valid:"exist"`
	Y vG2   `valid:"required"`
	L []vG2 `valid:"exist"`
}

type vGMapHolder struct {
	M map[string]*vGS `valid:"exist"`
}

func vRunGroups(tag string, src interface{}, unordered bool) {
	vUNoFail = true
	known := vGlobalRules()
	err := Struct(src)
	r := vNewRef()
	r.global = known
	r.top(src)
	if unordered {
		vCheckUnordered(tag, err, r)
	} else {
		vCheckAgainstRef(tag, err, r)
	}
	vReach("end")
}

func H_C17_either2() { vRunGroups("C17 either/2 strings", &vG2{A: vStr("A"), B: vStr("B")}, false) }
func H_C17_either3() {
	vRunGroups("C17 either/int,bool,float64", &vG3{A: vndInt("A"), B: vndBool("B"), C: vndFloat64("C")}, false)
}
func H_C17_botheq3() {
	vRunGroups("C17 botheq/3 ints", &vGE{A: vndInt("A"), B: vndInt("B"), C: vndInt("C")}, false)
}
func H_C17_botheq_str() { vRunGroups("C17 botheq/2 strings", &vGS{A: vStr("A"), B: vStr("B")}, false) }
func H_C17_two_groups() {
	vRunGroups("C17 two groups", &vGTwo{A: vStr("A"), B: vStr("B"), C: vStr("C")}, false)
}
func H_C17_single() {
	vRunGroups("C17 single-member groups", &vGSingle{A: vStr("A"), B: vndInt("B")}, false)
}

// the same struct repeated: slice elements, nested fields, map values -- judged independently
func H_C17_slice_elems() {
	vRunGroups("C17 top-level []T", []vG2{{A: vStr("A0"), B: vStr("B0")}, {A: vStr("A1"), B: vStr("B1")}}, true)
}
func H_C17_nested_fields() {
	vRunGroups("C17 nested X,Y", &vGHolder{X: vG2{A: vStr("XA"), B: "b", Z: "z"}, Y: vG2{A: "", B: vStr("YB"), Z: "z"}}, true)
}
func H_C17_nested_slice() {
	vRunGroups("C17 nested []T", &vGHolder{Y: vG2{A: "a"}, L: []vG2{{A: vStr("A0"), B: "", Z: "z"}, {A: "", B: vStr("B1"), Z: "z"}}}, true)
}
func H_C17_map_values() {
	vRunGroups("C17 map values", &vGMapHolder{M: map[string]*vGS{"p": {A: vStr("pA"), B: "x"}, "q": {A: "y", B: vStr("qB")}}}, true)
}

// Map and Url inputs
func H_C17_map() {
	rm := NewRule().Set("a", "either=1").Set("b", "either=1").Set("c", "botheq=2").Set("d", "botheq=2")
	switch vndChoice("kind", 3) {
	case 0:
		m := map[string]string{"a": vStr("a"), "b": vStr("b"), "c": vStr("c"), "d": vStr("d")}
		vULog = nil
		err := Map(m, rm)
		r := vNewRef()
		vRefMap(r, m, rm)
		vCheckUnordered("C17 Map(map[string]string)", err, r)
	case 1:
		m := map[string]int{"a": vndInt("a"), "b": vndInt("b"), "c": vndInt("c"), "d": vndInt("d")}
		vULog = nil
		err := Map(m, rm)
		r := vNewRef()
		vRefMap(r, m, rm)
		vCheckUnordered("C17 Map(map[string]int)", err, r)
	case 2:
		m := []map[string]string{{"a": vStr("a0"), "b": ""}, {"a": "", "b": vStr("b1")}}
		vULog = nil
		err := Map(m, rm)
		r := vNewRef()
		vRefMap(r, m, rm)
		vCheckUnordered("C17 Map([]map)", err, r)
	}
	vReach("end")
}

func H_C17_url() {
	rm := NewRule().Set("a", "either=1").Set("b", "either=1,botheq=2").Set("c", "botheq=2")
	a, b, c := vPlainText("a", 1), vPlainText("b", 1), vPlainText("c", 1)
	vULog = nil
	err := Url("h?a="+a+"&b="+b+"&c="+c, rm)
	r := vNewRef()
	vRefUrl(r, []string{"a", "b", "c"}, []string{a, b, c}, rm)
	vCheckUnordered("C17 Url", err, r)
	vReach("end")
}

// an either group and a botheq group with the same id in one object are two groups
type vGSameID struct {
	A string `valid:"either=1"`
	B string `valid:"either=1"`
	C string `valid:"botheq=1"`
	D string `valid:"botheq=1"`
}

func H_C17_same_id_kinds() {
	vRunGroups("C17 either=1 and botheq=1 side by side", &vGSameID{A: vStr("A"), B: vStr("B"), C: vStr("C"), D: vStr("D")}, true)
}

type vGLone struct {
	A string `valid:"either=1"`
	C string `valid:"botheq=1"`
}

func H_C17_lone_each_kind() {
	vRunGroups("C17 one member of each kind with the same id", &vGLone{A: vStr("A"), C: vStr("C")}, true)
}

// members of array, slice, map and pointer kinds: empty means zero value
type vGKinds struct {
	A [2]int `valid:"either=a"`
	B [2]int `valid:"either=a"`
	S []int  `valid:"either=s"`
	T []int  `valid:"either=s"`
	P *int   `valid:"either=p"`
	Q *int   `valid:"either=p"`
	U uint16 `valid:"either=u,botheq=v"`
	V uint16 `valid:"either=u,botheq=v"`
}

func H_C17_member_kinds() {
	o := &vGKinds{A: [2]int{vndInt("A0"), 0}, B: [2]int{0, vndInt("B1")}, U: vndUint16("U"), V: vndUint16("V")}
	if vndBool("S") {
		o.S = []int{}
	}
	if vndBool("P") {
		x := 0
		o.P = &x
	}
	vRunGroups("C17 member kinds", o, true)
}

func H_C17_map_kinds() {
	rm := NewRule().Set("a", "either=1,botheq=1").Set("b", "either=1,botheq=1")
	switch vndChoice("kind", 3) {
	case 0:
		m := map[string]uint16{"a": vndUint16("a"), "b": vndUint16("b")}
		vULog = nil
		err := Map(m, rm)
		r := vNewRef()
		vRefMap(r, m, rm)
		vCheckUnordered("C17 Map(map[string]uint16)", err, r)
	case 1:
		m := map[string]float64{"a": vndFloat64("a"), "b": vndFloat64("b")}
		vAssume(vNot(vIsNaN(m["a"])))
		vAssume(vNot(vIsNaN(m["b"])))
		vULog = nil
		err := Map(m, rm)
		r := vNewRef()
		vRefMap(r, m, rm)
		vCheckUnordered("C17 Map(map[string]float64)", err, r)
	case 2:
		m := map[string]bool{"a": vndBool("a"), "b": vndBool("b")}
		vULog = nil
		err := Map(m, rm)
		r := vNewRef()
		vRefMap(r, m, rm)
		vCheckUnordered("C17 Map(map[string]bool)", err, r)
	}
	vReach("end")
}

// group members declared before and after a nested object (and after a slice / map of them) belong to
// the enclosing object; the nested objects' own groups stay theirs
type vGAround struct {
	A string          `valid:"either=1"`
	X vG2             `valid:"exist"`
	B string          `valid:"either=1"`
	L []vG2           `valid:"exist"`
	C int             `valid:"botheq=2"`
	M map[string]*vG2 `valid:"exist"`
	D int             `valid:"botheq=2"`
}

func H_C17_members_around_nested() {
	o := &vGAround{A: vStr("A"), B: vStr("B"), C: vndInt("C"), D: vndInt("D"), X: vG2{A: vStr("XA"), Z: "z"}}
	if vndBool("L") {
		o.L = []vG2{{B: vStr("L0B"), Z: "z"}}
	}
	if vndBool("M") {
		o.M = map[string]*vG2{"k": {A: vStr("MA"), Z: "z"}}
	}
	vRunGroups("C17 members before and after nested objects", o, true)
}

// the same through Map: a slice of maps, members in every element
func H_C17_map_elems_independent() {
	rm := NewRule().Set("a", "either=1").Set("b", "either=1").Set("c", "required")
	m := []map[string]string{{"a": vStr("a0"), "b": vStr("b0"), "c": "c"}, {"a": vStr("a1"), "b": vStr("b1"), "c": "c"}, {"a": "", "b": "", "c": vStr("c2")}}
	vULog = nil
	err := Map(m, rm)
	r := vNewRef()
	vRefMap(r, m, rm)
	vCheckUnordered("C17 Map([]map) three elements", err, r)
	vReach("end")
}

// embedded structs are objects of their own: their groups are not merged with the parent's or a sibling's
type VGBuyer struct {
	Phone string `valid:"either=1"`
	Email string `valid:"either=1"`
	P1    string `valid:"botheq=2"`
	P2    string `valid:"botheq=2"`
	Z     string
}

type VGSeller struct {
	Phone string `valid:"either=1"`
	Mail  string `valid:"either=1"`
	P1    string `valid:"botheq=2"`
	P2    string `valid:"botheq=2"`
	Z     string
}

type vGOrder struct {
	VGBuyer  `valid:"exist"`
	VGSeller `valid:"required"`
	Tel      string `valid:"either=1"`
	Fax      string `valid:"either=1"`
}

func H_C17_embedded_objects() {
	o := &vGOrder{
		VGBuyer:  VGBuyer{Phone: vStr("bPhone"), P1: "a", P2: vStr("bP2"), Z: "z"},
		VGSeller: VGSeller{Mail: vStr("sMail"), P1: "b", P2: "b", Z: "z"},
		Tel:      vStr("tel"),
	}
	vRunGroups("C17 embedded structs with groups", o, true)
}

// URL values with characters that some query parsers treat specially; identical violations in several
// elements of a slice of maps are all reported
func H_C17_url_special_values() {
	rm := NewRule().Set("token", "either=1").Set("sign", "either=1").Set("a", "botheq=2").Set("b", "botheq=2")
	vals := []string{"", "a;b", "x;1", "x;2", "a+b", "1"}
	tk, sg := vals[vndChoice("token", len(vals))], vals[vndChoice("sign", 2)]
	a, b := vals[vndChoice("a", len(vals))], vals[vndChoice("b", len(vals))]
	encode := vndBool("encode")
	enc := func(s string) string {
		if encode {
			return vPctEncode(s)
		}
		return s
	}
	u := "h?token=" + enc(tk) + "&sign=" + sg + "&a=" + enc(a) + "&b=" + enc(b)
	dec := func(s string) string { // '+' is a blank in a query string when it is sent literally
		return strings.ReplaceAll(s, "+", " ")
	}
	dtk, da, db := tk, a, b
	if !encode {
		dtk, da, db = dec(tk), dec(a), dec(b)
	}
	vULog = nil
	err := Url(u, rm)
	r := vNewRef()
	vRefUrl(r, []string{"token", "sign", "a", "b"}, []string{dtk, sg, da, db}, rm)
	vCheckUnordered("C17 Url with ';' and '+' in values", err, r)
	vReach("end")
}

func H_C17_slice_of_maps_same_violation() {
	rm := NewRule().Set("a", "botheq=1").Set("b", "botheq=1").Set("c", "either=2").Set("d", "either=2")
	m := []map[string]string{{"a": "1", "b": "2", "c": "", "d": ""}, {"a": "1", "b": "2", "c": "", "d": ""}, {"a": "1", "b": vStr("b2"), "c": vStr("c2"), "d": ""}}
	vULog = nil
	err := Map(m, rm)
	r := vNewRef()
	vRefMap(r, m, rm)
	vCheckUnordered("C17 Map([]map) with the same violation in several elements", err, r)
	vReach("end")
}

// ---- thorough tier: larger groups, several objects ----

type vG5 struct {
	A string  `valid:"either=1"`
	B int     `valid:"either=1,botheq=2"`
	C string  `valid:"either=1"`
	D int     `valid:"botheq=2"`
	E float64 `valid:"either=1"`
	F int     `valid:"botheq=2"`
	G bool    `valid:"either=1"`
	H int     `valid:"botheq=2,either=3"`
}

func H_C17T_groups_of_five() {
	vRunGroups("C17 either/5 members of 4 kinds, botheq/4 ints, a single-member group",
		&vG5{A: vStr("A"), B: vndInt("B"), C: vStr("C"), D: vndInt("D"), E: vndFloat64("E"), F: vndInt("F"), G: vndBool("G"), H: vndInt("H")}, true)
}

type vG5Holder struct {
	L []*vG5         `valid:"exist"`
	M map[string]vG5 `valid:"exist"`
	A string         `valid:"either=1"`
}

func H_C17T_three_objects() {
	o := &vG5Holder{L: []*vG5{{A: vStr("L0A"), D: vndInt("L0D")}, nil, {B: vndInt("L2B"), G: vndBool("L2G")}}, M: map[string]vG5{"k": {C: vStr("MC"), F: vndInt("MF")}}, A: vStr("A")}
	vRunGroups("C17 groups in slice elements, a map value and the holder", o, true)
}

// ---- round 4 ----

// maps whose values are structs (not pointers) with two entries that differ in their verdict: as a field under
// exist / required and as the top-level input; each entry's groups are judged on that entry's own values
type vGValMapHolder struct {
	M map[string]vG2 `valid:"exist"`
	N map[int]vGS    `valid:"required"`
}

func H_C17_map_struct_values() {
	switch vndChoice("shape", 3) {
	case 0:
		vRunGroups("C17 map[string]T field, two entries", &vGValMapHolder{M: map[string]vG2{"p": {A: vStr("pA"), B: vStr("pB"), Z: "z"}, "q": {A: vStr("qA"), B: "", Z: "z"}}}, true)
	case 1:
		vRunGroups("C17 map[int]T field, two entries", &vGValMapHolder{N: map[int]vGS{1: {A: vStr("1A"), B: "x"}, 2: {A: "y", B: vStr("2B")}}}, true)
	case 2:
		vRunGroups("C17 top-level map[string]T, two entries", map[string]vG2{"p": {A: vStr("pA"), B: "", Z: "z"}, "q": {A: "", B: vStr("qB"), Z: "z"}}, true)
	}
}

// botheq over members of a composite kind: equal means equal values, not equal renderings. Pairs whose %v text
// coincides although the values differ, pairs that are equal, nil against pointer-to-zero, -0 against +0
type vGArr struct {
	A [2]string `valid:"botheq=1"`
	B [2]string `valid:"botheq=1"`
}
type vGSl struct {
	A []string `valid:"botheq=1"`
	B []string `valid:"botheq=1"`
}
type vGName struct{ First, Last string }
type vGSt struct {
	A vGName `valid:"botheq=1"`
	B vGName `valid:"botheq=1"`
}
type vGPtr struct {
	A *string `valid:"botheq=1"`
	B *string `valid:"botheq=1"`
	Z string  `valid:"r1"`
}
type vGFl struct {
	A float64 `valid:"botheq=1"`
	B float64 `valid:"botheq=1"`
	Z string  `valid:"r1"`
}
type vGIf struct {
	A interface{} `valid:"botheq=1"`
	B interface{} `valid:"botheq=1"`
}

func H_C17_botheq_composite() {
	empty, x := "", "x"
	negZero := 0.0
	negZero = -negZero
	switch vndChoice("pair", 14) {
	case 0:
		vRunGroups("C17 botheq arrays, same text", &vGArr{A: [2]string{"a b", "c"}, B: [2]string{"a", "b c"}}, false)
	case 1:
		vRunGroups("C17 botheq arrays, equal", &vGArr{A: [2]string{"a b", "c"}, B: [2]string{"a b", "c"}}, false)
	case 2:
		vRunGroups("C17 botheq slices, same text", &vGSl{A: []string{"a b"}, B: []string{"a", "b"}}, false)
	case 3:
		vRunGroups("C17 botheq slices, equal", &vGSl{A: []string{"a", "b"}, B: []string{"a", "b"}}, false)
	case 4:
		vRunGroups("C17 botheq slices, empty element", &vGSl{A: []string{"", "a"}, B: []string{"a", ""}}, false)
	case 5:
		vRunGroups("C17 botheq structs, same text", &vGSt{A: vGName{"de la", "cruz"}, B: vGName{"de", "la cruz"}}, false)
	case 6:
		vRunGroups("C17 botheq structs, equal", &vGSt{A: vGName{"de", "la cruz"}, B: vGName{"de", "la cruz"}}, false)
	case 7:
		vRunGroups("C17 botheq pointers, nil and pointer to empty", &vGPtr{A: nil, B: &empty, Z: "z"}, false)
	case 8:
		x2 := "x"
		vRunGroups("C17 botheq pointers, distinct pointers to equal strings", &vGPtr{A: &x, B: &x2, Z: "z"}, false)
	case 9:
		vRunGroups("C17 botheq floats, -0 and +0", &vGFl{A: negZero, B: 0, Z: "z"}, false)
	case 10:
		vRunGroups("C17 botheq floats, 1 and 1.0000000000000002", &vGFl{A: 1, B: 1.0000000000000002, Z: "z"}, false)
	case 11:
		vRunGroups("C17 botheq interfaces, int 1 and float 1", &vGIf{A: 1, B: 1.0}, false)
	case 12:
		vRunGroups("C17 botheq interfaces, int 1 and string 1", &vGIf{A: 1, B: "1"}, false)
	case 13:
		vRunGroups("C17 botheq interfaces, equal", &vGIf{A: "1", B: "1"}, false)
	}
}

// groups follow the rules of the call: a call that puts members into a group through a supplied rule set, then
// a plain call on the same type (tags only), then the supplied rules again
type vGPlain struct {
	A string `valid:"either=1"`
	B string `valid:"either=1"`
	C string
	D string `valid:"r1"`
}

func vC17GroupsPerCall(calls []bool) {
	vUNoFail = true
	known := vGlobalRules()
	rm := RM{"C": "either=1", "D": "botheq=2", "A": "botheq=2", "B": "r2"}
	for i, withRules := range calls {
		is := vNum(i)
		o := &vGPlain{A: vStr("A" + is), B: vStr("B" + is), C: "", D: "d"}
		vULog = nil
		r := vNewRef()
		r.global = known
		var err error
		if withRules {
			err = Struct(o, vCopyRM(rm))
			r.unscoped = rm
		} else {
			err = Struct(o)
		}
		r.top(o)
		vCheckUnordered("C17 groups per call, call "+is, err, r)
	}
	vReach("end")
}

func H_C17_groups_per_call_rp()  { vC17GroupsPerCall([]bool{true, false}) }
func H_C17_groups_per_call_pr()  { vC17GroupsPerCall([]bool{false, true}) }
func H_C17_groups_per_call_rpr() { vC17GroupsPerCall([]bool{true, false, true}) }

// one object held in several places below the top level (twice in a slice of pointers, by two pointer
// fields, under two map keys): every holder position is an object of its own for the groups, so a violated
// group is reported once per position
type vGShared struct {
	L  []*vG2          `valid:"exist"`
	P1 *vG2            `valid:"exist"`
	P2 *vG2            `valid:"required"`
	M  map[string]*vGS `valid:"exist"`
	N  *vGShared       `valid:"exist"`
}

func H_C17_shared_object_positions() {
	p := &vG2{A: vStr("A"), B: vStr("B"), Z: "z"}
	q := &vGS{A: vStr("SA"), B: "b"}
	o := &vGShared{}
	switch vndChoice("where", 5) {
	case 0:
		o.L = []*vG2{p, p}
	case 1:
		o.P1, o.P2 = p, p
	case 2:
		o.L, o.P2 = []*vG2{p}, p
	case 3:
		o.M = map[string]*vGS{"a": q}
		o.N = &vGShared{M: map[string]*vGS{"b": q}}
	default:
		o.P1 = p
		o.N = &vGShared{L: []*vG2{nil, p}, P2: p}
	}
	vRunGroups("C17 one object in several positions", o, false)
}
