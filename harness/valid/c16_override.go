//go:build verif

package valid

import "reflect"

// C16: programmatic rule sets replace tag rules per field, scoped rule sets
// apply to their struct type wherever it occurs and to no other type, an
// unscoped rule set applies to the outermost struct only; rule names resolve
// per-call -> global -> built-in; unknown names give a clause and the other
// rules of the field still run.

type vOIn struct {
	A string `valid:"r1"`
	B string `valid:"r2"`
}

type vOOther struct {
	A string `valid:"r3"`
	C string
}

type vOOuter struct {
	A  string `valid:"r1"`
	B  string
	In vOIn     `valid:"exist"`
	L  []vOIn   `valid:"exist"`
	O  *vOOther `valid:"exist"`
}

var vC16RMs = []RM{
	nil,
	{},
	{"A": "r2"},
	{"B": "r3", "A": "r2,r3"},
	{"A": "", "B": "r1"},
	{"C": "r1", "A": "nosuch,r2"},
}

func vC16Obj() *vOOuter {
	return &vOOuter{A: vStr("A"), B: "b", In: vOIn{A: "a", B: vStr("In.B")}, L: []vOIn{{A: "a", B: "b"}}, O: &vOOther{A: "a", C: "c"}}
}

func vCopyRM(rm RM) RM {
	if rm == nil {
		return nil
	}
	c := RM{}
	for k, v := range rm {
		c[k] = v
	}
	return c
}

// scope: which rule set is registered where
func H_C16_scope() {
	vUNoFail = true
	known := vGlobalRules()
	o := vC16Obj()
	un := vC16RMs[vndChoice("unscoped", len(vC16RMs))]
	so := vC16RMs[vndChoice("outer", 4)]
	si := vC16RMs[vndChoice("inner", 4)]
	st := vC16RMs[vndChoice("other", 3)*2] // nil, {A:r2}, {A:"",B:r1}
	vs := NewVStruct()
	r := vNewRef()
	r.global = known
	r.scoped = map[reflect.Type]RM{}
	if un != nil {
		vs.SetRule(vCopyRM(un))
		r.unscoped = un
	}
	if so != nil {
		vs.SetRule(vCopyRM(so), o)
		r.scoped[reflect.TypeOf(vOOuter{})] = so
	}
	if si != nil {
		vs.SetRule(vCopyRM(si), vOIn{})
		r.scoped[reflect.TypeOf(vOIn{})] = si
	}
	if st != nil {
		vs.SetRule(vCopyRM(st), &vOOther{})
		r.scoped[reflect.TypeOf(vOOther{})] = st
	}
	err := vs.Valid(o)
	r.top(o)
	vCheckAgainstRef("C16 scope", err, r)
	vReach("end")
}

// the convenience entry points
func H_C16_entry() {
	vUNoFail = true
	known := vGlobalRules()
	o := vC16Obj()
	rm := vC16RMs[2+vndChoice("rm", 4)]
	r := vNewRef()
	r.global = known
	var err error
	switch vndChoice("entry", 5) {
	case 0:
		err = Struct(o, vCopyRM(rm))
		r.unscoped = rm
	case 1:
		err = StructForFn(o, vCopyRM(rm))
		r.unscoped = rm
	case 2:
		err = ValidStructForRule(vCopyRM(rm), o)
		r.unscoped = rm
	case 3:
		err = NestedStructForRule(o, map[interface{}]RM{&vOIn{}: vCopyRM(rm)})
		r.scoped = map[reflect.Type]RM{reflect.TypeOf(vOIn{}): rm}
	case 4:
		err = NestedStructForRule(o, map[interface{}]RM{o: vCopyRM(rm)})
		r.scoped = map[reflect.Type]RM{reflect.TypeOf(vOOuter{}): rm}
	}
	r.top(o)
	vCheckAgainstRef("C16 entry", err, r)
	vReach("end")
}

// function resolution: per-call -> global -> built-in; unknown names
type vOFn struct {
	P string `valid:"phone"`
	Q string `valid:"zz,f1"`
	R string `valid:"f1,phone"`
}

func H_C16_fn() {
	vUNoFail = true
	o := &vOFn{P: "x", Q: vStr("Q"), R: "y"}
	r := vNewRef()
	r.local, r.global = map[string]bool{}, map[string]bool{}
	r.localTag, r.globalTag = map[string]string{}, map[string]string{}
	r.realBuiltin = map[string]string{VPhone: ExplainEn + " it is not phone"}
	fns := Name2FnMap{}
	if vndBool("globalPhone") {
		SetCustomerValidFn(VPhone, vURule("G-phone"))
		r.global[VPhone], r.globalTag[VPhone] = true, "G-phone"
	}
	if vndBool("globalF1") {
		SetCustomerValidFn("f1", vURule("G-f1"))
		r.global["f1"], r.globalTag["f1"] = true, "G-f1"
	}
	if vndBool("localPhone") {
		fns[VPhone] = vURule("L-phone")
		r.local[VPhone], r.localTag[VPhone] = true, "L-phone"
	}
	if vndBool("localF1") {
		fns["f1"] = vURule("L-f1")
		r.local["f1"], r.localTag["f1"] = true, "L-f1"
	}
	var err error
	if vndBool("viaSetValidFn") {
		vs := NewVStruct()
		for _, k := range vSortedFnKeys(fns) {
			vs.SetValidFn(k, fns[k])
		}
		err = vs.Valid(o)
	} else {
		err = StructForFns(o, nil, fns)
	}
	r.top(o)
	vCheckAgainstRef("C16 fn", err, r)
	vReach("end")
}

func vSortedFnKeys(m Name2FnMap) []string {
	var ks []string
	for k := range m {
		ks = append(ks, k)
	}
	vSortStrings(ks)
	return ks
}

// the same resolution through Var / Map / Url
func H_C16_fn_other() {
	vUNoFail = true
	local := vndBool("local")
	global := vndBool("global")
	if global {
		SetCustomerValidFn("f1", vURule("G-f1"))
	}
	r := vNewRef()
	r.local, r.global = map[string]bool{"f1": local}, map[string]bool{"f1": global}
	r.localTag, r.globalTag = map[string]string{"f1": "L-f1"}, map[string]string{"f1": "G-f1"}
	var err error
	switch vndChoice("entry", 3) {
	case 0:
		v := NewVVar().SetRules("zz", "f1")
		if local {
			v.SetValidFn("f1", vURule("L-f1"))
		}
		err = v.Valid("x")
		r.rule("", "", "", "zz", reflect.ValueOf("x"), false)
		r.rule("", "", "", "f1", reflect.ValueOf("x"), false)
	case 1:
		fns := Name2FnMap{}
		if local {
			fns["f1"] = vURule("L-f1")
		}
		rm := NewRule().Set("k", "zz,f1")
		err = MapFn(map[string]string{"k": "x"}, rm, fns)
		vRefMap(r, map[string]string{"k": "x"}, rm)
	case 2:
		rm := NewRule().Set("k", "zz,f1")
		u := NewVUrl().SetRule(rm)
		if local {
			u.SetValidFn("f1", vURule("L-f1"))
		}
		err = u.Valid("h?k=x")
		vRefUrl(r, []string{"k"}, []string{"x"}, rm)
	}
	vCheckAgainstRef("C16 fn (Var/Map/Url)", err, r)
	vReach("end")
}

// the outermost type recurs in the graph: an unscoped rule set still applies to the outermost value only
type vONode struct {
	A    string   `valid:"r1"`
	Next *vONode  `valid:"exist"`
	Kids []vONode `valid:"exist"`
}

func H_C16_recursive() {
	vUNoFail = true
	known := vGlobalRules()
	leaf := &vONode{A: vStr("leaf")}
	o := &vONode{A: vStr("A"), Next: &vONode{A: "n", Next: leaf}, Kids: []vONode{{A: vStr("kid")}}}
	rm := vC16RMs[2+vndChoice("rm", 3)]
	r := vNewRef()
	r.global = known
	var err error
	if vndBool("scoped") {
		err = NewVStruct().SetRule(vCopyRM(rm), o).Valid(o)
		r.scoped = map[reflect.Type]RM{reflect.TypeOf(vONode{}): rm}
	} else {
		err = Struct(o, vCopyRM(rm))
		r.unscoped = rm
	}
	r.top(o)
	vCheckAgainstRef("C16 recursive type", err, r)
	vReach("end")
}

// per-call and global functions whose names collide with the walker's own rule names
type vOBuiltin struct {
	A string `valid:"required"`
	B string `valid:"exist"`
	C string `valid:"either=1"`
	D string `valid:"either=1"`
	E int    `valid:"botheq=2"`
	F int    `valid:"botheq=2"`
}

func H_C16_fn_builtin_names() {
	vUNoFail = true
	o := &vOBuiltin{A: vStr("A"), B: "b", C: "c", D: vStr("D"), E: 1, F: vndInt("F")}
	r := vNewRef()
	r.local, r.global = map[string]bool{}, map[string]bool{}
	r.localTag, r.globalTag = map[string]string{}, map[string]string{}
	fns := Name2FnMap{}
	name := []string{Required, Exist, Either, BothEq}[vndChoice("name", 4)]
	if vndBool("global") {
		SetCustomerValidFn(name, vURule("G-"+name))
		r.global[name], r.globalTag[name] = true, "G-"+name
	}
	if vndBool("local") {
		fns[name] = vURule("L-" + name)
		r.local[name], r.localTag[name] = true, "L-"+name
	}
	err := StructForFns(o, nil, fns)
	r.top(o)
	vCheckAgainstRef("C16 function named like a built-in rule", err, r)
	vReach("end")
}

// a rule set registered for a struct type applies to that type only: not to a defined type with the same
// underlying struct, not to a struct that embeds it, not to a pointer-to-pointer alias of another type
type vOInTwin vOIn // same fields and tags, another type

type vOEmbeds struct {
	vOIn
	A string `valid:"r3"`
}

type vOTwins struct {
	In   vOIn      `valid:"exist"`
	Twin vOInTwin  `valid:"exist"`
	PT   *vOInTwin `valid:"exist"`
	Emb  vOEmbeds  `valid:"required"`
}

func H_C16_scope_other_types() {
	vUNoFail = true
	known := vGlobalRules()
	o := &vOTwins{In: vOIn{A: vStr("In.A"), B: "b"}, Twin: vOInTwin{A: vStr("Twin.A"), B: "b"}, PT: &vOInTwin{A: "a", B: vStr("PT.B")}, Emb: vOEmbeds{A: vStr("Emb.A")}}
	rm := vC16RMs[2+vndChoice("rm", 3)]
	vs := NewVStruct()
	r := vNewRef()
	r.global = known
	r.scoped = map[reflect.Type]RM{}
	switch vndChoice("for", 3) {
	case 0:
		vs.SetRule(vCopyRM(rm), vOIn{})
		r.scoped[reflect.TypeOf(vOIn{})] = rm
	case 1:
		vs.SetRule(vCopyRM(rm), &vOInTwin{})
		r.scoped[reflect.TypeOf(vOInTwin{})] = rm
	case 2:
		vs.SetRule(vCopyRM(rm), vOEmbeds{})
		r.scoped[reflect.TypeOf(vOEmbeds{})] = rm
	}
	err := vs.Valid(o)
	r.top(o)
	vCheckAgainstRef("C16 scoped rule set vs look-alike types", err, r)
	vReach("end")
}

// ---- round 4 ----

// "the function given for this call": a second call resolves names from its own table only. Two consecutive
// calls on one type; each gives f1 / phone per call or not (pool in LIFO mode: the second validator is the first
// one's object again); the second call is compared with the reference built from its own arguments
func vC16FnCall(i int, o *vOFn) {
	is := vNum(i)
	r := vNewRef()
	r.local, r.global = map[string]bool{}, map[string]bool{}
	r.localTag, r.globalTag = map[string]string{}, map[string]string{}
	r.realBuiltin = map[string]string{VPhone: ExplainEn + " it is not phone"}
	fns := Name2FnMap{}
	if vndBool("localPhone" + is) {
		fns[VPhone] = vURule("L-phone" + is)
		r.local[VPhone], r.localTag[VPhone] = true, "L-phone"+is
	}
	if vndBool("localF1" + is) {
		fns["f1"] = vURule("L-f1" + is)
		r.local["f1"], r.localTag["f1"] = true, "L-f1"+is
	}
	vULog = nil
	var err error
	switch vndChoice("via"+is, 3) {
	case 0:
		vs := NewVStruct()
		for _, k := range vSortedFnKeys(fns) {
			vs.SetValidFn(k, fns[k])
		}
		err = vs.Valid(o)
	case 1:
		err = StructForFns(o, nil, fns)
	case 2:
		if fns["f1"] == nil {
			err = StructForFns(o, nil, fns)
		} else {
			err = ValidStructForMyValidFn(o, "f1", fns["f1"])
			delete(r.local, VPhone) // this entry point takes one function only
		}
	}
	r.top(o)
	vCheckAgainstRef("C16 fn, call "+is+" of a sequence", err, r)
}

func H_C16_fn_sequence() {
	vUNoFail = true
	vPoolMode("lifo")
	vC16FnCall(0, &vOFn{P: "x", Q: "q", R: "y"})
	vC16FnCall(1, &vOFn{P: "x", Q: vStr("Q"), R: "y"})
	vReach("end")
}

// the same for rule sets: a rule set given to one call (unscoped and scoped) is gone in the next call
func H_C16_rules_sequence() {
	vUNoFail = true
	vPoolMode("lifo")
	known := vGlobalRules()
	for i := 0; i < 2; i++ {
		is := vNum(i)
		o := &vOOuter{A: vStr("A" + is), B: "", In: vOIn{A: "a", B: vStr("In.B" + is)}, L: []vOIn{{A: "a", B: "b"}}, O: &vOOther{A: "a", C: "c"}}
		vs := NewVStruct()
		r := vNewRef()
		r.global = known
		r.scoped = map[reflect.Type]RM{}
		if vndBool("unscoped" + is) {
			rm := RM{"A": "r3", "B": "required"}
			vs.SetRule(rm)
			r.unscoped = rm
		}
		if vndBool("scoped" + is) {
			rm := RM{"A": "r2,r3"}
			vs.SetRule(rm, vOIn{})
			r.scoped[reflect.TypeOf(vOIn{})] = rm
		}
		vULog = nil
		err := vs.Valid(o)
		r.top(o)
		vCheckAgainstRef("C16 rule sets, call "+is+" of a sequence", err, r)
	}
	vReach("end")
}

// a rule set registered for a struct type applies to values of that type *wherever they occur*: every
// way the object graph can hold one (value, pointers, slices, arrays, maps, pointers to collections,
// nested collections, interface values)
type vOPos struct {
	A   string              `valid:"r1"`
	In  vOIn                `valid:"exist"`
	P   *vOIn               `valid:"exist"`
	PP  **vOIn              `valid:"exist"`
	L   []vOIn              `valid:"exist"`
	LP  []*vOIn             `valid:"exist"`
	A2  [2]vOIn             `valid:"exist"`
	AP  [1]*vOIn            `valid:"exist"`
	M   map[string]vOIn     `valid:"exist"`
	MP  map[string]*vOIn    `valid:"exist"`
	PL  *[]vOIn             `valid:"exist"`
	LL  [][]vOIn            `valid:"exist"`
	LM  []map[string]*vOIn  `valid:"exist"`
	I   interface{}         `valid:"exist"`
	R   *vOPos              `valid:"exist"`
	Oth map[string]*vOOther `valid:"exist"`
}

func H_C16_scope_positions() {
	vUNoFail = true
	known := vGlobalRules()
	mk := func() vOIn { return vOIn{A: "a", B: "b"} }
	in1, in2, in3 := mk(), mk(), mk()
	p2 := &in2
	lst := []vOIn{mk()}
	o := &vOPos{A: "x", In: mk(), P: &in1, PP: &p2, L: []vOIn{mk(), mk()}, LP: []*vOIn{&in3, nil}, A2: [2]vOIn{mk(), mk()},
		AP: [1]*vOIn{{A: "a", B: "b"}}, M: map[string]vOIn{"k": mk()}, MP: map[string]*vOIn{"k": {A: "a", B: "b"}}, PL: &lst,
		LL: [][]vOIn{{mk()}}, LM: []map[string]*vOIn{{"k": {A: "a", B: "b"}}}, Oth: map[string]*vOOther{"k": {A: "a", C: "c"}}}
	switch vndChoice("iface", 3) {
	case 1:
		o.I = mk()
	case 2:
		o.I = &vOIn{A: "a", B: "b"}
	}
	if vndBool("rec") {
		o.R = &vOPos{A: "y", LP: []*vOIn{{A: "a", B: "b"}}, MP: map[string]*vOIn{"q": {A: "a", B: "b"}}}
	}
	un := vC16RMs[vndChoice("unscoped", len(vC16RMs))]
	si := vC16RMs[1+vndChoice("inner", 5)]
	st := vC16RMs[vndChoice("other", 3)*2]
	vs := NewVStruct()
	r := vNewRef()
	r.global = known
	r.scoped = map[reflect.Type]RM{}
	if un != nil {
		vs.SetRule(vCopyRM(un))
		r.unscoped = un
	}
	if vndBool("byPointer") {
		vs.SetRule(vCopyRM(si), &vOIn{})
	} else {
		vs.SetRule(vCopyRM(si), vOIn{})
	}
	r.scoped[reflect.TypeOf(vOIn{})] = si
	if st != nil {
		vs.SetRule(vCopyRM(st), vOOther{})
		r.scoped[reflect.TypeOf(vOOther{})] = st
	}
	err := vs.Valid(o)
	r.top(o)
	vCheckAgainstRef("C16 a scoped rule set reaches its type in every position", err, r)
	vReach("end")
}
