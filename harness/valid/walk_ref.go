//go:build verif

package valid

// Shared machinery for the walker properties (C02, C03, C04, C08, C12, C16,
// C17, C18): uninterpreted rule functions and a reference walker written
// from the README / property statements (it shares no code with the
// implementation: it has its own field loop, rule splitter, descent and
// group bookkeeping).

import (
	"reflect"
	"strings"
	"time"
)

// ---- uninterpreted rules ----

type vUCall struct {
	tag                   string
	validName, obj, field string
	failed                bool
	clause                string
	val                   reflect.Value // the value the walker handed to the rule
}

var vULog []vUCall
var vUSeq int

// vUNoFail: rules only log their invocation (used where the observable is the set of (path, rule) events)
var vUNoFail bool

var vDigits = []string{"0", "1", "2", "3", "4", "5", "6", "7", "8", "9", "10", "11", "12", "13", "14", "15", "16", "17", "18", "19", "20", "21", "22", "23", "24", "25", "26", "27", "28", "29", "30", "31"}

func vNum(i int) string {
	if i < len(vDigits) {
		return vDigits[i]
	}
	return vDigits[i/32] + "_" + vDigits[i%32]
}

// vURule is a rule function whose verdict is a fresh nondeterministic choice
// per invocation: the walkers are checked against every behaviour of every rule.
func vURule(tag string) CommonValidFn {
	return func(errBuf *strings.Builder, validName, objName, fieldName string, tv reflect.Value) {
		id := vUSeq // never reset: nondeterministic choices need unique names across calls
		vUSeq++
		c := vUCall{tag: tag, validName: validName, obj: objName, field: fieldName, val: tv}
		if !vUNoFail && vndBool("fail"+vNum(id)) {
			c.failed = true
			c.clause = "<" + tag + "#" + vNum(id) + " " + objName + "." + fieldName + ">" + ErrEndFlag
			errBuf.WriteString(c.clause)
		}
		vULog = append(vULog, c)
	}
}

// ---- reference walker ----

type vExp struct {
	isCall                bool
	who                   string        // expected function object ("" = not asserted)
	validName, obj, field string        // call
	text                  string        // literal clause (with separator)
	val                   reflect.Value // expected argument of the call
}

type vGroupMember struct {
	obj, field string
	val        reflect.Value
}

type vGroup struct {
	owner   string // object the group lives in
	rule    string // full rule text, e.g. "either=1"
	kind    string // "either" | "botheq"
	members []vGroupMember
}

type vRef struct {
	tag                 string              // tag name requested for this call
	scoped              map[reflect.Type]RM // rule sets registered for a struct type
	unscoped            RM                  // rule set without a type: outermost struct only
	local               map[string]bool     // names given for this call
	global              map[string]bool     // names registered globally by the harness
	perObj              bool                // judge groups per object (property C17)
	localTag, globalTag map[string]string   // function object expected for a name (C16)
	realBuiltin         map[string]string   // built-in rule -> clause text after the input echo, for values known to violate it
	out                 []vExp
	groups              []*vGroup
}

func vNewRef() *vRef { return &vRef{tag: "valid", perObj: true} }

var vBuiltins = map[string]bool{
	VTo: true, VGe: true, VLe: true, VOTo: true, VGt: true, VLt: true, VEq: true, VNoEq: true, VIn: true, VInclude: true,
	VPhone: true, VEmail: true, VIDCard: true, VYear: true, VYear2Month: true, VDate: true, VDatetime: true, VInt: true,
	VInts: true, VFloat: true, VRe: true, VIp: true, VIpv4: true, VIpv6: true, VUnique: true, VJson: true, VPrefix: true,
	VSuffix: true, VFile: true, VDir: true,
}

// vSplitRules: commas split rules, except inside single quotes.
func vSplitRules(s string) []string {
	var out []string
	cur := ""
	inq := false
	for i := 0; i < len(s); i++ {
		c := s[i]
		if c == '\'' {
			inq = !inq
		}
		if c == ',' && !inq {
			out = append(out, cur)
			cur = ""
			continue
		}
		cur += string([]byte{c})
	}
	return append(out, cur)
}

func vRuleKey(item string) string {
	for i := 0; i < len(item); i++ {
		if item[i] == '=' || item[i] == '|' {
			return item[:i]
		}
	}
	return item
}

func vRuleMsg(item string) string {
	// custom message (concrete rule texts only): text after the first '|'
	for i := 0; i < len(item); i++ {
		if item[i] == '|' && i+1 < len(item) {
			m := item[i+1:]
			for j := 0; j < len(m); j++ {
				if m[j] >= 0xE4 && m[j] <= 0xE9 {
					return ExplainZh + " " + m
				}
			}
			return ExplainEn + " " + m
		}
	}
	return ""
}

func vDeref(v reflect.Value) reflect.Value {
	for v.IsValid() && v.Kind() == reflect.Ptr {
		if v.IsNil() {
			return reflect.Value{}
		}
		v = v.Elem()
	}
	return v
}

// vEmpty: zero value, or a collection without elements.
func vEmpty(v reflect.Value) bool {
	switch v.Kind() {
	case reflect.Slice, reflect.Array, reflect.Map:
		if v.Len() == 0 {
			return true
		}
	}
	return v.IsZero()
}

func vQuotePath(obj, field string) string { return "\"" + obj + "." + field + "\" " }

func (r *vRef) lit(s string) { r.out = append(r.out, vExp{text: s}) }

var vTimeType = reflect.TypeOf(time.Time{})

// struct walks one struct object named path.
func (r *vRef) walkStruct(path string, v reflect.Value, outermost bool) {
	t := v.Type()
	if outermost {
		path = t.Name()
	}
	rm := r.scoped[t]
	if outermost && len(rm) == 0 {
		rm = r.unscoped
	}
	for i := 0; i < t.NumField(); i++ {
		f := t.Field(i)
		if f.PkgPath != "" || f.Type == vTimeType { // unexported / time.Time: never validated
			continue
		}
		rule := f.Tag.Get(r.tag)
		if o := rm[f.Name]; o != "" {
			rule = o // a supplied rule replaces the tag rule entirely
		}
		if rule == "" {
			continue
		}
		fv := v.Field(i)
		for _, item := range vSplitRules(rule) {
			if item == "" {
				continue
			}
			r.rule(path, path, f.Name, item, fv, true)
		}
	}
}

// rule evaluates one rule item on one value. owner = object for group bookkeeping.
func (r *vRef) rule(owner, obj, field, item string, fv reflect.Value, isStruct bool) {
	key := vRuleKey(item)
	switch {
	case r.local[key] || r.global[key] || vBuiltins[key]:
		if fv.IsZero() {
			return // every rule other than required skips empty values
		}
		who := ""
		if r.local[key] { // per-call function first, then the globally registered one, then the built-in
			who = r.localTag[key]
		} else if r.global[key] {
			who = r.globalTag[key]
		} else if suffix, ok := r.realBuiltin[key]; ok {
			r.lit(vQuotePath(obj, field) + "input \"" + fv.String() + "\", " + suffix + ErrEndFlag)
			return
		}
		r.out = append(r.out, vExp{isCall: true, who: who, validName: item, obj: obj, field: field, val: fv})
	case key == Required:
		if vEmpty(fv) {
			msg := vRuleMsg(item)
			if msg == "" {
				msg = ExplainEn + " it is " + Required
			}
			pre := ""
			if obj != "" && field != "" {
				pre = vQuotePath(obj, field)
			} else if field != "" {
				pre = "\"" + field + "\" "
			}
			r.lit(pre + "input \"\", " + msg + ErrEndFlag)
			return
		}
		if isStruct {
			r.descend(obj+"."+field, fv)
		}
	case key == Exist:
		if !isStruct {
			r.lit("valid \"" + item + "\" is no support" + ErrEndFlag)
			return
		}
		if fv.IsZero() {
			return
		}
		switch fv.Kind() {
		case reflect.Ptr, reflect.Struct, reflect.Slice, reflect.Array, reflect.Map:
			r.descend(obj+"."+field, fv)
		default:
			msg := vRuleMsg(item)
			if msg == "" {
				msg = ExplainEn + " it is nonsupport " + Exist
			}
			r.lit(vQuotePath(obj, field) + "input \"" + fv.String() + "\", " + msg + ErrEndFlag)
		}
	case key == Either || key == BothEq:
		gowner := owner
		if !r.perObj {
			gowner = ""
		}
		var g *vGroup
		for _, x := range r.groups {
			if x.owner == gowner && x.rule == item {
				g = x
			}
		}
		if g == nil {
			g = &vGroup{owner: gowner, rule: item, kind: key}
			r.groups = append(r.groups, g)
		}
		g.members = append(g.members, vGroupMember{obj: obj, field: field, val: fv})
	default:
		pre := ""
		if obj != "" && field != "" {
			pre = vQuotePath(obj, field)
		}
		r.lit(pre + "valid \"" + key + "\" is not exist, You can call SetValidFn" + ErrEndFlag)
	}
}

// descend validates the sub-objects reachable from a marked field.
func (r *vRef) descend(path string, fv reflect.Value) {
	switch fv.Kind() {
	case reflect.Ptr, reflect.Struct:
		if fv.Type() == vTimeType {
			return
		}
		s := vDeref(fv)
		if !s.IsValid() || s.Kind() != reflect.Struct || s.Type() == vTimeType {
			return // nil sub-objects and pointers to scalars have nothing to validate
		}
		r.walkStruct(path, s, false)
	case reflect.Slice, reflect.Array:
		for i := 0; i < fv.Len(); i++ {
			s := vDeref(fv.Index(i))
			if s.IsValid() && s.Kind() == reflect.Struct {
				r.walkStruct(path+"["+vNum(i)+"]", s, false)
			}
		}
	case reflect.Map:
		it := fv.MapRange()
		for it.Next() {
			s := vDeref(it.Value())
			if s.IsValid() && s.Kind() == reflect.Struct {
				r.walkStruct(path+"["+ToStr(it.Key().Interface())+"]", s, false)
			}
		}
	}
}

// top dispatches on the input given to Struct.
func (r *vRef) top(src interface{}) {
	v := vDeref(reflect.ValueOf(src))
	switch v.Kind() {
	case reflect.Struct:
		r.walkStruct("", v, true)
	case reflect.Slice, reflect.Array:
		name := ""
		for i := 0; i < v.Len(); i++ {
			if i == 0 {
				name = v.Index(i).Type().String()
			}
			s := vDeref(v.Index(i))
			if s.IsValid() && s.Kind() == reflect.Struct {
				r.walkStruct(name+"["+vNum(i)+"]", s, false)
			}
		}
	case reflect.Map:
		it := v.MapRange()
		for it.Next() {
			s := vDeref(it.Value())
			if s.IsValid() && s.Kind() == reflect.Struct {
				r.walkStruct("map["+ToStr(it.Key().Interface())+"]", s, false)
			}
		}
	}
}

// groupClauses appends the clauses of violated groups (after all field clauses).
func (r *vRef) groupClauses() []string {
	var out []string
	for _, g := range r.groups {
		names := ""
		for i, m := range g.members {
			if i > 0 {
				names += ", "
			}
			if m.obj != "" {
				names += "\"" + m.obj + "." + m.field + "\""
			} else {
				names += "\"" + m.field + "\""
			}
		}
		if len(g.members) == 1 {
			m := g.members[0]
			pre := ""
			if m.obj != "" && m.field != "" {
				pre = vQuotePath(m.obj, m.field)
			}
			if g.kind == Either {
				out = append(out, pre+eitherValErr.Error()+ErrEndFlag)
			} else {
				out = append(out, pre+bothEqValErr.Error()+ErrEndFlag)
			}
			continue
		}
		if g.kind == Either {
			all := true
			for _, m := range g.members {
				if !m.val.IsZero() {
					all = false
				}
			}
			if all {
				out = append(out, names+" "+ExplainEn+" they shouldn't all be empty"+ErrEndFlag)
			}
		} else {
			eq := true
			first := g.members[0].val.Interface()
			for _, m := range g.members[1:] {
				if !reflect.DeepEqual(first, m.val.Interface()) {
					eq = false
				}
			}
			if !eq {
				out = append(out, names+" "+ExplainEn+" they should be equal"+ErrEndFlag)
			}
		}
	}
	return out
}

// vCheckAgainstRef compares the real run (error + call log) with the expectation.
// Group clauses may come in any order among themselves (Go map iteration), after all field clauses.
func vCheckAgainstRef(tag string, err error, r *vRef) {
	// 1. the sequence of rule invocations
	ncalls := 0
	for _, e := range r.out {
		if e.isCall {
			ncalls++
		}
	}
	vAssert(len(vULog) == ncalls, tag+": every rule on a non-empty reachable field is evaluated exactly once, no other")
	if len(vULog) != ncalls {
		return
	}
	want := ""
	j := 0
	for _, e := range r.out {
		if !e.isCall {
			want += e.text
			continue
		}
		c := vULog[j]
		j++
		vAssert(c.validName == e.validName && c.obj == e.obj && c.field == e.field, tag+": rule order, rule text and field path of each evaluation")
		if e.who != "" {
			vAssert(c.tag == e.who, tag+": rule name resolves to the per-call function, else the global one, else the built-in")
		}
		vAssert(vSameValue(c.val, e.val), tag+": the rule is evaluated on the value of its own field")
		if c.failed {
			want += c.clause
		}
	}
	gs := r.groupClauses()
	got := ""
	if err != nil {
		got = err.Error() + ErrEndFlag
	}
	vAssert((err == nil) == (want == "" && len(gs) == 0), tag+": nil exactly when no rule is violated")
	switch len(gs) {
	case 0:
		vAssert(got == want, tag+": one clause per violated rule, in order, separator-joined, none trailing")
	case 1:
		vAssert(got == want+gs[0], tag+": field clauses in order, group clause last")
	case 2:
		vAssert(got == want+gs[0]+gs[1] || got == want+gs[1]+gs[0], tag+": field clauses in order, group clauses last")
	default:
		// more groups: check the field part and the total length
		n := len(want)
		for _, g := range gs {
			n += len(g)
		}
		vAssert(len(got) == n && len(got) >= len(want) && got[:len(want)] == want, tag+": field clauses in order, group clauses last")
	}
}

// vCheckUnordered compares the multiset of rule invocations and the multiset of
// clauses (inputs containing maps with two or more entries: Go's iteration order is unspecified).
func vCheckUnordered(tag string, err error, r *vRef) {
	var want, got []string
	var wantClauses []string
	for _, e := range r.out {
		if e.isCall {
			want = append(want, e.obj+"|"+e.field+"|"+e.validName)
		} else {
			wantClauses = append(wantClauses, e.text)
		}
	}
	for _, c := range vULog {
		got = append(got, c.obj+"|"+c.field+"|"+c.validName)
		if c.failed {
			wantClauses = append(wantClauses, c.clause)
		}
	}
	vSortStrings(want)
	vSortStrings(got)
	vAssert(len(want) == len(got), tag+": number of rule evaluations")
	if len(want) != len(got) {
		return
	}
	for i := range want {
		vAssert(want[i] == got[i], tag+": set of (path, rule) evaluations")
	}
	wantClauses = append(wantClauses, r.groupClauses()...)
	var gotClauses []string
	if err != nil {
		gotClauses = strings.Split(err.Error(), ErrEndFlag)
		for i := range gotClauses {
			gotClauses[i] += ErrEndFlag
		}
	}
	// the members of a group clause are listed in registration order, which for map inputs is Go's
	// unspecified iteration order: compare group clauses with their member list sorted
	for i := range wantClauses {
		wantClauses[i] = vNormGroupClause(wantClauses[i])
	}
	for i := range gotClauses {
		gotClauses[i] = vNormGroupClause(gotClauses[i])
	}
	vSortStrings(wantClauses)
	vSortStrings(gotClauses)
	vAssert(len(wantClauses) == len(gotClauses), tag+": number of clauses")
	if len(wantClauses) != len(gotClauses) {
		return
	}
	for i := range wantClauses {
		vAssert(wantClauses[i] == gotClauses[i], tag+": set of clauses")
	}
}

func vSortStrings(a []string) {
	for i := 1; i < len(a); i++ {
		for j := i; j > 0 && a[j] < a[j-1]; j-- {
			a[j], a[j-1] = a[j-1], a[j]
		}
	}
}

// vSameValue: the walker handed the rule the value the reference expects (kind and content).
func vSameValue(got, want reflect.Value) bool {
	if !got.IsValid() || !want.IsValid() {
		return got.IsValid() == want.IsValid()
	}
	if got.Kind() == reflect.Interface && !got.IsNil() {
		got = got.Elem()
	}
	if want.Kind() == reflect.Interface && !want.IsNil() {
		want = want.Elem()
	}
	if got.Kind() != want.Kind() {
		return false
	}
	if !got.CanInterface() || !want.CanInterface() {
		return true
	}
	switch got.Kind() {
	case reflect.Func, reflect.Chan:
		return true
	case reflect.Float32, reflect.Float64:
		g, w := got.Float(), want.Float()
		return g == w || (g != g && w != w) // NaN is not DeepEqual to itself
	}
	return reflect.DeepEqual(got.Interface(), want.Interface())
}

func vNormGroupClause(c string) string {
	for _, suffix := range []string{" " + ExplainEn + " they shouldn't all be empty" + ErrEndFlag, " " + ExplainEn + " they should be equal" + ErrEndFlag} {
		if strings.HasSuffix(c, suffix) {
			names := strings.Split(c[:len(c)-len(suffix)], ", ")
			vSortStrings(names)
			return strings.Join(names, ", ") + suffix
		}
	}
	return c
}
