//go:build verif

package valid

import (
	"reflect"
	"strings"
	"time"
)

// C18: the same rule on the same value gives the same verdict through every
// entry point: struct field, Var, map[string]T, map[string]interface{},
// []map[string]T and, for strings, a URL query parameter (raw or
// percent-encoded, alone or with a second parameter in either order).

type vC18S struct{ F string }
type vC18I struct{ F int }
type vC18F struct{ F float64 }
type vC18U struct{ F uint8 }

var vC18Rules = []struct{ name, rule string }{
	{"required", "required"}, {"to", "to=1~2"}, {"ge", "ge=2"}, {"le", "le=1"}, {"oto", "oto=0~2"}, {"gt", "gt=1"}, {"lt", "lt=2"},
	{"eq", "eq=1"}, {"noeq", "noeq=1"}, {"in", "in=(a/b)"}, {"include", "include=(a/b)"}, {"phone", "phone"}, {"email", "email"},
	{"idcard", "idcard"}, {"year", "year"}, {"year2month", "year2month"}, {"date", "date"}, {"datetime", "datetime"}, {"int", "int"},
	{"ints", "ints"}, {"float", "float"}, {"re", "re='^a'"}, {"ip", "ip"}, {"ipv4", "ipv4"}, {"ipv6", "ipv6"}, {"unique", "unique"},
	{"json", "json"}, {"prefix", "prefix=a"}, {"suffix", "suffix=a"},
}

func vHex(n byte) byte { return byte(vIteInt(n > 9, int(n)+55, int(n)+48)) }

// vPctEncode: every byte as %XX (no forks)
func vPctEncode(s string) string {
	out := ""
	for i := 0; i < len(s); i++ {
		out += string([]byte{'%', vHex(s[i] >> 4), vHex(s[i] & 15)})
	}
	return out
}

// vFormEncode: application/x-www-form-urlencoded -- '+' for a blank, %XX for every other byte
func vFormEncode(s string) string {
	out := ""
	for i := 0; i < len(s); i++ {
		if s[i] == ' ' {
			out += "+"
		} else {
			out += string([]byte{'%', vHex(s[i] >> 4), vHex(s[i] & 15)})
		}
	}
	return out
}

func vC18String(i int, max int) {
	rule := vC18Rules[i].rule
	tag := "C18 " + vC18Rules[i].name + "/string"
	rm := NewRule().Set("k", rule)
	switch vndChoice("carrier", 10) {
	case 8: // form encoding: a blank travels as '+', every other byte as %XX
		v := vndString("v", max)
		want := Var(v, rule) != nil
		got := Url("http://h/p?k="+vFormEncode(v), rm) != nil
		vAssert(got == want, tag+": form-encoded URL parameter ('+' for a blank) vs Var")
	case 9: // a parameter name that needs encoding itself ("a b" written a+b or a%20b)
		v := vndString("v", max)
		want := Var(v, rule) != nil
		name := []string{"a+b", "a%20b", "%61%20b"}[vndChoice("name", 3)]
		got := Url("http://h/p?"+name+"="+vPctEncode(v), NewRule().Set("a b", rule)) != nil
		vAssert(got == want, tag+": URL parameter whose name is encoded vs Var")
	case 7: // the whole URL percent-encoded once (no literal '?'): decoded once, then split
		v := vndString("v", max)
		vAssume(vAnd(vAnd(vNoByte(v, '&'), vNoByte(v, '=')), vNoByte(v, '?')))
		want := Var(v, rule) != nil
		got := Url(vPctEncode("http://h/p?k="+v), rm) != nil
		vAssert(got == want, tag+": wholly percent-encoded URL vs Var")
	case 0: // struct field
		v := vndString("v", max)
		want := Var(v, rule) != nil
		got := Struct(&vC18S{F: v}, NewRule().Set("F", rule)) != nil
		vAssert(got == want, tag+": struct field vs Var")
	case 1:
		v := vndString("v", max)
		want := Var(v, rule) != nil
		got := Map(map[string]string{"k": v}, rm) != nil
		vAssert(got == want, tag+": map[string]string vs Var")
	case 2:
		v := vndString("v", max)
		want := Var(v, rule) != nil
		got := Map(map[string]interface{}{"k": v}, rm) != nil
		vAssert(got == want, tag+": map[string]interface{} vs Var")
	case 3:
		v := vndString("v", max)
		want := Var(v, rule) != nil
		got := Map([]map[string]string{{"k": v}}, rm) != nil
		vAssert(got == want, tag+": []map[string]string vs Var")
	case 4: // raw URL: bytes that need no encoding
		v := vPlainText("v", max)
		want := Var(v, rule) != nil
		got := Url("http://h/p?k="+v, rm) != nil
		vAssert(got == want, tag+": raw URL parameter vs Var")
	case 5: // percent-encoded, any bytes
		v := vndString("v", max)
		want := Var(v, rule) != nil
		got := Url("http://h/p?k="+vPctEncode(v), rm) != nil
		vAssert(got == want, tag+": percent-encoded URL parameter vs Var")
	case 6: // two parameters, either order
		v := vndString("v", max)
		want := Var(v, rule) != nil
		var u string
		if vndBool("first") {
			u = "h?k=" + vPctEncode(v) + "&j=1"
		} else {
			u = "h?j=1&k=" + vPctEncode(v)
		}
		got := Url(u, rm) != nil
		vAssert(got == want, tag+": URL with two parameters vs Var")
	}
	vReach("end")
}

var vC18NumRules = []struct{ name, rule string }{
	{"required", "required"}, {"to", "to=1~2"}, {"ge", "ge=2"}, {"le", "le=1"}, {"oto", "oto=0~2"}, {"gt", "gt=1"}, {"lt", "lt=2"},
	{"eq", "eq=1"}, {"noeq", "noeq=1"}, {"in", "in=(1/2)"}, {"int", "int"}, {"ints", "ints"}, {"float", "float"},
}

func vC18Num(i int) {
	rule := vC18NumRules[i].rule
	rm := NewRule().Set("k", rule)
	frm := NewRule().Set("F", rule)
	switch vndChoice("kind", 3) {
	case 0:
		tag := "C18 " + vC18NumRules[i].name + "/int"
		v := vndInt("v")
		want := Var(v, rule) != nil
		switch vndChoice("carrier", 4) {
		case 0:
			vAssert((Struct(&vC18I{F: v}, frm) != nil) == want, tag+": struct field vs Var")
		case 1:
			vAssert((Map(map[string]int{"k": v}, rm) != nil) == want, tag+": map[string]int vs Var")
		case 2:
			vAssert((Map(map[string]interface{}{"k": v}, rm) != nil) == want, tag+": map[string]interface{} vs Var")
		case 3:
			vAssert((Map([]map[string]int{{"k": v}}, rm) != nil) == want, tag+": []map[string]int vs Var")
		}
	case 1:
		tag := "C18 " + vC18NumRules[i].name + "/float64"
		v := vndFloat64("v")
		vAssume(vNot(vIsNaN(v)))
		want := Var(v, rule) != nil
		switch vndChoice("carrier", 3) {
		case 0:
			vAssert((Struct(&vC18F{F: v}, frm) != nil) == want, tag+": struct field vs Var")
		case 1:
			vAssert((Map(map[string]float64{"k": v}, rm) != nil) == want, tag+": map[string]float64 vs Var")
		case 2:
			vAssert((Map(map[string]interface{}{"k": v}, rm) != nil) == want, tag+": map[string]interface{} vs Var")
		}
	case 2:
		tag := "C18 " + vC18NumRules[i].name + "/uint8"
		v := vndUint8("v")
		want := Var(v, rule) != nil
		switch vndChoice("carrier", 3) {
		case 0:
			vAssert((Struct(&vC18U{F: v}, frm) != nil) == want, tag+": struct field vs Var")
		case 1:
			vAssert((Map(map[string]uint8{"k": v}, rm) != nil) == want, tag+": map[string]uint8 vs Var")
		case 2:
			vAssert((Map(map[string]interface{}{"k": v}, rm) != nil) == want, tag+": map[string]interface{} vs Var")
		}
	}
	vReach("end")
}

func H_C18_str_required()    { vC18String(0, 2) }
func H_C18T_str_required()   { vC18String(0, 3) }
func H_C18_str_to()          { vC18String(1, 2) }
func H_C18T_str_to()         { vC18String(1, 3) }
func H_C18_str_ge()          { vC18String(2, 2) }
func H_C18T_str_ge()         { vC18String(2, 3) }
func H_C18_str_le()          { vC18String(3, 2) }
func H_C18T_str_le()         { vC18String(3, 3) }
func H_C18_str_oto()         { vC18String(4, 2) }
func H_C18T_str_oto()        { vC18String(4, 3) }
func H_C18_str_gt()          { vC18String(5, 2) }
func H_C18T_str_gt()         { vC18String(5, 3) }
func H_C18_str_lt()          { vC18String(6, 2) }
func H_C18T_str_lt()         { vC18String(6, 3) }
func H_C18_str_eq()          { vC18String(7, 2) }
func H_C18T_str_eq()         { vC18String(7, 3) }
func H_C18_str_noeq()        { vC18String(8, 2) }
func H_C18T_str_noeq()       { vC18String(8, 3) }
func H_C18_str_in()          { vC18String(9, 2) }
func H_C18T_str_in()         { vC18String(9, 3) }
func H_C18_str_include()     { vC18String(10, 2) }
func H_C18T_str_include()    { vC18String(10, 3) }
func H_C18_str_phone()       { vC18String(11, 2) }
func H_C18T_str_phone()      { vC18String(11, 3) }
func H_C18_str_email()       { vC18String(12, 2) }
func H_C18T_str_email()      { vC18String(12, 3) }
func H_C18_str_idcard()      { vC18String(13, 2) }
func H_C18T_str_idcard()     { vC18String(13, 3) }
func H_C18_str_year()        { vC18String(14, 2) }
func H_C18T_str_year()       { vC18String(14, 3) }
func H_C18_str_year2month()  { vC18String(15, 2) }
func H_C18T_str_year2month() { vC18String(15, 3) }
func H_C18_str_date()        { vC18String(16, 2) }
func H_C18T_str_date()       { vC18String(16, 3) }
func H_C18_str_datetime()    { vC18String(17, 2) }
func H_C18T_str_datetime()   { vC18String(17, 3) }
func H_C18_str_int()         { vC18String(18, 2) }
func H_C18T_str_int()        { vC18String(18, 3) }
func H_C18_str_ints()        { vC18String(19, 2) }
func H_C18T_str_ints()       { vC18String(19, 3) }
func H_C18_str_float()       { vC18String(20, 2) }
func H_C18T_str_float()      { vC18String(20, 3) }
func H_C18_str_re()          { vC18String(21, 2) }
func H_C18T_str_re()         { vC18String(21, 3) }
func H_C18_str_ip()          { vC18String(22, 2) }
func H_C18T_str_ip()         { vC18String(22, 3) }
func H_C18_str_ipv4()        { vC18String(23, 2) }
func H_C18T_str_ipv4()       { vC18String(23, 3) }
func H_C18_str_ipv6()        { vC18String(24, 2) }
func H_C18T_str_ipv6()       { vC18String(24, 3) }
func H_C18_str_unique()      { vC18String(25, 2) }
func H_C18T_str_unique()     { vC18String(25, 3) }
func H_C18_str_json()        { vC18String(26, 2) }
func H_C18T_str_json()       { vC18String(26, 2) } // json.Valid is exact up to 2 bytes only
func H_C18_str_prefix()      { vC18String(27, 2) }
func H_C18T_str_prefix()     { vC18String(27, 3) }
func H_C18_str_suffix()      { vC18String(28, 2) }
func H_C18T_str_suffix()     { vC18String(28, 3) }
func H_C18_num_required()    { vC18Num(0) }
func H_C18_num_to()          { vC18Num(1) }
func H_C18_num_ge()          { vC18Num(2) }
func H_C18_num_le()          { vC18Num(3) }
func H_C18_num_oto()         { vC18Num(4) }
func H_C18_num_gt()          { vC18Num(5) }
func H_C18_num_lt()          { vC18Num(6) }
func H_C18_num_eq()          { vC18Num(7) }
func H_C18_num_noeq()        { vC18Num(8) }
func H_C18_num_in()          { vC18Num(9) }
func H_C18_num_int()         { vC18Num(10) }
func H_C18_num_ints()        { vC18Num(11) }
func H_C18_num_float()       { vC18Num(12) }

// every numeric kind through struct field, Var and map entry: zero is skipped, required fires on zero,
// a size rule judges the value
type vC18All struct {
	p   int // unexported fields and a time.Time before the fields under test
	T   time.Time
	I8  int8   `valid:"required,ge=3"`
	I16 int16  `valid:"required,ge=3"`
	I32 int32  `valid:"required,ge=3"`
	U16 uint16 `valid:"required,ge=3"`
	U32 uint32 `valid:"required,ge=3"`
	U64 uint64 `valid:"required,ge=3"`
	q   string
	F32 float32 `valid:"required,ge=3"`
	S   string  `valid:"required,ge=3"`
}

func vC18Verdicts(x interface{}) (string, string, string) {
	v := vErrText(Var(x, "required", "ge=3"))
	m := "?"
	switch y := x.(type) {
	case int8:
		m = vErrText(Map(map[string]int8{"k": y}, NewRule().Set("k", "required,ge=3")))
	case int16:
		m = vErrText(Map(map[string]int16{"k": y}, NewRule().Set("k", "required,ge=3")))
	case int32:
		m = vErrText(Map(map[string]int32{"k": y}, NewRule().Set("k", "required,ge=3")))
	case uint16:
		m = vErrText(Map(map[string]uint16{"k": y}, NewRule().Set("k", "required,ge=3")))
	case uint32:
		m = vErrText(Map(map[string]uint32{"k": y}, NewRule().Set("k", "required,ge=3")))
	case uint64:
		m = vErrText(Map([]map[string]uint64{{"k": y}}, NewRule().Set("k", "required,ge=3")))
	case float32:
		m = vErrText(Map(map[string]float32{"k": y}, NewRule().Set("k", "required,ge=3")))
	case string:
		m = vErrText(Map(map[string]string{"k": y}, NewRule().Set("k", "required,ge=3")))
	}
	return v, m, ""
}

func vClass(errText string) int {
	switch {
	case errText == "<nil>":
		return 0
	case strings.Contains(errText, "it is required"):
		return 1
	}
	return 2
}

func H_C18_all_kinds() {
	o := &vC18All{p: 1, q: "q", T: time.Unix(9, 0)}
	var x interface{}
	field := ""
	switch vndChoice("kind", 8) {
	case 0:
		o.I8 = vndInt8("x")
		x, field = o.I8, "I8"
	case 1:
		o.I16 = vndInt16("x")
		x, field = o.I16, "I16"
	case 2:
		o.I32 = vndInt32("x")
		x, field = o.I32, "I32"
	case 3:
		o.U16 = vndUint16("x")
		x, field = o.U16, "U16"
	case 4:
		o.U32 = vndUint32("x")
		x, field = o.U32, "U32"
	case 5:
		o.U64 = vndUint64("x")
		x, field = o.U64, "U64"
	case 6:
		o.F32 = vndFloat32("x")
		vAssume(vNot(vIsNaN(float64(o.F32))))
		x, field = o.F32, "F32"
	case 7:
		o.S = vndString("x", 4)
		x, field = o.S, "S"
	}
	// judge only the chosen field: every other field gets a rule set that removes its rules
	rm := RM{}
	for _, f := range []string{"I8", "I16", "I32", "U16", "U32", "U64", "F32", "S"} {
		if f != field {
			rm[f] = "ge=0"
		}
	}
	s := vErrText(Struct(o, rm))
	v, m, _ := vC18Verdicts(x)
	vAssert(vClass(s) == vClass(v), "C18 "+field+": struct field (after unexported and time.Time fields) vs Var")
	vAssert(vClass(m) == vClass(v), "C18 "+field+": map entry vs Var")
	vReach("end")
}

// a rule list: the same rules given to Var one per argument, joined in one argument, and as the tag /
// rule-map text of the other entry points; every carrier reports the same number of clauses
func H_C18_rule_lists() {
	lists := [][]string{{"ge=2", "le=1"}, {"required", "eq=5", "in=(a/b)"}, {"int", "prefix=a", "le=2|too long"}, {"ge=3", "", "re='^a,b'"}}
	rules := lists[vndChoice("list", len(lists))]
	joined := strings.Join(rules, ",")
	v := vndString("v", 2)
	want := vCountClauses(Var(v, rules...))
	tag := "C18 rule list " + joined
	switch vndChoice("carrier", 5) {
	case 0:
		vAssert(vCountClauses(Var(v, joined)) == want, tag+": Var with the list in one argument")
	case 1:
		vAssert(vCountClauses(NewVVar().SetRules(joined).Valid(v)) == want, tag+": VVar.SetRules with the list in one argument")
	case 2:
		vAssert(vCountClauses(Struct(&vC18S{F: v}, NewRule().Set("F", joined))) == want, tag+": struct field")
	case 3:
		vAssert(vCountClauses(Map(map[string]string{"k": v}, NewRule().Set("k", rules...))) == want, tag+": map entry")
	case 4:
		vAssert(vCountClauses(Url("h?k="+vPctEncode(v), NewRule().Set("k", joined))) == want, tag+": URL parameter")
	}
	vReach("end")
}

// the same rule list reaches Var through RM.Set (one rule per argument) and the other carriers through a
// tag-like text: lists in which one rule's text occurs inside another's (ints/int, le=100/le=10,
// year2month/year, a message mentioning a rule name)
func H_C18_rule_lists_contained() {
	lists := [][]string{{"ints", "int"}, {"le=100", "le=10"}, {"year2month", "year"}, {"ge=2|min 2 and int", "int"}, {"in=(ab/abc)", "in=(ab)"}}
	rules := lists[vndChoice("list", len(lists))]
	joined := strings.Join(rules, ",")
	v := []string{"abc", "12", "2020-01", "1,2", "x"}[vndChoice("v", 5)]
	want := vCountClauses(Struct(&vC18S{F: v}, RM{"F": joined}))
	tag := "C18 rule list " + joined
	switch vndChoice("carrier", 4) {
	case 0:
		vAssert(vCountClauses(Var(v, rules...)) == want, tag+": Var, one rule per argument")
	case 1:
		vAssert(vCountClauses(Struct(&vC18S{F: v}, NewRule().Set("F", rules...))) == want, tag+": struct field, rule map built with Set")
	case 2:
		rm := NewRule()
		for _, r := range rules {
			rm.Set("k", r)
		}
		vAssert(vCountClauses(Map(map[string]string{"k": v}, rm)) == want, tag+": map entry, one Set call per rule")
	case 3:
		vAssert(vCountClauses(Url("h?k="+vPctEncode(v), NewRule().Set("k", rules...))) == want, tag+": URL parameter")
	}
	vReach("end")
}

// ---- round 4 ----

// the verdict through the struct carrier is the rule's verdict whatever earlier calls did on the same type or
// with the same rule name: a call with a supplied rule, then a plain call judged by the tag rule; a variable
// validated with a per-call function named like a built-in, then the built-in through every carrier
type vC18Tagged struct {
	F string `valid:"int"`
}

func H_C18_struct_after_supplied_rule() {
	vPoolMode("lifo")
	v1, v2 := vndString("v1", 2), vndString("v2", 2)
	e1 := Struct(&vC18Tagged{F: v1}, NewRule().Set("F", "prefix=a"))
	vAssert((e1 != nil) == (Var(v1, "prefix=a") != nil), "C18 sequence: struct field under a supplied rule vs Var")
	e2 := Struct(&vC18Tagged{F: v2})
	vAssert((e2 != nil) == (Var(v2, "int") != nil), "C18 sequence: struct field under its tag rule after a call with a supplied rule vs Var")
	vReach("end")
}

func H_C18_builtin_after_local_fn() {
	vPoolMode("lifo")
	v1, v2 := vndString("v1", 2), vndString("v2", 2)
	vAssume(len(v1) > 0)
	always := func(errBuf *strings.Builder, validName, objName, fieldName string, tv reflect.Value) {
		errBuf.WriteString("local int says no" + ErrEndFlag)
	}
	switch vndChoice("first", 3) {
	case 0:
		e1 := NewVVar().SetValidFn("int", always).SetRules("int").Valid(v1)
		vAssert(e1 != nil, "C18 sequence: the per-call function decides its own call")
	case 1:
		e1 := StructForFns(&vC18S{F: v1}, NewRule().Set("F", "int"), Name2FnMap{"int": always})
		vAssert(e1 != nil, "C18 sequence: the per-call function decides its own call")
	case 2:
		e1 := MapFn(map[string]string{"k": v1}, NewRule().Set("k", "int"), Name2FnMap{"int": always})
		vAssert(e1 != nil, "C18 sequence: the per-call function decides its own call")
	}
	want := len(v2) > 0 && vRuleViolated(Int, "int", v2)
	rm := NewRule().Set("k", "int")
	switch vndChoice("second", 4) {
	case 0:
		vAssert((Var(v2, "int") != nil) == want, "C18 sequence: Var uses the built-in after a call with a per-call function of that name")
	case 1:
		vAssert((Struct(&vC18S{F: v2}, NewRule().Set("F", "int")) != nil) == want, "C18 sequence: Struct uses the built-in after a call with a per-call function of that name")
	case 2:
		vAssert((Map(map[string]string{"k": v2}, rm) != nil) == want, "C18 sequence: Map uses the built-in after a call with a per-call function of that name")
	case 3:
		vAssert((Url("h?k="+vPctEncode(v2), rm) != nil) == want, "C18 sequence: Url uses the built-in after a call with a per-call function of that name")
	}
	vReach("end")
}

// a wide message (70 fields, as protoc emits for large messages): the verdict on a field does not depend
// on how many fields stand before it; tags only, and again with a supplied rule for the last field
type vWide70 struct {
	F00 int `valid:"ge=5"`
	F01 int
	F02 int
	F03 int
	F04 int
	F05 int `valid:"ge=5"`
	F06 int
	F07 int
	F08 int
	F09 int
	F10 int
	F11 int
	F12 int
	F13 int
	F14 int
	F15 int
	F16 int
	F17 int
	F18 int
	F19 int
	F20 int
	F21 int
	F22 int
	F23 int
	F24 int
	F25 int
	F26 int
	F27 int
	F28 int
	F29 int
	F30 int
	F31 int
	F32 int
	F33 int
	F34 int
	F35 int
	F36 int
	F37 int
	F38 int
	F39 int
	F40 int
	F41 int
	F42 int
	F43 int
	F44 int
	F45 int
	F46 int
	F47 int
	F48 int
	F49 int
	F50 int
	F51 int
	F52 int
	F53 int
	F54 int
	F55 int
	F56 int
	F57 int
	F58 int
	F59 int
	F60 int
	F61 int
	F62 int `valid:"ge=5"`
	F63 int `valid:"ge=5"`
	F64 int `valid:"ge=5"`
	F65 int `valid:"ge=5"`
	F66 int
	F67 int
	F68 int
	F69 int `valid:"ge=5"`
}

func H_C18_wide_struct_positions() {
	o := &vWide70{}
	pick := func(n string) int { return []int{3, 7}[vndChoice(n, 2)] } // 3 violates ge=5, 7 does not
	vals := []int{pick("x00"), pick("x05"), pick("x62"), pick("x63"), pick("x64"), pick("x65"), pick("x69")}
	o.F00, o.F05, o.F62, o.F63, o.F64, o.F65, o.F69 = vals[0], vals[1], vals[2], vals[3], vals[4], vals[5], vals[6]
	o.F10, o.F40, o.F66 = 1, 2, 3 // untagged fields are never judged
	names := []string{"F00", "F05", "F62", "F63", "F64", "F65", "F69"}
	var err error
	if vndBool("withRM") {
		err = Struct(o, NewRule().Set("F69", "ge=5"))
	} else {
		err = Struct(o)
	}
	text := ""
	if err != nil {
		text = err.Error()
	}
	n := 0
	for i, name := range names {
		bad := Var(vals[i], "ge=5") != nil
		if bad {
			n++
		}
		vAssert(strings.Contains(text, "\"vWide70."+name+"\"") == bad, "C18 wide struct: field "+name+" has Var's verdict")
	}
	vAssert(vCountClauses(err) == n, "C18 wide struct: one clause per violated field, no other")
	vReach("end")
}
