//go:build verif

package valid

import "time"

// C04: nested validation reaches exactly the sub-objects marked with
// required/exist and names them Parent.Field, Parent.Field[i],
// Parent.Field[key]; untagged, unexported and time.Time fields are never
// entered. Rules only log here (the observable is the set of (path, rule)
// evaluations and the required clauses).

type vD3 struct {
	N string `valid:"r1"`
}

type vD2 struct {
	X  string `valid:"r2"`
	D  vD3    `valid:"required"`
	PD *vD3   `valid:"exist"`
	SD []vD3  `valid:"exist"`
}

func vD3Val(name string) vD3 { return vD3{N: vStr(name + ".N")} }

// vD2Val: structural nondeterminism (nil-ness, lengths) and symbolic leaves
func vD2Val(name string) vD2 {
	d := vD2{X: "x", D: vD3Val(name + ".D")}
	if vndBool(name + ".PD") {
		p := vD3{N: "n"}
		d.PD = &p
	}
	n := vndLen(name+".SD", 2)
	for i := 0; i < n; i++ {
		d.SD = append(d.SD, vD3{N: "s"})
	}
	return d
}

type vN1 struct {
	A vD2 `valid:"exist"`
	U vD2
	u vD2       `valid:"required"`
	T time.Time `valid:"required"`
	E vD2       `valid:"r3"`
}

type vN2 struct {
	P  **vD2  `valid:"exist"`
	L  []*vD2 `valid:"required"`
	PS *[]vD3 `valid:"exist"`
}

type vN3 struct {
	R  [2]vD2           `valid:"exist"`
	M  map[string]vD2   `valid:"exist"`
	MI map[int]*vD2     `valid:"required"`
	MS map[string][]vD3 `valid:"exist"`
}

type vEmb struct {
	Q string `valid:"r1"`
}

type vN4 struct {
	vEmb `valid:"exist"`
	Emb  vEmb        `valid:"required"`
	I    interface{} `valid:"exist"`
	S    []int       `valid:"exist"`
	PT   *time.Time  `valid:"exist"`
}

func vRunNested(tag string, src interface{}, unordered bool) {
	vUNoFail = true
	known := vGlobalRules()
	err := Struct(src)
	r := vNewRef()
	r.global = known
	r.top(src)
	if unordered {
		vCheckUnordered(tag, err, r)
	} else {
		vCheckAgainstRef(tag, err, r)
	}
	vReach("end")
}

func H_C04_n1() {
	o := &vN1{A: vD2Val("A"), U: vD2{X: "x"}, u: vD2{}, E: vD2{X: vStr("E.X")}}
	if vndBool("T") {
		o.T = time.Unix(5, 0)
	}
	vRunNested("C04 n1", o, false)
}

func H_C04_n2() {
	o := &vN2{}
	switch vndChoice("P", 3) {
	case 1:
		var p *vD2
		o.P = &p
	case 2:
		v := vD2Val("P")
		p := &v
		o.P = &p
	}
	n := vndLen("L", 2)
	for i := 0; i < n; i++ {
		if vndBool("L" + vNum(i) + ".nil") {
			o.L = append(o.L, nil)
		} else {
			v := vD2{X: vStr("L" + vNum(i) + ".X"), D: vD3{N: "n"}}
			o.L = append(o.L, &v)
		}
	}
	if vndBool("PS") {
		s := []vD3{vD3Val("PS0")}
		o.PS = &s
	}
	vRunNested("C04 n2", o, false)
}

func H_C04_n3a() {
	o := &vN3{MI: map[int]*vD2{3: {X: "x", D: vD3{N: "n"}}}}
	if vndBool("R") {
		o.R[1] = vD2Val("R1")
	}
	switch vndChoice("M", 3) {
	case 1:
		o.M = map[string]vD2{}
	case 2:
		o.M = map[string]vD2{"k": vD2Val("M")}
	}
	vRunNested("C04 n3a", o, false)
}

func H_C04_n3b() {
	o := &vN3{}
	switch vndChoice("MI", 3) {
	case 1:
		o.MI = map[int]*vD2{3: nil}
	case 2:
		v := vD2{X: vStr("MI.X"), D: vD3Val("MI.D")}
		o.MI = map[int]*vD2{3: &v}
	}
	if vndBool("MS") {
		o.MS = map[string][]vD3{"a": {vD3Val("MS0")}}
	}
	vRunNested("C04 n3b", o, false)
}

func H_C04_n4() {
	o := &vN4{vEmb: vEmb{Q: vStr("q")}, Emb: vEmb{Q: vStr("e")}}
	switch vndChoice("I", 3) {
	case 1:
		o.I = &vD3{N: "n"}
	case 2:
		o.I = vD3{N: vStr("i")}
	}
	if vndBool("S") {
		o.S = []int{1, 2}
	}
	if vndBool("PT") {
		t := time.Unix(7, 0)
		o.PT = &t
	}
	vRunNested("C04 n4", o, false)
}

// maps with two entries: compared as multisets
func H_C04_map2() {
	o := &vN3{M: map[string]vD2{"a": vD2Val("a"), "b": {X: vStr("b.X"), D: vD3{N: "n"}}}, MI: map[int]*vD2{1: nil, 2: {X: "x", D: vD3Val("mi")}}}
	vRunNested("C04 two-entry maps", o, true)
}

// top-level collections
func H_C04_top_slice() {
	var s []*vN2
	n := vndLen("n", 2)
	for i := 0; i < n; i++ {
		if vndBool("nil" + vNum(i)) {
			s = append(s, nil)
			continue
		}
		v := vD2{X: vStr("X" + vNum(i)), D: vD3{N: "n"}}
		s = append(s, &vN2{L: []*vD2{&v}})
	}
	vRunNested("C04 top []*T", s, false)
}

func H_C04_top_map() {
	m := map[string]*vN1{}
	switch vndChoice("m", 3) {
	case 1:
		m["k"] = nil
	case 2:
		m["k"] = &vN1{A: vD2Val("A")}
	}
	vRunNested("C04 top map[string]*T", m, false)
}

func H_C04_top_array() {
	vRunNested("C04 top [2]T", [2]vN2{{}, {L: []*vD2{{X: vStr("x"), D: vD3Val("d")}}}}, false)
}

func H_C04_top_map2() {
	m := map[int]vN2{1: {L: []*vD2{{X: vStr("x1"), D: vD3{N: "n"}}}}, 2: {L: []*vD2{{X: "x", D: vD3Val("d2")}}}}
	vRunNested("C04 top two-entry map", m, true)
}

// one sub-object reachable over several marked paths (a DAG, not a cycle): validated under every path
type vN5 struct {
	P *vD2            `valid:"exist"`
	Q *vD2            `valid:"required"`
	L []*vD2          `valid:"exist"`
	M map[string]*vD2 `valid:"exist"`
}

func H_C04_shared() {
	s := &vD2{X: vStr("X"), D: vD3Val("D")}
	o := &vN5{P: s, Q: s}
	if vndBool("inSlice") {
		o.L = []*vD2{s, s}
	}
	if vndBool("inMap") {
		o.M = map[string]*vD2{"k": s}
	}
	vRunNested("C04 shared sub-object", o, false)
}

// int-, uint8- and bool-keyed maps under a marked field: Parent.Field[key]
type vN6 struct {
	I map[int]vD3   `valid:"exist"`
	U map[uint8]vD3 `valid:"required"`
	B map[bool]*vD3 `valid:"exist"`
}

func H_C04_map_keys() {
	o := &vN6{I: map[int]vD3{42: vD3Val("I")}, U: map[uint8]vD3{7: vD3Val("U")}, B: map[bool]*vD3{true: {N: vStr("B")}}}
	vRunNested("C04 non-string map keys", o, false)
}
