//go:build verif

package valid

import "time"

// C04: nested validation reaches exactly the sub-objects marked with
// required/exist and names them Parent.Field, Parent.Field[i],
// Parent.Field[key]; untagged, unexported and time.Time fields are never
// entered. Rules only log here (the observable is the set of (path, rule)
// evaluations and the required clauses).

type vD3 struct {
	N string `valid:"r1"`
}

type vD2 struct {
	X  string `valid:"r2"`
	D  vD3    `valid:"required"`
	PD *vD3   `valid:"exist"`
	SD []vD3  `valid:"exist"`
}

func vD3Val(name string) vD3 { return vD3{N: vStr(name + ".N")} }

// vD2Val: structural nondeterminism (nil-ness, lengths) and symbolic leaves
func vD2Val(name string) vD2 {
	d := vD2{X: "x", D: vD3Val(name + ".D")}
	if vndBool(name + ".PD") {
		p := vD3{N: "n"}
		d.PD = &p
	}
	n := vndLen(name+".SD", 2)
	for i := 0; i < n; i++ {
		d.SD = append(d.SD, vD3{N: "s"})
	}
	return d
}

type vN1 struct {
	A vD2 `valid:"exist"`
	U vD2
	u vD2       `valid:"required"`
	T time.Time `valid:"required"`
	E vD2       `valid:"r3"`
}

type vN2 struct {
	P  **vD2  `valid:"exist"`
	L  []*vD2 `valid:"required"`
	PS *[]vD3 `valid:"exist"`
}

type vN3 struct {
	R  [2]vD2           `valid:"exist"`
	M  map[string]vD2   `valid:"exist"`
	MI map[int]*vD2     `valid:"required"`
	MS map[string][]vD3 `valid:"exist"`
}

type vEmb struct {
	Q string `valid:"r1"`
}

type vN4 struct {
	vEmb `valid:"exist"`
	Emb  vEmb        `valid:"required"`
	I    interface{} `valid:"exist"`
	S    []int       `valid:"exist"`
	PT   *time.Time  `valid:"exist"`
}

func vRunNested(tag string, src interface{}, unordered bool) {
	vUNoFail = true
	known := vGlobalRules()
	err := Struct(src)
	r := vNewRef()
	r.global = known
	r.top(src)
	if unordered {
		vCheckUnordered(tag, err, r)
	} else {
		vCheckAgainstRef(tag, err, r)
	}
	vReach("end")
}

func H_C04_n1() {
	o := &vN1{A: vD2Val("A"), U: vD2{X: "x"}, u: vD2{}, E: vD2{X: vStr("E.X")}}
	if vndBool("T") {
		o.T = time.Unix(5, 0)
	}
	vRunNested("C04 n1", o, false)
}

func H_C04_n2() {
	o := &vN2{}
	switch vndChoice("P", 3) {
	case 1:
		var p *vD2
		o.P = &p
	case 2:
		v := vD2Val("P")
		p := &v
		o.P = &p
	}
	n := vndLen("L", 2)
	for i := 0; i < n; i++ {
		if vndBool("L" + vNum(i) + ".nil") {
			o.L = append(o.L, nil)
		} else {
			v := vD2{X: vStr("L" + vNum(i) + ".X"), D: vD3{N: "n"}}
			o.L = append(o.L, &v)
		}
	}
	if vndBool("PS") {
		s := []vD3{vD3Val("PS0")}
		o.PS = &s
	}
	vRunNested("C04 n2", o, false)
}

func H_C04_n3a() {
	o := &vN3{MI: map[int]*vD2{3: {X: "x", D: vD3{N: "n"}}}}
	if vndBool("R") {
		o.R[1] = vD2Val("R1")
	}
	switch vndChoice("M", 3) {
	case 1:
		o.M = map[string]vD2{}
	case 2:
		o.M = map[string]vD2{"k": vD2Val("M")}
	}
	vRunNested("C04 n3a", o, false)
}

func H_C04_n3b() {
	o := &vN3{}
	switch vndChoice("MI", 3) {
	case 1:
		o.MI = map[int]*vD2{3: nil}
	case 2:
		v := vD2{X: vStr("MI.X"), D: vD3Val("MI.D")}
		o.MI = map[int]*vD2{3: &v}
	}
	if vndBool("MS") {
		o.MS = map[string][]vD3{"a": {vD3Val("MS0")}}
	}
	vRunNested("C04 n3b", o, false)
}

func H_C04_n4() {
	o := &vN4{vEmb: vEmb{Q: vStr("q")}, Emb: vEmb{Q: vStr("e")}}
	switch vndChoice("I", 3) {
	case 1:
		o.I = &vD3{N: "n"}
	case 2:
		o.I = vD3{N: vStr("i")}
	}
	if vndBool("S") {
		o.S = []int{1, 2}
	}
	if vndBool("PT") {
		t := time.Unix(7, 0)
		o.PT = &t
	}
	vRunNested("C04 n4", o, false)
}

// maps with two entries: compared as multisets
func H_C04_map2() {
	o := &vN3{M: map[string]vD2{"a": vD2Val("a"), "b": {X: vStr("b.X"), D: vD3{N: "n"}}}, MI: map[int]*vD2{1: nil, 2: {X: "x", D: vD3Val("mi")}}}
	vRunNested("C04 two-entry maps", o, true)
}

// top-level collections
func H_C04_top_slice() {
	var s []*vN2
	n := vndLen("n", 2)
	for i := 0; i < n; i++ {
		if vndBool("nil" + vNum(i)) {
			s = append(s, nil)
			continue
		}
		v := vD2{X: vStr("X" + vNum(i)), D: vD3{N: "n"}}
		s = append(s, &vN2{L: []*vD2{&v}})
	}
	vRunNested("C04 top []*T", s, false)
}

func H_C04_top_map() {
	m := map[string]*vN1{}
	switch vndChoice("m", 3) {
	case 1:
		m["k"] = nil
	case 2:
		m["k"] = &vN1{A: vD2Val("A")}
	}
	vRunNested("C04 top map[string]*T", m, false)
}

func H_C04_top_array() {
	vRunNested("C04 top [2]T", [2]vN2{{}, {L: []*vD2{{X: vStr("x"), D: vD3Val("d")}}}}, false)
}

func H_C04_top_map2() {
	m := map[int]vN2{1: {L: []*vD2{{X: vStr("x1"), D: vD3{N: "n"}}}}, 2: {L: []*vD2{{X: "x", D: vD3Val("d2")}}}}
	vRunNested("C04 top two-entry map", m, true)
}

// one sub-object reachable over several marked paths (a DAG, not a cycle): validated under every path
type vN5 struct {
	P *vD2            `valid:"exist"`
	Q *vD2            `valid:"required"`
	L []*vD2          `valid:"exist"`
	M map[string]*vD2 `valid:"exist"`
}

func H_C04_shared() {
	s := &vD2{X: vStr("X"), D: vD3Val("D")}
	o := &vN5{P: s, Q: s}
	if vndBool("inSlice") {
		o.L = []*vD2{s, s}
	}
	if vndBool("inMap") {
		o.M = map[string]*vD2{"k": s}
	}
	vRunNested("C04 shared sub-object", o, false)
}

// int-, uint8- and bool-keyed maps under a marked field: Parent.Field[key]
type vN6 struct {
	I map[int]vD3   `valid:"exist"`
	U map[uint8]vD3 `valid:"required"`
	B map[bool]*vD3 `valid:"exist"`
}

func H_C04_map_keys() {
	o := &vN6{I: map[int]vD3{42: vD3Val("I")}, U: map[uint8]vD3{7: vD3Val("U")}, B: map[bool]*vD3{true: {N: vStr("B")}}}
	vRunNested("C04 non-string map keys", o, false)
}

// "to any depth": a chain of sub-objects reached alternately through a pointer, a slice, a map and a
// value-array field; every level carries a rule and a required leaf
type vChain struct {
	N  string            `valid:"r1"`
	P  *vChain           `valid:"exist"`
	S  []*vChain         `valid:"required"`
	M  map[string]vChain `valid:"exist"`
	PP **vChain          `valid:"exist"`
}

// vMkChain builds a chain of the given number of levels below the top object; way selects the link kind per level.
func vMkChain(levels int, way func(level int) int, leaf string) *vChain {
	cur := &vChain{N: leaf, S: []*vChain{}}
	for l := levels; l >= 1; l-- {
		up := &vChain{N: "n"}
		switch way(l) {
		case 0:
			up.P = cur
			up.S = []*vChain{nil}
		case 1:
			up.S = []*vChain{cur}
		case 2:
			up.M = map[string]vChain{"k": *cur}
			up.S = []*vChain{nil}
		default:
			p := cur
			up.PP = &p
			up.S = []*vChain{nil}
		}
		cur = up
	}
	return cur
}

func vC04Deep(levels int) {
	mode := vndChoice("links", 3)
	o := vMkChain(levels, func(l int) int {
		switch mode {
		case 0:
			return 0
		case 1:
			return 1
		}
		return l % 4
	}, vStr("leaf"))
	vRunNested("C04 chain of "+vNum(levels)+" levels", o, false)
}

func H_C04_deep40()   { vC04Deep(40) }
func H_C04T_deep120() { vC04Deep(120) }

// collections whose elements are multi-level pointers to structs
type vN7 struct {
	S  []**vD3          `valid:"exist"`
	A  [2]**vD3         `valid:"required"`
	M  map[string]**vD3 `valid:"exist"`
	S3 []***vD3         `valid:"required"`
	PS *[]**vD3         `valid:"exist"`
}

func vPP(v vD3) **vD3 { p := &v; return &p }

func H_C04_multi_ptr_elems() {
	o := &vN7{}
	if vndBool("S") {
		var nilp *vD3
		o.S = []**vD3{vPP(vD3Val("S0")), nil, &nilp}
	}
	o.A[1] = vPP(vD3Val("A1"))
	if vndBool("M") {
		o.M = map[string]**vD3{"k": vPP(vD3Val("M"))}
	}
	pp := vPP(vD3Val("S3"))
	o.S3 = []***vD3{&pp}
	if vndBool("PS") {
		s := []**vD3{vPP(vD3Val("PS0"))}
		o.PS = &s
	}
	vRunNested("C04 collections of **T / ***T", o, false)
}

// a rule set given without a type names fields of the outermost struct only: nested types that happen to
// have fields of the same name keep their tag rules (and their marked sub-objects stay reachable)
type vN8In struct {
	Tags []vD3  `valid:"exist"`
	X    string `valid:"r2"`
	Ex   vD3
}

type vN8 struct {
	Tags []vD3  `valid:"required"`
	X    string `valid:"r1"`
	Ex   vD3
	In   vN8In   `valid:"required"`
	L    []vN8In `valid:"exist"`
}

func H_C04_unscoped_same_names() {
	vUNoFail = true
	known := vGlobalRules()
	o := &vN8{Tags: []vD3{vD3Val("t")}, X: "x", Ex: vD3{N: "e"}, In: vN8In{Tags: []vD3{vD3Val("it")}, X: "x", Ex: vD3{N: "e"}}, L: []vN8In{{Tags: []vD3{{N: "n"}}, X: vStr("lx")}}}
	rms := []RM{{"Tags": "r3", "X": "r3"}, {"Ex": "exist"}, {"Tags": "exist", "Ex": "required", "X": "required"}}
	rm := rms[vndChoice("rm", len(rms))]
	err := Struct(o, vCopyRM(rm))
	r := vNewRef()
	r.global = known
	r.unscoped = rm
	r.top(o)
	vCheckAgainstRef("C04 unscoped rule set vs same-named nested fields", err, r)
	vReach("end")
}

// pointers into an object that is itself being validated (its first array element, its first field,
// a later element): each marked path is validated and named on its own
type vN9 struct {
	Items   [2]vD3    `valid:"exist"`
	Current *vD3      `valid:"exist"`
	Other   *vD3      `valid:"required"`
	Self    *vN9First `valid:"exist"`
}

type vN9First struct {
	Head vD3    `valid:"exist"`
	P    *vD3   `valid:"exist"`
	X    string `valid:"r2"`
}

func H_C04_interior_pointers() {
	o := &vN9{Items: [2]vD3{vD3Val("I0"), vD3Val("I1")}}
	o.Current = &o.Items[0] // same address as o itself (first field, first element)
	o.Other = &o.Items[1]
	f := &vN9First{Head: vD3Val("H"), X: "x"}
	f.P = &f.Head // same address as f
	o.Self = f
	vRunNested("C04 pointers into the object being validated", o, false)
}

// by-value struct elements of a map, each with groups of its own: every entry is judged on its own values
type vN10 struct {
	Contacts map[string]vG2 `valid:"exist"`
	Pairs    map[int]vGS    `valid:"required"`
}

func H_C04_map_values_with_groups() {
	o := &vN10{
		Contacts: map[string]vG2{"a": {A: vStr("aA"), Z: "z"}, "b": {B: vStr("bB"), Z: "z"}, "c": {Z: "z"}},
		Pairs:    map[int]vGS{1: {A: vStr("p1A"), B: "x"}, 2: {A: "y", B: "y"}},
	}
	vRunNested("C04 map of struct values with groups", o, true)
}

// ---- round 4 ----

// which sub-objects are marked is decided per call: a call that marks an untagged field (and unmarks a tagged
// one) through a supplied rule set, then a plain call on the same type, then the supplied rules again; every
// call is compared with the reference on its own arguments
type vN20 struct {
	A vD2 `valid:"exist"`
	U vD2
	P *vD2
	L []vD3 `valid:"required"`
}

func vN20Val(name string) *vN20 {
	o := &vN20{A: vD2{X: "x", D: vD3{N: "a"}}, U: vD2{X: "u", D: vD3{N: vStr(name + ".U.D.N")}}}
	if vndBool(name + ".P") {
		o.P = &vD2{X: "p", D: vD3{N: "n"}}
	}
	if vndBool(name + ".L") {
		o.L = []vD3{{N: "l"}}
	}
	return o
}

func vC04MarksPerCall(calls []int) {
	vUNoFail = true
	known := vGlobalRules()
	rm := NewRule().Set("U", "exist").Set("P", "required").Set("A", "r1").Set("L", "r2")
	for i, withRules := range calls {
		o := vN20Val("o" + vNum(i))
		vULog = nil
		var err error
		r := vNewRef()
		r.global = known
		if withRules == 1 {
			err = Struct(o, rm)
			r.unscoped = rm
		} else {
			err = Struct(o)
		}
		r.top(o)
		vCheckAgainstRef("C04 marks per call, call "+vNum(i), err, r)
	}
	vReach("end")
}

func H_C04_marks_per_call_rp()  { vC04MarksPerCall([]int{1, 0}) }
func H_C04_marks_per_call_pr()  { vC04MarksPerCall([]int{0, 1}) }
func H_C04_marks_per_call_rpr() { vC04MarksPerCall([]int{1, 0, 1}) }

// the path of an element is the path of that element: nil elements before a populated one in a top-level
// slice / array, several failing elements with groups of their own in a nested slice
func H_C04_paths_after_nil_elements() {
	v := vD2Val("e")
	switch vndChoice("shape", 4) {
	case 0:
		vRunNested("C04 top []*T{nil, x}", []*vD2{nil, &v}, false)
	case 1:
		vRunNested("C04 top []*T{nil, nil, x}", []*vD2{nil, nil, &v}, false)
	case 2:
		vRunNested("C04 top [2]*T{nil, x}", [2]*vD2{nil, &v}, false)
	case 3:
		w := vD2Val("f")
		vRunNested("C04 top []*T{x, nil, y}", []*vD2{&v, nil, &w}, false)
	}
}
