//go:build verif

package valid

// C10: the LRU under concurrent use. Two (quick) or three (thorough)
// goroutines each issue one operation on a cache pre-filled as in C09; every
// interleaving at the granularity of lock operations is explored. Obligations:
// no data race (happens-before, vector clocks), no panic, no deadlock, results
// equal those of some sequential order of the operations, and at quiescence
// the state abstracts to the reference LRU after that order.

type vOp struct {
	kind int // 0 Store 1 Load 2 Delete 3 Len 4 Dump
	k, v int
	// results
	got  int
	ok   bool
	n    int
	dump string
}

var vOpNames = []string{"Store", "Load", "Delete", "Len", "Dump"}

func (o *vOp) run(l *LRUCache) {
	switch o.kind {
	case 0:
		l.Store(o.k, o.v)
	case 1:
		g, ok := l.Load(o.k)
		o.ok = ok
		if ok {
			o.got = g.(int)
		}
	case 2:
		l.Delete(o.k)
	case 3:
		o.n = l.Len()
	case 4:
		o.dump = l.Dump()
	}
}

// refRun applies o to the reference and reports whether the recorded results match.
func (o *vOp) refRun(r *vRefLRU) bool {
	switch o.kind {
	case 0:
		r.store(o.k, o.v)
		return true
	case 1:
		w, ok := r.load(o.k)
		if ok != o.ok {
			return false
		}
		return !ok || vSameInt(w, o.got)
	case 2:
		r.del(o.k)
		return true
	case 3:
		return o.n == len(r.items)
	default:
		want := ""
		for i, it := range r.items {
			if i > 0 {
				want += "\n"
			}
			want += ToStr(it.v)
		}
		return o.dump == want
	}
}

func vSameInt(a, b int) bool { return a == b }

// vMatches: the final state as the public API shows it (Len and the recency-ordered Dump; values are
// distinct per store in these harnesses) abstracts to ref (a predicate, no assertion).
func vMatches(dump string, n int, ref *vRefLRU) bool {
	return n == len(ref.items) && dump == vRefDump(ref)
}

func vCopyRef(c int, items []vKV) *vRefLRU {
	return &vRefLRU{cap: c, items: append([]vKV(nil), items...)}
}

func vC10Pre() (int, []vKV) {
	c := 1 + vndChoice("cap", 2) // capacity 1..2
	n := vndLen("n", c)
	// concrete distinct keys 1,2 and symbolic values keep the state space small; operation keys are symbolic
	items := make([]vKV, n)
	for i := 0; i < n; i++ {
		items[i] = vKV{i + 1, 10 + i}
	}
	return c, items
}

func vC10Key(name string) int {
	k := vndInt(name)
	vAssume(vAnd(k >= 1, k <= 3)) // two keys that may be present, one that is not
	return k
}

func vC10Two(ka, kb int) {
	c, items := vC10Pre()
	var log []vKV
	l := vMkLRU(c, items, 0, &log)
	a := &vOp{kind: ka, k: vC10Key("ka"), v: 77}
	b := &vOp{kind: kb, k: vC10Key("kb"), v: 88}
	vGo(func() { a.run(l) })
	vGo(func() { b.run(l) })
	vJoin()
	dump, n := l.Dump(), l.Len()
	// some sequential order explains the results and the final state
	r1 := vCopyRef(c, items)
	ok1 := a.refRun(r1)
	ok1 = b.refRun(r1) && ok1
	ok1 = ok1 && vMatches(dump, n, r1)
	r2 := vCopyRef(c, items)
	ok2 := b.refRun(r2)
	ok2 = a.refRun(r2) && ok2
	ok2 = ok2 && vMatches(dump, n, r2)
	vAssert(ok1 || ok2, "C10 "+vOpNames[ka]+"||"+vOpNames[kb]+": results and final state agree with some sequential order")
	vAssert(l.Len() >= 0 && l.Len() <= c, "C10 "+vOpNames[ka]+"||"+vOpNames[kb]+": capacity bound and consistency at quiescence")
	vReach("end")
}

func H_C10_store_store()   { vC10Two(0, 0) }
func H_C10_store_load()    { vC10Two(0, 1) }
func H_C10_store_delete()  { vC10Two(0, 2) }
func H_C10_store_len()     { vC10Two(0, 3) }
func H_C10_store_dump()    { vC10Two(0, 4) }
func H_C10_load_load()     { vC10Two(1, 1) }
func H_C10_load_delete()   { vC10Two(1, 2) }
func H_C10_load_len()      { vC10Two(1, 3) }
func H_C10_load_dump()     { vC10Two(1, 4) }
func H_C10_delete_delete() { vC10Two(2, 2) }
func H_C10_delete_len()    { vC10Two(2, 3) }
func H_C10_delete_dump()   { vC10Two(2, 4) }
func H_C10_len_len()       { vC10Two(3, 3) }
func H_C10_len_dump()      { vC10Two(3, 4) }
func H_C10_dump_dump()     { vC10Two(4, 4) }

// three goroutines, one operation each
func vC10Three(ka, kb, kc int) {
	c, items := vC10Pre()
	var log []vKV
	l := vMkLRU(c, items, 0, &log)
	ops := []*vOp{{kind: ka, k: vC10Key("ka"), v: 77}, {kind: kb, k: vC10Key("kb"), v: 88}, {kind: kc, k: vC10Key("kc"), v: 99}}
	for _, o := range ops {
		o := o
		vGo(func() { o.run(l) })
	}
	vJoin()
	dump, n := l.Dump(), l.Len()
	perms := [][]int{{0, 1, 2}, {0, 2, 1}, {1, 0, 2}, {1, 2, 0}, {2, 0, 1}, {2, 1, 0}}
	any := false
	for _, p := range perms {
		r := vCopyRef(c, items)
		ok := true
		for _, i := range p {
			ok = ops[i].refRun(r) && ok
		}
		any = any || (ok && vMatches(dump, n, r))
	}
	vAssert(any, "C10 three goroutines: results and final state agree with some sequential order")
	vAssert(l.Len() >= 0 && l.Len() <= c, "C10 three goroutines: capacity bound and consistency at quiescence")
	vReach("end")
}

func H_C10T_store_load_delete() { vC10Three(0, 1, 2) }
func H_C10T_store_store_load()  { vC10Three(0, 0, 1) }
func H_C10T_store_len_dump()    { vC10Three(0, 3, 4) }
func H_C10T_load_load_delete()  { vC10Three(1, 1, 2) }
func H_C10T_store_delete_len()  { vC10Three(0, 2, 3) }

// two goroutines, two operations each
func H_C10T_two_by_two() {
	c, items := vC10Pre()
	var log []vKV
	l := vMkLRU(c, items, 0, &log)
	a1 := &vOp{kind: 0, k: vC10Key("ka"), v: 77}
	a2 := &vOp{kind: 1, k: vC10Key("kb")}
	b1 := &vOp{kind: 2, k: vC10Key("kc")}
	b2 := &vOp{kind: 3}
	vGo(func() { a1.run(l); a2.run(l) })
	vGo(func() { b1.run(l); b2.run(l) })
	vJoin()
	dump, n := l.Dump(), l.Len()
	// interleavings that keep each goroutine's program order
	orders := [][]*vOp{{a1, a2, b1, b2}, {a1, b1, a2, b2}, {a1, b1, b2, a2}, {b1, a1, a2, b2}, {b1, a1, b2, a2}, {b1, b2, a1, a2}}
	any := false
	for _, ord := range orders {
		r := vCopyRef(c, items)
		ok := true
		for _, o := range ord {
			ok = o.refRun(r) && ok
		}
		any = any || (ok && vMatches(dump, n, r))
	}
	vAssert(any, "C10 2x2: results and final state agree with some interleaving that respects program order")
	vReach("end")
}

// ---- round 4 ----

// the same pairs on a cache whose rebuild counter stands at the threshold (2c+1 Store/Delete pairs on a private
// key beforehand: the next removal rebuilds the index) or one before it; additionally every key stays loadable
// after the goroutines have finished (a Store that returned and was not deleted or evicted is found)
func vC10TwoAt(ka, kb int) {
	c, items := vC10Pre()
	pump := 2*c + vndChoice("pump", 2)
	var log []vKV
	l := vMkLRU(c, items, pump, &log)
	a := &vOp{kind: ka, k: vC10Key("ka"), v: 77}
	b := &vOp{kind: kb, k: vC10Key("kb"), v: 88}
	vGo(func() { a.run(l) })
	vGo(func() { b.run(l) })
	vJoin()
	dump, n := l.Dump(), l.Len()
	r1 := vCopyRef(c, items)
	ok1 := a.refRun(r1)
	ok1 = b.refRun(r1) && ok1
	ok1 = ok1 && vMatches(dump, n, r1)
	r2 := vCopyRef(c, items)
	ok2 := b.refRun(r2)
	ok2 = a.refRun(r2) && ok2
	ok2 = ok2 && vMatches(dump, n, r2)
	tag := "C10 " + vOpNames[ka] + "||" + vOpNames[kb] + " at the rebuild threshold"
	vAssert(ok1 || ok2, tag+": results and final state agree with some sequential order")
	vAssert(n >= 0 && n <= c, tag+": capacity bound and consistency at quiescence")
	// afterwards, sequentially: the live keys of the matching order are all found, the others are not
	ref := r1
	if !ok1 {
		ref = r2
	}
	if ok1 || ok2 {
		for k := 1; k <= 3; k++ {
			live := ref.find(k) >= 0
			_, hit := l.Load(k)
			vAssert(hit == live, tag+": afterwards a key is found exactly when it is live")
		}
		vAssert(l.Len() == len(ref.items), tag+": Len afterwards")
	}
	vReach("end")
}

func H_C10_at_store_store()   { vC10TwoAt(0, 0) }
func H_C10_at_store_delete()  { vC10TwoAt(0, 2) }
func H_C10_at_delete_delete() { vC10TwoAt(2, 2) }
func H_C10_at_store_load()    { vC10TwoAt(0, 1) }
func H_C10_at_delete_load()   { vC10TwoAt(2, 1) }
func H_C10_at_store_len()     { vC10TwoAt(0, 3) }
func H_C10_at_delete_len()    { vC10TwoAt(2, 3) }
func H_C10_at_delete_dump()   { vC10TwoAt(2, 4) }
