//go:build verif

package valid

import (
	"reflect"
	"strings"
)

// C11: concurrent validations do not interfere. Two goroutines run one
// validation call each (from a catalogue over shared and private struct
// types, tag names, rule overrides, per-call functions, Var, Map, Url) against
// a small shared type cache (capacity 1, so entries are evicted and
// re-analysed while the other call runs). Every interleaving at the
// granularity of the cache's lock operations is explored; every heap cell,
// map, package-level variable and pooled object is checked for data races by
// happens-before; each call's error text must equal what the same call
// returns when run alone.

type vP1 struct {
	A string `valid:"required,to=1~2" alt:"ge=2"`
	B int    `valid:"le=5" alt:"required"`
}

type vP2 struct {
	A string `valid:"phone|need phone"`
	N vP1    `valid:"exist"`
}

func vErrText(err error) string {
	if err == nil {
		return "<nil>"
	}
	return err.Error()
}

// vC11Call returns catalogue call k over fresh symbolic inputs as a repeatable closure.
func vC11Call(k int, idx string) func() string {
	switch k {
	case 0:
		a, b := vStr("A"+idx), vndInt("B"+idx)
		return func() string { return vErrText(Struct(&vP1{A: a, B: b})) }
	case 1:
		a, b := vStr("A"+idx), vndInt("B"+idx)
		return func() string { return vErrText(ValidateStruct(&vP1{A: a, B: b}, "alt")) }
	case 2:
		a := vStr("A" + idx)
		return func() string {
			return vErrText(Struct(&vP2{A: "x", N: vP1{A: a, B: 9}}, RM{"A": "required|own rule"}))
		}
	case 3:
		a := vStr("A" + idx)
		return func() string {
			calls := 0
			fn := func(errBuf *strings.Builder, validName, objName, fieldName string, tv reflect.Value) {
				calls++
				errBuf.WriteString(GetJoinValidErrStr(objName, fieldName, tv.String(), "explain: private "+idx))
			}
			return vErrText(StructForFns(&vP1{A: a, B: 1}, RM{"A": "own"}, Name2FnMap{"own": fn}))
		}
	case 4:
		s := vStr("s" + idx)
		return func() string { return vErrText(Var(s, "required", "ge=2|too short")) }
	case 5:
		s := vStr("m" + idx)
		return func() string {
			return vErrText(Map(map[string]string{"k": s}, NewRule().Set("k", "required,ge=2")))
		}
	case 6:
		s := vPlainText("u"+idx, 1)
		return func() string { return vErrText(Url("h?k="+s, NewRule().Set("k", "required,ge=2"))) }
	case 7:
		a := vStr("A" + idx)
		return func() string { return vErrText(StructForFn(&vP1{A: a, B: 9}, RM{"B": "le=3|B too big"}, "alt")) }
	case 8:
		a := vStr("A" + idx)
		return func() string {
			return vErrText(NestedStructForRule(&vP2{A: "13800000000", N: vP1{A: a, B: 1}}, map[interface{}]RM{&vP1{}: {"A": "required|nested own rule"}}))
		}
	case 9:
		a := vStr("A" + idx)
		return func() string { return vErrText(ValidStructForRule(RM{"A": "eq=1|one char"}, &vP1{A: a, B: 1})) }
	case 10:
		a := vStr("A" + idx)
		return func() string {
			fn := func(errBuf *strings.Builder, validName, objName, fieldName string, tv reflect.Value) {
				errBuf.WriteString(GetJoinValidErrStr(objName, fieldName, tv.String(), "explain: my phone "+idx))
			}
			return vErrText(ValidStructForMyValidFn(&vP2{A: "x" + a, N: vP1{A: "a", B: 1}}, "phone", fn))
		}
	case 11:
		s := vStr("m" + idx)
		return func() string {
			fn := func(errBuf *strings.Builder, validName, objName, fieldName string, tv reflect.Value) {
				errBuf.WriteString(GetJoinValidErrStr(objName, fieldName, tv.String(), "explain: map fn "+idx))
			}
			return vErrText(MapFn(map[string]string{"k": "v" + s}, NewRule().Set("k", "mine,le=1"), Name2FnMap{"mine": fn}))
		}
	case 12:
		s := vStr("v" + idx)
		return func() string {
			fn := func(errBuf *strings.Builder, validName, objName, fieldName string, tv reflect.Value) {
				errBuf.WriteString(GetJoinValidErrStr(objName, fieldName, tv.String(), "explain: var fn "+idx))
			}
			return vErrText(VarForFn("v"+s, fn))
		}
	case 13:
		s := vPlainText("u"+idx, 1)
		return func() string {
			fn := func(errBuf *strings.Builder, validName, objName, fieldName string, tv reflect.Value) {
				errBuf.WriteString(GetJoinValidErrStr(objName, fieldName, tv.String(), "explain: url fn "+idx))
			}
			return vErrText(UrlForFn("h?k="+s, "mine", fn))
		}
	case 14: // rules with arguments: custom separators, options, patterns
		s := vStr("d" + idx)
		return func() string {
			return vErrText(Var("2024/02/29 10.05.5"+s, "datetime='/, ,.'", "in=(a/b)|not in", "re='^2'"))
		}
	case 15:
		s := vStr("d" + idx)
		return func() string {
			return vErrText(Struct(&vP7{T: "2024-02-29 10:05:5" + s, D: "2024-02-29", I: "1,2" + s, Y: "2024-02"}))
		}
	default:
		s := vStr("d" + idx)
		return func() string {
			return vErrText(Map(map[string]string{"t": "2024-02-29T10:05:5" + s, "i": "1-2"}, NewRule().Set("t", "datetime='-,T'").Set("i", "ints='-'", "date='.'")))
		}
	}
}

type vP7 struct {
	T string `valid:"datetime"`
	D string `valid:"date,year2month='-'"`
	I string `valid:"ints,unique"`
	Y string `valid:"year2month"`
}

const vC11NCalls = 17

func vC11Two(ka, kb int) {
	c1 := vC11Call(ka, "a")
	c2 := vC11Call(kb, "b")
	// the concurrent phase runs first, on the state a fresh process has (small cache so that entries
	// are evicted); the solo results are computed afterwards on a fresh cache
	cacheStructType = NewLRU(1)
	var got1, got2 string
	vGo(func() { got1 = c1() })
	vGo(func() { got2 = c2() })
	vJoin()
	// what the concurrent calls left behind (cache entries, pooled objects, registered names) must not
	// change later calls either
	post1, post2 := c1(), c2()
	cacheStructType = NewLRU(1)
	want1 := c1()
	want2 := c2()
	vAssert(got1 == want1, "C11 first call returns its solo result")
	vAssert(got2 == want2, "C11 second call returns its solo result")
	vAssert(post1 == want1 && post2 == want2, "C11 calls after the concurrent phase return their solo results")
	vNativeStress("C11 stress: a call returned something else than its solo result", func() bool { return c1() == want1 }, func() bool { return c2() == want2 })
	vReach("end")
}

func H_C11_struct_struct()      { vC11Two(0, 0) }
func H_C11_struct_alt()         { vC11Two(0, 1) }
func H_C11_struct_nested()      { vC11Two(0, 2) }
func H_C11_alt_nested()         { vC11Two(1, 2) }
func H_C11_struct_fns()         { vC11Two(0, 3) }
func H_C11_nested_fns()         { vC11Two(2, 3) }
func H_C11_struct_var()         { vC11Two(0, 4) }
func H_C11_var_var()            { vC11Two(4, 4) }
func H_C11_var_map()            { vC11Two(4, 5) }
func H_C11_map_url()            { vC11Two(5, 6) }
func H_C11_nested_url()         { vC11Two(2, 6) }
func H_C11_fns_fns()            { vC11Two(3, 3) }
func H_C11_forfn_rule()         { vC11Two(7, 9) }
func H_C11_nestedrule_my()      { vC11Two(8, 10) }
func H_C11_mapfn_varfn()        { vC11Two(11, 12) }
func H_C11_varfn_varfn()        { vC11Two(12, 12) }
func H_C11_varfn_var()          { vC11Two(12, 4) }
func H_C11_urlfn_url()          { vC11Two(13, 6) }
func H_C11_my_struct()          { vC11Two(10, 0) }
func H_C11_args_default()       { vC11Two(14, 15) }
func H_C11_args_args()          { vC11Two(14, 16) }
func H_C11T_default_map()       { vC11Two(15, 16) }
func H_C11T_urlfn_urlfn()       { vC11Two(13, 13) }
func H_C11T_mapfn_map()         { vC11Two(11, 5) }
func H_C11T_my_my()             { vC11Two(10, 10) }
func H_C11T_nestedrule_nested() { vC11Two(8, 2) }
func H_C11T_nested_nested()     { vC11Two(2, 2) }
func H_C11T_alt_alt()           { vC11Two(1, 1) }
func H_C11T_alt_fns()           { vC11Two(1, 3) }
func H_C11T_struct_map()        { vC11Two(0, 5) }
func H_C11T_url_url()           { vC11Two(6, 6) }

// three goroutines
func H_C11T_three() {
	c1 := vC11Call(0, "a")
	c2 := vC11Call(1, "b")
	c3 := vC11Call(4, "c")
	w1, w2, w3 := c1(), c2(), c3()
	cacheStructType = NewLRU(1)
	var g1, g2, g3 string
	vGo(func() { g1 = c1() })
	vGo(func() { g2 = c2() })
	vGo(func() { g3 = c3() })
	vJoin()
	vAssert(g1 == w1 && g2 == w2 && g3 == w3, "C11 three concurrent calls return their solo results")
	vReach("end")
}

// global registration before the goroutines start is visible to all of them
func H_C11_global_fn() {
	SetCustomerValidFn("gfn", func(errBuf *strings.Builder, validName, objName, fieldName string, tv reflect.Value) {
		errBuf.WriteString(GetJoinValidErrStr(objName, fieldName, tv.String(), "explain: global"))
	})
	a, b := vStr("a"), vStr("b")
	c1 := func() string { return vErrText(Struct(&vP1{A: a, B: 1}, RM{"A": "gfn"})) }
	c2 := func() string { return vErrText(Var(b, "gfn", "required")) }
	w1, w2 := c1(), c2()
	cacheStructType = NewLRU(0)
	var g1, g2 string
	vGo(func() { g1 = c1() })
	vGo(func() { g2 = c2() })
	vJoin()
	vAssert(g1 == w1 && g2 == w2, "C11 globally registered function: solo results")
	vReach("end")
}

// a cached type being read (hit) while another goroutine's call evicts it
type vP3 struct {
	Z string `valid:"required"`
}

func H_C11_hit_vs_evict() {
	a, z := vStr("a"), vStr("z")
	c1 := func() string { return vErrText(Struct(&vP1{A: a, B: 1})) }
	c2 := func() string { return vErrText(Struct(&vP3{Z: z})) }
	cacheStructType = NewLRU(1)
	_ = c1() // warm: vP1 is cached
	var g1, g2 string
	vGo(func() { g1 = c1() })
	vGo(func() { g2 = c2() })
	vJoin()
	cacheStructType = NewLRU(1)
	vAssert(g1 == c1(), "C11 cache hit during an eviction: solo result")
	vAssert(g2 == c2(), "C11 evicting call: solo result")
	vReach("end")
}

// both calls hit the same cached entry
func H_C11_hit_hit() {
	a, b := vStr("a"), vStr("b")
	c1 := func() string { return vErrText(Struct(&vP1{A: a, B: 1})) }
	c2 := func() string { return vErrText(Struct(&vP1{A: b, B: 7}, RM{"B": "le=3|too big"})) }
	cacheStructType = NewLRU(2)
	_ = c1()
	var g1, g2 string
	vGo(func() { g1 = c1() })
	vGo(func() { g2 = c2() })
	vJoin()
	vAssert(g1 == c1() && g2 == c2(), "C11 two hits on one cached entry: solo results")
	vReach("end")
}

// rules with quoted parts (the splitter's slow path) in both goroutines
type vP4 struct {
	A string `valid:"re='^[0-9]+$'|digits only,required"`
}
type vP5 struct {
	B string `valid:"in=('a,b'/c),re='^[a-c,]+$'"`
}

func H_C11_quoted_rules() {
	a, b := vStr("a"), vStr("b")
	c1 := func() string { return vErrText(Struct(&vP4{A: a})) }
	c2 := func() string { return vErrText(Struct(&vP5{B: b})) }
	cacheStructType = NewLRU(1)
	var g1, g2 string
	vGo(func() { g1 = c1() })
	vGo(func() { g2 = c2() })
	vJoin()
	cacheStructType = NewLRU(1)
	w1, w2 := c1(), c2()
	vAssert(g1 == w1 && g2 == w2, "C11 quoted rules: solo results")
	vNativeStress("C11 stress: a call returned something else than its solo result", func() bool { return c1() == w1 }, func() bool { return c2() == w2 })
	vReach("end")
}

// deeply nested values in both goroutines (a chain of sub-objects): whatever per-call bookkeeping the
// walker keeps while it descends must be private to the call. The schedules explored are those with at
// most one (quick) or two (thorough) preemptive switches.
type vP6 struct {
	V    string `valid:"required"`
	Next *vP6   `valid:"exist"`
}

func vMkP6(levels int, leaf string) *vP6 {
	cur := &vP6{V: leaf}
	for i := 1; i < levels; i++ {
		cur = &vP6{V: "v", Next: cur}
	}
	return cur
}

func vC11Deep(levels, bound int) {
	a, b := vMkP6(levels, vStr("a")), vMkP6(levels, vStr("b"))
	c1 := func() string { return vErrText(Struct(a)) }
	c2 := func() string { return vErrText(Struct(b)) }
	cacheStructType = NewLRU(1)
	var g1, g2 string
	vSchedBound(bound)
	vGo(func() { g1 = c1() })
	vGo(func() { g2 = c2() })
	vJoin()
	vSchedBound(-1)
	w1, w2 := c1(), c2()
	vAssert(g1 == w1 && g2 == w2, "C11 deep values: solo results")
	vNativeStress("C11 stress: a call returned something else than its solo result", func() bool { return c1() == w1 }, func() bool { return c2() == w2 })
	vReach("end")
}

func H_C11_deep12()  { vC11Deep(12, 1) }
func H_C11T_deep40() { vC11Deep(40, 1) }
func H_C11T_deep12() { vC11Deep(12, 2) }
