//go:build verif

package valid

import (
	"fmt"
	"os"
	"strconv"
	"testing"
)

// TestVerifReplay runs one harness natively with the inputs of a replay file.
func TestVerifReplay(t *testing.T) {
	name := os.Getenv("VERIF_HARNESS")
	if name == "" {
		t.Skip("no harness selected")
	}
	f := vHarnesses[name]
	if f == nil {
		fmt.Println("REPLAY-RESULT: no-such-harness " + name)
		return
	}
	if vCleanup != nil {
		defer vCleanup()
	}
	repeat := 1
	if n, err := strconv.Atoi(os.Getenv("VERIF_REPEAT")); err == nil && n > 0 {
		repeat = n // data-race replays: the same operations many times under the race detector
	}
	for i := 0; i < repeat; i++ {
		func() {
			defer func() {
				if r := recover(); r != nil {
					fmt.Printf("REPLAY-RESULT: panic %v\n", r)
				}
			}()
			f()
		}()
	}
	if vAssumeFail {
		fmt.Println("REPLAY-RESULT: assume-false")
	}
	for _, l := range vFailed {
		fmt.Println("REPLAY-RESULT: assert-failed " + l)
	}
	fmt.Println("REPLAY-RESULT: done")
}
