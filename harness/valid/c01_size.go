//go:build verif

package valid

import (
	"reflect"
	"strings"
)

// C01: size/comparison rules. Bounds are fully symbolic ints rendered with
// vItoa (contract: Atoi(vItoa(n)) == n); values are symbolic per kind; the
// oracle compares the documented measure with the bounds as mathematical
// integers (no wrap-around, no float rounding of the bound).

type vMeas struct {
	lt, gt, eq func(b int) bool
}

func vSignedMeas(m int64) vMeas {
	return vMeas{
		lt: func(b int) bool { return m < int64(b) },
		gt: func(b int) bool { return m > int64(b) },
		eq: func(b int) bool { return m == int64(b) },
	}
}

func vUnsignedMeas(m uint64) vMeas {
	return vMeas{
		lt: func(b int) bool { return vAnd(b > 0, m < uint64(b)) },
		gt: func(b int) bool { return vOr(b < 0, m > uint64(b)) },
		eq: func(b int) bool { return vAnd(b >= 0, m == uint64(b)) },
	}
}

func vFloatMeas(f float64) vMeas {
	return vMeas{
		lt: func(b int) bool { return vFloatCmpInt(f, b) == -1 },
		gt: func(b int) bool { return vFloatCmpInt(f, b) == 1 },
		eq: func(b int) bool { return vFloatCmpInt(f, b) == 0 },
	}
}

const (
	vKInt8 = iota
	vKInt16
	vKInt32
	vKInt64
	vKInt
	vKUint8
	vKUint16
	vKUint32
	vKUint64
	vKUint
	vKFloat32
	vKFloat64
	vKString
	vKSlice
)

var vKindNames = []string{"int8", "int16", "int32", "int64", "int", "uint8", "uint16", "uint32", "uint64", "uint", "float32", "float64", "string", "slice"}
var vSizeRules = []string{"to", "ge", "le", "oto", "gt", "lt", "eq", "noeq"}

// vC01Value makes a non-empty symbolic value of the kind, as interface{} and measure.
func vC01Value(kind int, strMax int) (interface{}, vMeas, bool) {
	isFloat := false
	switch kind {
	case vKInt8:
		x := vndInt8("x")
		vAssume(x != 0)
		return x, vSignedMeas(int64(x)), isFloat
	case vKInt16:
		x := vndInt16("x")
		vAssume(x != 0)
		return x, vSignedMeas(int64(x)), isFloat
	case vKInt32:
		x := vndInt32("x")
		vAssume(x != 0)
		return x, vSignedMeas(int64(x)), isFloat
	case vKInt64:
		x := vndInt64("x")
		vAssume(x != 0)
		return x, vSignedMeas(x), isFloat
	case vKInt:
		x := vndInt("x")
		vAssume(x != 0)
		return x, vSignedMeas(int64(x)), isFloat
	case vKUint8:
		x := vndUint8("x")
		vAssume(x != 0)
		return x, vUnsignedMeas(uint64(x)), isFloat
	case vKUint16:
		x := vndUint16("x")
		vAssume(x != 0)
		return x, vUnsignedMeas(uint64(x)), isFloat
	case vKUint32:
		x := vndUint32("x")
		vAssume(x != 0)
		return x, vUnsignedMeas(uint64(x)), isFloat
	case vKUint64:
		x := vndUint64("x")
		vAssume(x != 0)
		return x, vUnsignedMeas(x), isFloat
	case vKUint:
		x := vndUint("x")
		vAssume(x != 0)
		return x, vUnsignedMeas(uint64(x)), isFloat
	case vKFloat32:
		x := vndFloat32("x")
		vAssume(vNot(vIsNaN(float64(x))))
		vAssume(x != 0)
		return x, vFloatMeas(float64(x)), true
	case vKFloat64:
		x := vndFloat64("x")
		vAssume(vNot(vIsNaN(x)))
		vAssume(x != 0)
		return x, vFloatMeas(x), true
	case vKString:
		s := vndString("x", strMax)
		vAssume(len(s) > 0)
		vAssume(vValidUTF8(s))
		// independent rune count: bytes that are not continuation bytes
		rc := 0
		for i := 0; i < len(s); i++ {
			rc += vIteInt(s[i]&0xC0 != 0x80, 1, 0)
		}
		return s, vSignedMeas(int64(rc)), isFloat
	default:
		n := vndLen("n", 3) + 1
		sl := make([]int, n)
		sl[0] = 1
		return sl, vSignedMeas(int64(n)), isFloat
	}
}

// vC01Rule builds the rule text and the expected verdict.
func vC01Rule(rule int, m vMeas, isFloat bool) (string, bool) {
	lo, hi := vndInt("lo"), vndInt("hi")
	if isFloat {
		// beyond 2^53 float64(bound) rounds; outside the claim
		vAssume(vAnd(lo >= -(1<<53), lo <= 1<<53))
		vAssume(vAnd(hi >= -(1<<53), hi <= 1<<53))
	}
	return vC01RuleWith(rule, lo, hi, m)
}

func vC01RuleWith(rule, lo, hi int, m vMeas) (string, bool) {
	switch rule {
	case 0:
		return "to=" + vItoa(lo) + "~" + vItoa(hi), vOr(m.lt(lo), m.gt(hi))
	case 1:
		return "ge=" + vItoa(lo), m.lt(lo)
	case 2:
		return "le=" + vItoa(hi), m.gt(hi)
	case 3:
		return "oto=" + vItoa(lo) + "~" + vItoa(hi), vOr(vOr(m.lt(lo), m.eq(lo)), vOr(m.gt(hi), m.eq(hi)))
	case 4:
		return "gt=" + vItoa(lo), vOr(m.lt(lo), m.eq(lo))
	case 5:
		return "lt=" + vItoa(hi), vOr(m.gt(hi), m.eq(hi))
	case 6:
		return "eq=" + vItoa(lo), vNot(m.eq(lo))
	default:
		return "noeq=" + vItoa(lo), m.eq(lo)
	}
}

var vSizeFns = []CommonValidFn{To, Ge, Le, OTo, Gt, Lt, Eq, NoEq}

func vViolated(f func(b *strings.Builder)) bool {
	b := new(strings.Builder)
	f(b)
	return b.Len() > 0
}

// direct call of the rule function
func vC01Fn(kind int) {
	rule := vndChoice("rule", 8)
	x, m, isFloat := vC01Value(kind, 6)
	text, want := vC01Rule(rule, m, isFloat)
	got := vViolated(func(b *strings.Builder) { vSizeFns[rule](b, text, "O", "F", reflect.ValueOf(x)) })
	vAssert(got == want, "C01 "+vSizeRules[rule]+"/"+vKindNames[kind]+": violated iff measure outside the set")
	vReach("end")
}

func H_C01_fn_int8()    { vC01Fn(vKInt8) }
func H_C01_fn_int16()   { vC01Fn(vKInt16) }
func H_C01_fn_int32()   { vC01Fn(vKInt32) }
func H_C01_fn_int64()   { vC01Fn(vKInt64) }
func H_C01_fn_int()     { vC01Fn(vKInt) }
func H_C01_fn_uint8()   { vC01Fn(vKUint8) }
func H_C01_fn_uint16()  { vC01Fn(vKUint16) }
func H_C01_fn_uint32()  { vC01Fn(vKUint32) }
func H_C01_fn_uint64()  { vC01Fn(vKUint64) }
func H_C01_fn_uint()    { vC01Fn(vKUint) }
func H_C01_fn_float32() { vC01Fn(vKFloat32) }
func H_C01_fn_float64() { vC01Fn(vKFloat64) }
func H_C01_fn_string()  { vC01Fn(vKString) }
func H_C01_fn_slice()   { vC01Fn(vKSlice) }

// entry points: the same verdict through Var / Struct(with rule map) / Map.
type vSInt8 struct{ F int8 }
type vSInt64 struct{ F int64 }
type vSUint8 struct{ F uint8 }
type vSUint32 struct{ F uint32 }
type vSFloat64 struct{ F float64 }
type vSString struct{ F string }
type vSSlice struct{ F []int }

func vC01Entry(kind int) {
	rule := vndChoice("rule", 8)
	x, m, isFloat := vC01Value(kind, 4)
	text, want := vC01Rule(rule, m, isFloat)
	tag := "C01 " + vSizeRules[rule] + "/" + vKindNames[kind]
	errVar := Var(x, text)
	vAssert((errVar != nil) == want, tag+": Var verdict")
	var errStruct, errMap error
	rm := NewRule().Set("F", text)
	switch v := x.(type) {
	case int8:
		errStruct = Struct(&vSInt8{v}, rm)
		errMap = Map(map[string]int8{"F": v}, rm)
	case int64:
		errStruct = Struct(&vSInt64{v}, rm)
		errMap = Map(map[string]int64{"F": v}, rm)
	case uint8:
		errStruct = Struct(&vSUint8{v}, rm)
		errMap = Map(map[string]uint8{"F": v}, rm)
	case uint32:
		errStruct = Struct(&vSUint32{v}, rm)
		errMap = Map(map[string]uint32{"F": v}, rm)
	case float64:
		errStruct = Struct(&vSFloat64{v}, rm)
		errMap = Map(map[string]float64{"F": v}, rm)
	case string:
		errStruct = Struct(&vSString{v}, rm)
		errMap = Map(map[string]string{"F": v}, rm)
	case []int:
		errStruct = Struct(&vSSlice{v}, rm)
		errMap = Map(map[string][]int{"F": v}, rm)
	}
	vAssert((errStruct != nil) == want, tag+": Struct verdict")
	vAssert((errMap != nil) == want, tag+": Map verdict")
	vReach("end")
}

func H_C01_entry_int8()    { vC01Entry(vKInt8) }
func H_C01_entry_int64()   { vC01Entry(vKInt64) }
func H_C01_entry_uint8()   { vC01Entry(vKUint8) }
func H_C01_entry_uint32()  { vC01Entry(vKUint32) }
func H_C01_entry_float64() { vC01Entry(vKFloat64) }
func H_C01_entry_string()  { vC01Entry(vKString) }
func H_C01_entry_slice()   { vC01Entry(vKSlice) }

// the URL entry point carries the same string percent-encoded (any byte, blanks included)
func H_C01_entry_url() {
	rule := vndChoice("rule", 8)
	x, m, isFloat := vC01Value(vKString, 3)
	text, want := vC01Rule(rule, m, isFloat)
	tag := "C01 " + vSizeRules[rule] + "/string"
	err := Url("http://h/p?F="+vPctEncode(x.(string)), NewRule().Set("F", text))
	vAssert((err != nil) == want, tag+": Url verdict")
	vReach("end")
}

// vRuneCount: the number of runes Go's decoder finds in s, malformed input included (every byte that does
// not start a well-formed sequence is one rune). Written as a recurrence over suffixes with no-fork selects.
func vRuneCount(s string) int {
	n := len(s)
	cnt := make([]int, n+5) // cnt[i] = runes in s[i:]
	in := func(b byte, lo, hi byte) bool { return vAnd(b >= lo, b <= hi) }
	for i := n - 1; i >= 0; i-- {
		b0 := s[i]
		var b1, b2, b3 byte
		has1, has2, has3 := i+1 < n, i+2 < n, i+3 < n
		if has1 {
			b1 = s[i+1]
		}
		if has2 {
			b2 = s[i+2]
		}
		if has3 {
			b3 = s[i+3]
		}
		cont := func(b byte) bool { return in(b, 0x80, 0xBF) }
		v2 := vAnd(has1, vAnd(in(b0, 0xC2, 0xDF), cont(b1)))
		sec3 := vOr(vOr(vAnd(b0 == 0xE0, in(b1, 0xA0, 0xBF)), vAnd(b0 == 0xED, in(b1, 0x80, 0x9F))),
			vAnd(vOr(in(b0, 0xE1, 0xEC), in(b0, 0xEE, 0xEF)), cont(b1)))
		v3 := vAnd(has2, vAnd(sec3, cont(b2)))
		sec4 := vOr(vOr(vAnd(b0 == 0xF0, in(b1, 0x90, 0xBF)), vAnd(b0 == 0xF4, in(b1, 0x80, 0x8F))), vAnd(in(b0, 0xF1, 0xF3), cont(b1)))
		v4 := vAnd(has3, vAnd(sec4, vAnd(cont(b2), cont(b3))))
		cnt[i] = 1 + vIteInt(v4, cnt[i+4], vIteInt(v3, cnt[i+3], vIteInt(v2, cnt[i+2], cnt[i+1])))
	}
	return cnt[0]
}

// strings of arbitrary bytes (malformed UTF-8 included): the measure is the rune count of Go's decoder
func vC01Bytes(entry bool, max int) {
	rule := vndChoice("rule", 8)
	s := vndString("x", max)
	vAssume(len(s) > 0)
	m := vSignedMeas(int64(vRuneCount(s)))
	text, want := vC01Rule(rule, m, false)
	tag := "C01 " + vSizeRules[rule] + "/string of arbitrary bytes"
	if !entry {
		got := vViolated(func(b *strings.Builder) { vSizeFns[rule](b, text, "O", "F", reflect.ValueOf(s)) })
		vAssert(got == want, tag+": violated iff the rune count is outside the set")
	} else {
		rm := NewRule().Set("F", text)
		vAssert((Var(s, text) != nil) == want, tag+": Var verdict")
		vAssert((Struct(&vSString{s}, rm) != nil) == want, tag+": Struct verdict")
		vAssert((Url("http://h/p?F="+vPctEncode(s), rm) != nil) == want, tag+": Url verdict")
	}
	vReach("end")
}

func H_C01_fn_bytes()    { vC01Bytes(false, 4) }
func H_C01_entry_bytes() { vC01Bytes(true, 3) }

// a query key given twice: each occurrence is a value of its own and is measured
func H_C01_entry_url_repeated() {
	rule := vndChoice("rule", 8)
	x, m, _ := vC01Value(vKString, 2)
	lo, hi := vndInt("lo"), vndInt("hi")
	text, want := vC01RuleWith(rule, lo, hi, m)
	// the other occurrence holds "ab" (2 characters); whether it violates follows from the same bounds
	_, want2 := vC01RuleWith(rule, lo, hi, vSignedMeas(2))
	rm := NewRule().Set("F", text)
	first := vndBool("first")
	u := "http://h/p?F=ab&F=" + vPctEncode(x.(string))
	if first {
		u = "http://h/p?F=" + vPctEncode(x.(string)) + "&F=ab"
	}
	vAssert((Url(u, rm) != nil) == vOr(want, want2), "C01 "+vSizeRules[rule]+"/string: every occurrence of a repeated query key is measured")
	vReach("end")
}

// thorough tier: longer strings and slices
func vC01Deep(kind int, max int) {
	rule := vndChoice("rule", 8)
	x, m, isFloat := vC01Value(kind, max)
	text, want := vC01Rule(rule, m, isFloat)
	got := vViolated(func(b *strings.Builder) { vSizeFns[rule](b, text, "O", "F", reflect.ValueOf(x)) })
	vAssert(got == want, "C01 "+vSizeRules[rule]+"/"+vKindNames[kind]+" (long): violated iff measure outside the set")
	vReach("end")
}

func H_C01_deep_string() { vC01Deep(vKString, 10) }
func H_C01_deep_bytes() {
	rule := vndChoice("rule", 8)
	s := vndString("x", 7)
	vAssume(len(s) > 0)
	text, want := vC01Rule(rule, vSignedMeas(int64(vRuneCount(s))), false)
	got := vViolated(func(b *strings.Builder) { vSizeFns[rule](b, text, "O", "F", reflect.ValueOf(s)) })
	vAssert(got == want, "C01 "+vSizeRules[rule]+"/string of arbitrary bytes (long): violated iff the rune count is outside the set")
	vReach("end")
}

// ---- round 4 ----

// rule texts written out literally (bounds are not opaque decimal atoms here, so whatever the bound parser
// does with the characters of the text -- signs, separators, blanks -- is executed byte by byte): every pair of
// bounds from a catalogue with negative, zero, equal and inverted pairs x a fully symbolic value per kind
var vC01BoundCat = [][2]int{{-5, 5}, {-10, -2}, {-1, -5}, {0, 0}, {3, -3}, {-128, 127}, {1, 1}, {-9223372036854775808, 9223372036854775807}, {7, 100}, {-1, 0}}
var vC01BoundTxt = [][2]string{{"-5", "5"}, {"-10", "-2"}, {"-1", "-5"}, {"0", "0"}, {"3", "-3"}, {"-128", "127"}, {"1", "1"}, {"-9223372036854775808", "9223372036854775807"}, {"7", "100"}, {"-1", "0"}}

func vC01LiteralRule(rule, i int, m vMeas) (string, bool) {
	lo, hi := vC01BoundCat[i][0], vC01BoundCat[i][1]
	ls, hs := vC01BoundTxt[i][0], vC01BoundTxt[i][1]
	_, want := vC01RuleWith(rule, lo, hi, m)
	switch rule {
	case 0:
		return "to=" + ls + "~" + hs, want
	case 1:
		return "ge=" + ls, want
	case 2:
		return "le=" + hs, want
	case 3:
		return "oto=" + ls + "~" + hs, want
	case 4:
		return "gt=" + ls, want
	case 5:
		return "lt=" + hs, want
	case 6:
		return "eq=" + ls, want
	}
	return "noeq=" + ls, want
}

func vC01Literal(kind int) {
	rule := vndChoice("rule", 8)
	i := vndChoice("bounds", len(vC01BoundCat))
	x, m, isFloat := vC01Value(kind, 3)
	if isFloat && i == 7 {
		return // float bounds beyond 2^53 are outside the claim
	}
	text, want := vC01LiteralRule(rule, i, m)
	tag := "C01 " + text + " on " + vKindNames[kind]
	got := vViolated(func(b *strings.Builder) { vSizeFns[rule](b, text, "O", "F", reflect.ValueOf(x)) })
	vAssert(got == want, tag+" (literal rule text): violated iff measure outside the set")
	vAssert((Var(x, text) != nil) == want, tag+" (literal rule text): Var verdict")
	vReach("end")
}

func H_C01_literal_int8()    { vC01Literal(vKInt8) }
func H_C01_literal_int64()   { vC01Literal(vKInt64) }
func H_C01_literal_uint16()  { vC01Literal(vKUint16) }
func H_C01_literal_uint64()  { vC01Literal(vKUint64) }
func H_C01_literal_float64() { vC01Literal(vKFloat64) }
func H_C01_literal_string()  { vC01Literal(vKString) }
func H_C01_literal_slice()   { vC01Literal(vKSlice) }

// floating-point values written out (so that a detour of the value through its decimal text is executed on
// real digits) x fully symbolic bounds: float32 values at and above 2^24, where the shortest decimal text of a
// float32 is no longer its exact value, fractions without a finite binary expansion, extremes, denormals
var vC01F32 = []float32{100000008, 1073741824, 16777216, 16777218, 3.3, 0.1, 1e10, 8388609, -100000008, 3.4028234663852886e38, 1e-45, -2147483648, 2147483648, 4294967296, 0.5, -0.75, 9007199254740992}
var vC01F64 = []float64{3.3, 0.1, 1e15 + 0.5, 9007199254740992, 9007199254740991, -9007199254740991, 4503599627370496.5, 1e-320, 2.5, -2.5, 1e300, -1e300, 123456789.125, 0.30000000000000004}

func vC01FloatCat(is32 bool, i int) {
	rule := vndChoice("rule", 8)
	var x interface{}
	var f float64
	if is32 {
		v := vC01F32[i]
		x, f = v, float64(v)
	} else {
		v := vC01F64[i]
		x, f = v, v
	}
	// bounds: every integer within 3 of the value (clamped to the claimed range of float bounds), both symbolic
	c := 0
	switch {
	case f >= 1<<53-4:
		c = 1<<53 - 4
	case f <= -(1<<53 - 4):
		c = -(1<<53 - 4)
	default:
		c = int(f)
	}
	lo, hi := vndInt("lo"), vndInt("hi")
	vAssume(vAnd(lo >= c-3, lo <= c+3))
	vAssume(vAnd(hi >= c-3, hi <= c+3))
	text, want := vC01RuleWith(rule, lo, hi, vFloatMeas(f))
	tag := "C01 " + vSizeRules[rule] + " on a written-out float"
	got := vViolated(func(b *strings.Builder) { vSizeFns[rule](b, text, "O", "F", reflect.ValueOf(x)) })
	vAssert(got == want, tag+": violated iff the numeric value is outside the set")
	vReach("end")
}

func H_C01_float32_cat_00() { vC01FloatCat(true, 0) }
func H_C01_float32_cat_01() { vC01FloatCat(true, 1) }
func H_C01_float32_cat_02() { vC01FloatCat(true, 2) }
func H_C01_float32_cat_03() { vC01FloatCat(true, 3) }
func H_C01_float32_cat_04() { vC01FloatCat(true, 4) }
func H_C01_float32_cat_05() { vC01FloatCat(true, 5) }
func H_C01_float32_cat_06() { vC01FloatCat(true, 6) }
func H_C01_float32_cat_07() { vC01FloatCat(true, 7) }
func H_C01_float32_cat_08() { vC01FloatCat(true, 8) }
func H_C01_float32_cat_09() { vC01FloatCat(true, 9) }
func H_C01_float32_cat_10() { vC01FloatCat(true, 10) }
func H_C01_float32_cat_11() { vC01FloatCat(true, 11) }
func H_C01_float32_cat_12() { vC01FloatCat(true, 12) }
func H_C01_float32_cat_13() { vC01FloatCat(true, 13) }
func H_C01_float32_cat_14() { vC01FloatCat(true, 14) }
func H_C01_float32_cat_15() { vC01FloatCat(true, 15) }
func H_C01_float32_cat_16() { vC01FloatCat(true, 16) }
func H_C01_float64_cat_00() { vC01FloatCat(false, 0) }
func H_C01_float64_cat_01() { vC01FloatCat(false, 1) }
func H_C01_float64_cat_02() { vC01FloatCat(false, 2) }
func H_C01_float64_cat_03() { vC01FloatCat(false, 3) }
func H_C01_float64_cat_04() { vC01FloatCat(false, 4) }
func H_C01_float64_cat_05() { vC01FloatCat(false, 5) }
func H_C01_float64_cat_06() { vC01FloatCat(false, 6) }
func H_C01_float64_cat_07() { vC01FloatCat(false, 7) }
func H_C01_float64_cat_08() { vC01FloatCat(false, 8) }
func H_C01_float64_cat_09() { vC01FloatCat(false, 9) }
func H_C01_float64_cat_10() { vC01FloatCat(false, 10) }
func H_C01_float64_cat_11() { vC01FloatCat(false, 11) }
func H_C01_float64_cat_12() { vC01FloatCat(false, 12) }
func H_C01_float64_cat_13() { vC01FloatCat(false, 13) }

// the rule stated in the tag decides a plain call, whatever rule an earlier call supplied for the same field of
// the same type (and the other way round): three calls on one type, verdict of each against its own stated set
type vC01Tagged struct {
	F int    `valid:"to=1~5"`
	G string `valid:"le=2"`
}

func H_C01_struct_tag_after_override() {
	lo, hi := vndInt("lo"), vndInt("hi")
	f1, f2, f3 := vndInt("f1"), vndInt("f2"), vndInt("f3")
	vAssume(vAnd(f1 != 0, vAnd(f2 != 0, f3 != 0)))
	_, wantTag2 := vC01RuleWith(0, 1, 5, vSignedMeas(int64(f2)))
	text, wantOv1 := vC01RuleWith(0, lo, hi, vSignedMeas(int64(f1)))
	_, wantOv3 := vC01RuleWith(0, lo, hi, vSignedMeas(int64(f3)))
	order := vndChoice("order", 2)
	if order == 0 {
		e1 := Struct(&vC01Tagged{F: f1}, NewRule().Set("F", text))
		e2 := Struct(&vC01Tagged{F: f2})
		e3 := Struct(&vC01Tagged{F: f3}, NewRule().Set("F", text))
		vAssert((e1 != nil) == wantOv1, "C01 sequence: call 1 is judged by the rule supplied to it")
		vAssert((e2 != nil) == wantTag2, "C01 sequence: a plain call after a call with a supplied rule is judged by the tag's bounds")
		vAssert((e3 != nil) == wantOv3, "C01 sequence: call 3 is judged by the rule supplied to it")
	} else {
		e2 := ValidateStruct(&vC01Tagged{F: f2})
		e1 := ValidStructForRule(NewRule().Set("F", text), &vC01Tagged{F: f1})
		e2b := ValidateStruct(&vC01Tagged{F: f2})
		vAssert((e2 != nil) == wantTag2, "C01 sequence: plain call judged by the tag's bounds")
		vAssert((e1 != nil) == wantOv1, "C01 sequence: supplied rule judged by its own bounds")
		vAssert((e2b != nil) == wantTag2, "C01 sequence: plain call judged by the tag's bounds again")
	}
	vReach("end")
}

// ---- slices of other element types: the measure is the number of elements whatever they hold ----
type vNamedBytes []byte

func H_C01_slice_elems() {
	rule := vndChoice("rule", 8)
	n := vndLen("n", 3) + 1
	var x interface{}
	viaVar := true
	switch vndChoice("elem", 10) {
	case 0: // bytes that may form multi-byte characters (or malformed ones): still n elements
		b := make([]byte, n)
		for i := range b {
			b[i] = vndUint8("b" + vNum(i))
		}
		x = b
	case 1:
		b := make(vNamedBytes, n)
		for i := range b {
			b[i] = vndUint8("b" + vNum(i))
		}
		x = b
	case 2: // strings of several characters each
		s := make([]string, n)
		for i := range s {
			s[i] = "中文"
		}
		s[0] = vndString("s0", 3)
		x = s
	case 3:
		r := make([]rune, n)
		for i := range r {
			r[i] = vndInt32("r" + vNum(i))
		}
		x = r
	case 4:
		f := make([]float64, n)
		f[0] = 2.5 // a value whose text is longer than the slice
		x = f
	case 5:
		b := make([]bool, n)
		b[0] = vndBool("b0")
		x = b
	case 6:
		s := make([][]int, n)
		s[0] = []int{1, 2, 3, 4, 5}
		x, viaVar = s, false
	case 7:
		s := make([]interface{}, n)
		s[n-1] = "abc"
		x, viaVar = s, false
	case 8:
		s := make([]*int, n)
		x, viaVar = s, false
	default:
		u := make([]uint16, n)
		u[0] = vndUint16("u0")
		x = u
	}
	text, want := vC01Rule(rule, vSignedMeas(int64(n)), false)
	got := vViolated(func(b *strings.Builder) { vSizeFns[rule](b, text, "O", "F", reflect.ValueOf(x)) })
	vAssert(got == want, "C01 "+vSizeRules[rule]+"/slice: the measure of a slice is its length, whatever the element type")
	if viaVar {
		vAssert((Var(x, text) != nil) == want, "C01 "+vSizeRules[rule]+"/slice: Var verdict for a slice of another element type")
	}
	vReach("end")
}
