//go:build verif

package valid

import "container/list"

// C09: one inductive step of the LRU from an arbitrary valid pre-state,
// compared with a reference LRU (a slice, most recent first).

type vKV struct{ k, v int }

type vRefLRU struct {
	cap   int
	items []vKV // most recently used first
	log   []vKV // removal callback log
}

func (r *vRefLRU) find(k int) int {
	for i := range r.items {
		if r.items[i].k == k {
			return i
		}
	}
	return -1
}

func (r *vRefLRU) touch(i int) {
	it := r.items[i]
	copy(r.items[1:i+1], r.items[:i])
	r.items[0] = it
}

func (r *vRefLRU) store(k, v int) {
	if i := r.find(k); i >= 0 {
		r.items[i].v = v
		r.touch(i)
		return
	}
	r.items = append([]vKV{{k, v}}, r.items...)
	if len(r.items) > r.cap {
		last := r.items[len(r.items)-1]
		r.items = r.items[:len(r.items)-1]
		r.log = append(r.log, last)
	}
}

func (r *vRefLRU) load(k int) (int, bool) {
	i := r.find(k)
	if i < 0 {
		return 0, false
	}
	v := r.items[i].v
	r.touch(i)
	return v, true
}

func (r *vRefLRU) del(k int) {
	i := r.find(k)
	if i < 0 {
		return
	}
	r.log = append(r.log, r.items[i])
	r.items = append(r.items[:i:i], r.items[i+1:]...)
}

// vMkLRU builds the representation NewLRU+Store would have produced for the
// given recency-ordered content.
func vMkLRU(c int, items []vKV, delCount int, log *[]vKV) *LRUCache {
	l := &LRUCache{maxSize: c, nodeMap: make(map[interface{}]*list.Element, c), list: list.New(), delMapCount: delCount}
	for i := len(items) - 1; i >= 0; i-- {
		l.nodeMap[items[i].k] = l.list.PushFront(items[i].v)
	}
	l.SetDelCallBackFn(func(k, v interface{}) {
		*log = append(*log, vKV{k.(int), v.(int)})
	})
	return l
}

// vCheckLRU asserts that the real cache l abstracts to ref.
func vCheckLRU(l *LRUCache, ref *vRefLRU, log []vKV, tag string) {
	vAssert(len(l.nodeMap) == len(ref.items), tag+": map size = live entries")
	vAssert(l.list.Len() == len(ref.items), tag+": list length = live entries")
	vAssert(l.Len() == len(ref.items), tag+": Len() = live entries (not the -1 sentinel)")
	vAssert(len(ref.items) <= ref.cap || ref.cap < 0, tag+": entries <= capacity")
	el := l.list.Front()
	for i := range ref.items {
		e, ok := l.nodeMap[ref.items[i].k]
		vAssert(ok, tag+": live key present in map")
		if !ok || el == nil {
			return
		}
		vAssert(e == el, tag+": recency order of list matches reference")
		vAssert(el.Value.(int) == ref.items[i].v, tag+": value most recently stored")
		el = el.Next()
	}
	vAssert(el == nil, tag+": no extra list element")
	vAssert(len(log) == len(ref.log), tag+": callback count")
	if len(log) == len(ref.log) {
		for i := range log {
			vAssert(vAnd(log[i].k == ref.log[i].k, log[i].v == ref.log[i].v), tag+": callback key/value")
		}
	}
}

func vLRUPre(maxCap int) (c int, items []vKV, delCount int) {
	c = vndChoice("cap", maxCap+1)
	n := vndLen("n", c)
	items = make([]vKV, n)
	names := []string{"0", "1", "2", "3", "4", "5"}
	for i := 0; i < n; i++ {
		items[i] = vKV{vndInt("k" + names[i]), vndInt("v" + names[i])}
		for j := 0; j < i; j++ {
			vAssume(items[i].k != items[j].k)
		}
	}
	delCount = vndInt("delCount")
	vAssume(delCount >= 0)
	vAssume(delCount < 1<<40)
	return
}

func vLRUStep(opKind int, maxCap int) {
	c, items, delCount := vLRUPre(maxCap)
	var log []vKV
	l := vMkLRU(c, items, delCount, &log)
	ref := &vRefLRU{cap: c, items: append([]vKV(nil), items...)}
	k, v := vndInt("k"), vndInt("v")
	switch opKind {
	case 0:
		l.Store(k, v)
		ref.store(k, v)
		vReach("store")
	case 1:
		got, ok := l.Load(k)
		want, wok := ref.load(k)
		vAssert(ok == wok, "load: hit exactly the live keys")
		if ok && wok {
			vAssert(got.(int) == want, "load: value most recently stored")
		}
		vReach("load")
	case 2:
		l.Delete(k)
		ref.del(k)
		vReach("delete")
	case 3:
		vAssert(l.Len() == len(ref.items), "len: equals live entries")
		vReach("len")
	}
	vCheckLRU(l, ref, log, "post")
}

func H_C09_step_store()  { vLRUStep(0, 4) }
func H_C09_step_load()   { vLRUStep(1, 4) }
func H_C09_step_delete() { vLRUStep(2, 4) }
func H_C09_step_len()    { vLRUStep(3, 4) }

// Bounded histories from NewLRU(c): k operations with symbolic keys/values.
func vLRUHistory(nops int, maxCap int) {
	c := vndChoice("cap", maxCap+1)
	var log []vKV
	l := NewLRU(c)
	l.SetDelCallBackFn(func(k, v interface{}) { log = append(log, vKV{k.(int), v.(int)}) })
	ref := &vRefLRU{cap: c}
	names := []string{"0", "1", "2", "3", "4", "5", "6", "7"}
	for i := 0; i < nops; i++ {
		op := vndChoice("op"+names[i], 4)
		k := vndInt("k" + names[i])
		switch op {
		case 0:
			v := vndInt("v" + names[i])
			l.Store(k, v)
			ref.store(k, v)
		case 1:
			got, ok := l.Load(k)
			want, wok := ref.load(k)
			vAssert(ok == wok, "history load: hit exactly the live keys")
			if ok && wok {
				vAssert(got.(int) == want, "history load: value most recently stored")
			}
		case 2:
			l.Delete(k)
			ref.del(k)
		case 3:
			vAssert(l.Len() == len(ref.items), "history len")
		}
	}
	vReach("end")
	vCheckLRU(l, ref, log, "history")
}

func H_C09_hist3() { vLRUHistory(3, 2) }

// thorough tier: longer histories and larger capacities for the inductive step
func H_C09T_hist4()        { vLRUHistory(4, 3) }
func H_C09T_hist5()        { vLRUHistory(5, 2) }
func H_C09T_step_store6()  { vLRUStep(0, 6) }
func H_C09T_step_load6()   { vLRUStep(1, 6) }
func H_C09T_step_delete6() { vLRUStep(2, 6) }
