//go:build verif

package valid

// C09: one inductive step of the LRU from an arbitrary valid pre-state,
// compared with a reference LRU (a slice, most recent first).

type vKV struct{ k, v int }

type vRefLRU struct {
	cap   int
	items []vKV // most recently used first
	log   []vKV // removal callback log
}

func (r *vRefLRU) find(k int) int {
	for i := range r.items {
		if r.items[i].k == k {
			return i
		}
	}
	return -1
}

func (r *vRefLRU) touch(i int) {
	it := r.items[i]
	copy(r.items[1:i+1], r.items[:i])
	r.items[0] = it
}

func (r *vRefLRU) store(k, v int) {
	if i := r.find(k); i >= 0 {
		r.items[i].v = v
		r.touch(i)
		return
	}
	r.items = append([]vKV{{k, v}}, r.items...)
	if len(r.items) > r.cap {
		last := r.items[len(r.items)-1]
		r.items = r.items[:len(r.items)-1]
		r.log = append(r.log, last)
	}
}

func (r *vRefLRU) load(k int) (int, bool) {
	i := r.find(k)
	if i < 0 {
		return 0, false
	}
	v := r.items[i].v
	r.touch(i)
	return v, true
}

func (r *vRefLRU) del(k int) {
	i := r.find(k)
	if i < 0 {
		return
	}
	r.log = append(r.log, r.items[i])
	r.items = append(r.items[:i:i], r.items[i+1:]...)
}

// vPumpKey is a key no harness uses for its own entries.
const vPumpKey = -987654321

// vMkLRU builds a cache holding the given recency-ordered content through the public API only (no
// knowledge of the representation): the entries are stored oldest first. pump extra Store/Delete pairs
// on a private key advance whatever internal bookkeeping deletions have (the map-rebuild counter).
func vMkLRU(c int, items []vKV, pump int, log *[]vKV) *LRUCache {
	l := NewLRU(c)
	for i := 0; i < pump && c > 0; i++ {
		l.Store(vPumpKey, 0)
		l.Delete(vPumpKey)
	}
	for i := len(items) - 1; i >= 0; i-- {
		l.Store(items[i].k, items[i].v)
	}
	l.SetDelCallBackFn(func(k, v interface{}) {
		*log = append(*log, vKV{k.(int), v.(int)})
	})
	return l
}

func vRefDump(ref *vRefLRU) string {
	want := ""
	for i, it := range ref.items {
		if i > 0 {
			want += "\n"
		}
		want += ToStr(it.v)
	}
	return want
}

// vCheckLRU asserts, through the public API only, that the real cache l abstracts to ref: Len, the
// recency order as Dump shows it (values are distinct per key in these harnesses), a hit with the
// right value for every live key, a miss for probe keys that are not live, and the callback log.
func vCheckLRU(l *LRUCache, ref *vRefLRU, log []vKV, tag string) {
	vAssert(l.Len() == len(ref.items), tag+": Len() = live entries (not the -1 sentinel)")
	vAssert(len(ref.items) <= ref.cap, tag+": entries <= capacity")
	vAssert(l.Dump() == vRefDump(ref), tag+": recency order and values as Dump lists them")
	vAssert(len(log) == len(ref.log), tag+": callback count")
	if len(log) == len(ref.log) {
		for i := range log {
			vAssert(vAnd(log[i].k == ref.log[i].k, log[i].v == ref.log[i].v), tag+": callback key/value")
		}
	}
	// probing Loads last (they change the recency order): least recent first keeps the order intact
	for i := len(ref.items) - 1; i >= 0; i-- {
		got, ok := l.Load(ref.items[i].k)
		vAssert(ok, tag+": live key is a hit")
		if ok {
			vAssert(got.(int) == ref.items[i].v, tag+": value most recently stored")
		}
	}
	_, ok := l.Load(vPumpKey)
	vAssert(!ok, tag+": a key never stored is a miss")
	vAssert(l.Dump() == vRefDump(ref), tag+": loading every key from least to most recent restores the same order")
}

func vLRUPre(maxCap int) (c int, items []vKV, pump int) {
	c = vndChoice("cap", maxCap+1)
	n := vndLen("n", c)
	items = make([]vKV, n)
	names := []string{"0", "1", "2", "3", "4", "5"}
	for i := 0; i < n; i++ {
		// symbolic keys (equality is what the cache looks at), distinct concrete values (opaque to it)
		items[i] = vKV{vndInt("k" + names[i]), 100 + i}
		vAssume(items[i].k != vPumpKey)
		for j := 0; j < i; j++ {
			vAssume(items[i].k != items[j].k)
		}
	}
	// 0, or just enough deletions to sit right before / at the internal rebuild threshold
	pump = []int{0, 2*c + 1, 2*c + 2}[vndChoice("pump", 3)]
	return
}

func vLRUStep(opKind int, maxCap int) {
	c, items, pump := vLRUPre(maxCap)
	var log []vKV
	l := vMkLRU(c, items, pump, &log)
	ref := &vRefLRU{cap: c, items: append([]vKV(nil), items...)}
	k, v := vndInt("k"), 999
	vAssume(k != vPumpKey)
	if opKind == 0 && vndBool("sameValue") {
		// storing the value the key already holds is still a use of the key
		if i := ref.find(k); i >= 0 {
			v = ref.items[i].v
		}
	}
	switch opKind {
	case 0:
		l.Store(k, v)
		ref.store(k, v)
		vReach("store")
	case 1:
		got, ok := l.Load(k)
		want, wok := ref.load(k)
		vAssert(ok == wok, "load: hit exactly the live keys")
		if ok && wok {
			vAssert(got.(int) == want, "load: value most recently stored")
		}
		vReach("load")
	case 2:
		l.Delete(k)
		ref.del(k)
		vReach("delete")
	case 3:
		vAssert(l.Len() == len(ref.items), "len: equals live entries")
		vReach("len")
	}
	vCheckLRU(l, ref, log, "post")
}

func H_C09_step_store()  { vLRUStep(0, 4) }
func H_C09_step_load()   { vLRUStep(1, 4) }
func H_C09_step_delete() { vLRUStep(2, 4) }
func H_C09_step_len()    { vLRUStep(3, 4) }

// Bounded histories from NewLRU(c): k operations with symbolic keys/values.
func vLRUHistory(nops int, maxCap int) {
	c := vndChoice("cap", maxCap+1)
	var log []vKV
	l := NewLRU(c)
	l.SetDelCallBackFn(func(k, v interface{}) { log = append(log, vKV{k.(int), v.(int)}) })
	ref := &vRefLRU{cap: c}
	names := []string{"0", "1", "2", "3", "4", "5", "6", "7"}
	for i := 0; i < nops; i++ {
		op := vndChoice("op"+names[i], 4)
		k := vndInt("k" + names[i])
		vAssume(k != vPumpKey)
		switch op {
		case 0:
			v := 100 + vndChoice("v"+names[i], 2) // concrete values (opaque to the cache); re-storing an equal value is covered
			l.Store(k, v)
			ref.store(k, v)
		case 1:
			got, ok := l.Load(k)
			want, wok := ref.load(k)
			vAssert(ok == wok, "history load: hit exactly the live keys")
			if ok && wok {
				vAssert(got.(int) == want, "history load: value most recently stored")
			}
		case 2:
			l.Delete(k)
			ref.del(k)
		case 3:
			vAssert(l.Len() == len(ref.items), "history len")
		}
	}
	vReach("end")
	vCheckLRU(l, ref, log, "history")
}

func H_C09_hist3() { vLRUHistory(3, 2) }

// thorough tier: longer histories and larger capacities for the inductive step
func H_C09T_hist4()        { vLRUHistory(4, 3) }
func H_C09T_hist5()        { vLRUHistory(5, 2) }
func H_C09T_step_store6()  { vLRUStep(0, 6) }
func H_C09T_step_load6()   { vLRUStep(1, 6) }
func H_C09T_step_delete6() { vLRUStep(2, 6) }

// the same sequence while other goroutines only observe (Len, Dump): observers change nothing, so the
// driving goroutine's results and the final state are those of the sequential reference
func vLRUObserved(obsA, obsB int) {
	var log []vKV
	l := NewLRU(2)
	l.SetDelCallBackFn(func(k, v interface{}) { log = append(log, vKV{k.(int), v.(int)}) })
	ref := &vRefLRU{cap: 2}
	var gotA int
	var okA bool
	vGo(func() {
		l.Store(1, 101)
		l.Store(2, 102)
		g, ok := l.Load(1)
		okA = ok
		if ok {
			gotA = g.(int)
		}
		l.Store(3, 103)
	})
	obs := func(kind int) func() {
		return func() {
			if kind == 0 {
				_ = l.Len()
			} else {
				_ = l.Dump()
			}
		}
	}
	vGo(obs(obsA))
	if obsB >= 0 {
		vGo(obs(obsB))
	}
	vJoin()
	ref.store(1, 101)
	ref.store(2, 102)
	w, wok := ref.load(1)
	ref.store(3, 103)
	vAssert(okA == wok && gotA == w, "C09 observed: the load hits the key stored two steps earlier")
	vCheckLRU(l, ref, log, "C09 observed")
	vReach("end")
}

func H_C09_observed_len()       { vLRUObserved(0, -1) }
func H_C09_observed_dump()      { vLRUObserved(1, -1) }
func H_C09T_observed_len_dump() { vLRUObserved(0, 1) }

// keys of several dynamic types, the nil interface included: nil is a key like any other
type vGKV struct {
	k interface{}
	v int
}

func H_C09_hetero_keys() {
	keys := []interface{}{nil, 0, "0", false}
	c := vndChoice("cap", 3)
	var log []vGKV
	l := NewLRU(c)
	l.SetDelCallBackFn(func(k, v interface{}) { log = append(log, vGKV{k, v.(int)}) })
	var items []vGKV // most recent first
	var want []vGKV  // expected callback log
	find := func(k interface{}) int {
		for i := range items {
			if items[i].k == k {
				return i
			}
		}
		return -1
	}
	touch := func(i int) {
		it := items[i]
		copy(items[1:i+1], items[:i])
		items[0] = it
	}
	for step := 0; step < 3; step++ {
		k := keys[vndChoice("k"+vNum(step), len(keys))]
		switch vndChoice("op"+vNum(step), 3) {
		case 0:
			v := 100 + step
			l.Store(k, v)
			if i := find(k); i >= 0 {
				items[i].v = v
				touch(i)
			} else {
				items = append([]vGKV{{k, v}}, items...)
				if len(items) > c {
					want = append(want, items[len(items)-1])
					items = items[:len(items)-1]
				}
			}
		case 1:
			got, ok := l.Load(k)
			i := find(k)
			vAssert(ok == (i >= 0), "C09 mixed keys: a load hits exactly the live keys")
			if ok && i >= 0 {
				vAssert(got.(int) == items[i].v, "C09 mixed keys: value most recently stored")
				touch(i)
			}
		case 2:
			l.Delete(k)
			if i := find(k); i >= 0 {
				want = append(want, items[i])
				items = append(items[:i:i], items[i+1:]...)
			}
		}
		vAssert(l.Len() == len(items), "C09 mixed keys: Len = live entries, never above the capacity")
	}
	vAssert(len(log) == len(want), "C09 mixed keys: one callback per evicted or deleted entry")
	if len(log) == len(want) {
		for i := range log {
			vAssert(log[i].k == want[i].k && log[i].v == want[i].v, "C09 mixed keys: callback key and value")
		}
	}
	vReach("end")
}

// ---- pre-states reached through different histories, two operations from there ----
//
// The abstract state (recency-ordered content) does not say how it was reached. Whatever else the
// implementation remembers between calls (a last-hit memo, a lazily built index, a counter) depends on
// the history, so the builder below ends with 0..2 *uses* of keys that are already live -- a Load hit or
// a re-Store of the value the key holds -- each of which also moves the key to the front in the
// reference. Two operations follow, each judged against the reference, then the whole state.
func vLRUTouch(l *LRUCache, ref *vRefLRU, name string) {
	if len(ref.items) == 0 {
		return
	}
	i := vndChoice(name+"_idx", len(ref.items))
	k, v := ref.items[i].k, ref.items[i].v
	if vndBool(name + "_byStore") {
		l.Store(k, v)
		ref.store(k, v)
	} else {
		got, ok := l.Load(k)
		vAssert(ok, "C09 touch: a live key is a hit")
		if ok {
			vAssert(got.(int) == v, "C09 touch: value most recently stored")
		}
		ref.load(k)
	}
}

func vLRUOp(l *LRUCache, ref *vRefLRU, name string, v int) {
	k := vndInt(name + "_k")
	vAssume(k != vPumpKey)
	switch vndChoice(name+"_op", 4) {
	case 0:
		l.Store(k, v)
		ref.store(k, v)
	case 1:
		got, ok := l.Load(k)
		want, wok := ref.load(k)
		vAssert(ok == wok, "C09 step2 load: hit exactly the live keys")
		if ok && wok {
			vAssert(got.(int) == want, "C09 step2 load: value most recently stored")
		}
	case 2:
		l.Delete(k)
		ref.del(k)
	case 3:
		vAssert(l.Len() == len(ref.items), "C09 step2 len: equals live entries")
	}
}

func vLRUStep2(maxCap, touches int) {
	c, items, pump := vLRUPre(maxCap)
	var log []vKV
	l := vMkLRU(c, items, pump, &log)
	ref := &vRefLRU{cap: c, items: append([]vKV(nil), items...)}
	nt := vndChoice("touches", touches+1)
	for t := 0; t < nt; t++ {
		vLRUTouch(l, ref, "t"+vNum(t))
	}
	vLRUOp(l, ref, "a", 998)
	vLRUOp(l, ref, "b", 999)
	vReach("end")
	vCheckLRU(l, ref, log, "C09 two steps from a touched pre-state")
}

func H_C09_step2_touched() { vLRUStep2(2, 2) }

// ---- larger capacities: one operation from a full or nearly full cache of a written-out capacity ----
func vLRUStepAt(c int) {
	n := c - vndChoice("free", 2) // full, or one free slot
	items := make([]vKV, n)
	for i := 0; i < n; i++ {
		items[i] = vKV{1000 + i, 100 + i} // concrete distinct keys: only the operation's key is symbolic
	}
	var log []vKV
	l := vMkLRU(c, items, 0, &log)
	ref := &vRefLRU{cap: c, items: append([]vKV(nil), items...)}
	vLRUOp(l, ref, "a", 998)
	vLRUOp(l, ref, "b", 999)
	vReach("end")
	vCheckLRU(l, ref, log, "C09 larger capacity")
}

func H_C09_cap8()  { vLRUStepAt(8) }
func H_C09_cap16() { vLRUStepAt(16) }
func H_C09_cap17() { vLRUStepAt(17) }
