//go:build verif

package valid

import (
	"reflect"
	"strings"
	"time"
)

// C12: a call's outcome is a function of its own arguments (plus globally
// registered functions): whatever an earlier call left in the pooled
// validators, pooled buffers or the type cache must not show. The call leaves
// its input and rule map unmodified, and error text / rule tokens handed out
// earlier never change.

type vC12Result struct {
	err  error
	text string // err.Error() as returned
	copy string // deep copy taken right after the call
}

func vC12Keep(err error) vC12Result {
	r := vC12Result{err: err}
	if err != nil {
		r.text = err.Error()
		r.copy = string([]byte(r.text))
	}
	return r
}

func vSameRM(a, b RM) bool {
	if len(a) != len(b) {
		return false
	}
	for k, v := range a {
		if w, ok := b[k]; !ok || w != v {
			return false
		}
	}
	return true
}

// vC12Op performs catalogue call k with fresh symbolic values; when check is set the result is
// compared with the reference computed from the call's own arguments only.
func vC12Op(k int, idx string, check bool) vC12Result {
	vULog = nil
	known := map[string]bool{"r1": true, "r2": true, "r3": true}
	r := vNewRef()
	r.global = known
	r.globalTag = map[string]string{"r1": "r1", "r2": "r2", "r3": "r3"}
	tag := "C12 call " + idx + " (op " + vNum(k) + ")"
	var err error
	switch k {
	case 0:
		o := &vT1{A: vStr("A" + idx), B: vStr("B" + idx), C: "c"}
		before := *o
		err = Struct(o)
		r.top(o)
		vAssert(*o == before, tag+": input value unmodified")
	case 1:
		o := &vT1{A: vStr("A" + idx), B: vStr("B" + idx), C: "c"}
		err = ValidateStruct(o, "alt")
		r.tag = "alt"
		r.top(o)
	case 2:
		o := &vT1{A: vStr("A" + idx), B: "b"}
		rm := RM{"A": "r3", "C": "required|need C"}
		before := vCopyRM(rm)
		err = Struct(o, rm)
		r.unscoped = before
		r.top(o)
		vAssert(vSameRM(rm, before), tag+": rule map unmodified")
	case 3:
		o := &vT1{A: vStr("A" + idx), B: "b"}
		err = StructForFns(o, nil, Name2FnMap{"r1": vURule("L-r1"), "r9": vURule("L-r9")})
		r.local = map[string]bool{"r1": true, "r9": true}
		r.localTag = map[string]string{"r1": "L-r1", "r9": "L-r9"}
		r.top(o)
	case 4:
		o := &vT2{A: "a", N: vT1{A: vStr("N.A" + idx), B: "b"}}
		rm := RM{"B": "r3,nosuch"}
		err = NestedStructForRule(o, map[interface{}]RM{&vT1{}: rm})
		r.scoped = map[reflect.Type]RM{reflect.TypeOf(vT1{}): vCopyRM(rm)}
		r.top(o)
	case 5:
		s := vStr("s" + idx)
		v := NewVVar().SetRules("required|need s", "r9")
		v.SetValidFn("r9", vURule("L-r9"))
		err = v.Valid(s)
		r.local = map[string]bool{"r9": true}
		r.localTag = map[string]string{"r9": "L-r9"}
		r.rule("", "", "", "required|need s", reflect.ValueOf(s), false)
		r.rule("", "", "", "r9", reflect.ValueOf(s), false)
	case 6:
		m := map[string]string{"k": vStr("k" + idx)}
		rm := NewRule().Set("k", "required,r9")
		before := vCopyRM(rm)
		err = MapFn(m, rm, Name2FnMap{"r9": vURule("L-r9")})
		r.local = map[string]bool{"r9": true}
		vRefMap(r, m, rm)
		vAssert(vSameRM(rm, before), tag+": rule map unmodified")
	case 7:
		v := vPlainText("u"+idx, 1)
		rm := NewRule().Set("k", "required,r1")
		err = Url("h?k="+v, rm)
		vRefUrl(r, []string{"k"}, []string{v}, rm)
	case 9: // a supplied rule set on a call that can pass (nothing required)
		o := &vT1{A: vStr("A" + idx), B: "b", C: "c"}
		rm := RM{"A": "r3", "C": "r2"}
		before := vCopyRM(rm)
		err = Struct(o, rm)
		r.unscoped = before
		r.top(o)
		vAssert(vSameRM(rm, before), tag+": rule map unmodified")
	case 10: // a rule set scoped to a nested type on a call that can pass
		o := &vT2{A: "a", N: vT1{A: vStr("N.A" + idx), B: "b"}}
		rm := RM{"B": "r3", "A": "r2"}
		err = NestedStructForRule(o, map[interface{}]RM{&vT1{}: rm})
		r.scoped = map[reflect.Type]RM{reflect.TypeOf(vT1{}): vCopyRM(rm)}
		r.top(o)
	case 11: // rule text with an unbalanced quote (a rule-writing error: only "no crash" is asked of this call itself)
		s := vStr("q" + idx)
		err = NewVVar().SetRules([]string{"r1,in='a", "'", "re='x,y", "r1,'',r2'"}[vndChoice("bad"+idx, 4)]).Valid(s)
		return vC12Keep(err)
	case 8:
		err = Struct(5) // fails before any field is looked at
		r.lit("\"int\" is not struct" + ErrEndFlag)
		if !check {
			return vC12Keep(err)
		}
		vAssert(err != nil, tag+": non-struct input is an error")
		return vC12Keep(err)
	}
	if check {
		vCheckAgainstRef(tag, err, r)
	}
	return vC12Keep(err)
}

const vC12NOps = 12

func vC12Pair(mode string, a int) {
	vPoolMode(mode)
	vUNoFail = mode == "adversarial"
	vGlobalRules()
	b := vndChoice("opB", vC12NOps)
	toks := ValidNamesSplit("r1,'x,y',r2|msg")
	toksCopy := []string{}
	for _, t := range toks {
		toksCopy = append(toksCopy, string([]byte(t)))
	}
	ra := vC12Op(a, "a", false)
	vC12Op(b, "b", true)
	// what the first call handed out is still the same
	if ra.err != nil {
		vAssert(ra.err.Error() == ra.copy && ra.text == ra.copy, "C12 earlier error text unchanged by a later call")
	}
	vAssert(len(toks) == 3 && toks[0] == toksCopy[0] && toks[1] == toksCopy[1] && toks[2] == toksCopy[2], "C12 earlier rule tokens unchanged by later calls")
	vAssert(len(toks) == 3 && toks[0] == "r1" && toks[1] == "'x,y'" && toks[2] == "r2|msg", "C12 rule tokens keep their text")
	// and the splitter itself starts afresh: the same text splits the same way after the two calls
	again := ValidNamesSplit("r1,'x,y',r2|msg")
	vAssert(len(again) == 3 && again[0] == "r1" && again[1] == "'x,y'" && again[2] == "r2|msg", "C12 the splitter is not affected by the rule texts of earlier calls")
	vReach("end")
}

func H_C12_pair_lifo_00()        { vC12Pair("lifo", 0) }
func H_C12_pair_adversarial_00() { vC12Pair("adversarial", 0) }
func H_C12_pair_lifo_01()        { vC12Pair("lifo", 1) }
func H_C12_pair_adversarial_01() { vC12Pair("adversarial", 1) }
func H_C12_pair_lifo_02()        { vC12Pair("lifo", 2) }
func H_C12_pair_adversarial_02() { vC12Pair("adversarial", 2) }
func H_C12_pair_lifo_03()        { vC12Pair("lifo", 3) }
func H_C12_pair_adversarial_03() { vC12Pair("adversarial", 3) }
func H_C12_pair_lifo_04()        { vC12Pair("lifo", 4) }
func H_C12_pair_adversarial_04() { vC12Pair("adversarial", 4) }
func H_C12_pair_lifo_05()        { vC12Pair("lifo", 5) }
func H_C12_pair_adversarial_05() { vC12Pair("adversarial", 5) }
func H_C12_pair_lifo_06()        { vC12Pair("lifo", 6) }
func H_C12_pair_adversarial_06() { vC12Pair("adversarial", 6) }
func H_C12_pair_lifo_07()        { vC12Pair("lifo", 7) }
func H_C12_pair_adversarial_07() { vC12Pair("adversarial", 7) }
func H_C12_pair_lifo_08()        { vC12Pair("lifo", 8) }
func H_C12_pair_adversarial_08() { vC12Pair("adversarial", 8) }
func H_C12_pair_lifo_09()        { vC12Pair("lifo", 9) }
func H_C12_pair_adversarial_09() { vC12Pair("adversarial", 9) }
func H_C12_pair_lifo_10()        { vC12Pair("lifo", 10) }
func H_C12_pair_adversarial_10() { vC12Pair("adversarial", 10) }
func H_C12_pair_lifo_11()        { vC12Pair("lifo", 11) }
func H_C12_pair_adversarial_11() { vC12Pair("adversarial", 11) }

// three calls: A and B populate pools and cache, C is checked (one harness per first call)
func vC12Triple(mode string, a int) {
	vPoolMode(mode)
	vUNoFail = true
	vGlobalRules()
	b := vndChoice("opB", vC12NOps)
	c := vndChoice("opC", 5)
	vC12Op(a, "a", false)
	vC12Op(b, "b", false)
	vC12Op(c, "c", true)
	vReach("end")
}

func H_C12T_triple_lifo_0()  { vC12Triple("lifo", 0) }
func H_C12T_triple_lifo_1()  { vC12Triple("lifo", 1) }
func H_C12T_triple_lifo_2()  { vC12Triple("lifo", 2) }
func H_C12T_triple_lifo_3()  { vC12Triple("lifo", 3) }
func H_C12T_triple_lifo_4()  { vC12Triple("lifo", 4) }
func H_C12T_triple_lifo_5()  { vC12Triple("lifo", 5) }
func H_C12T_triple_lifo_6()  { vC12Triple("lifo", 6) }
func H_C12T_triple_lifo_7()  { vC12Triple("lifo", 7) }
func H_C12T_triple_lifo_8()  { vC12Triple("lifo", 8) }
func H_C12T_triple_adv_0()   { vC12Triple("adversarial", 0) }
func H_C12T_triple_adv_1()   { vC12Triple("adversarial", 1) }
func H_C12T_triple_adv_2()   { vC12Triple("adversarial", 2) }
func H_C12T_triple_adv_3()   { vC12Triple("adversarial", 3) }
func H_C12T_triple_adv_4()   { vC12Triple("adversarial", 4) }
func H_C12T_triple_adv_5()   { vC12Triple("adversarial", 5) }
func H_C12T_triple_adv_6()   { vC12Triple("adversarial", 6) }
func H_C12T_triple_adv_7()   { vC12Triple("adversarial", 7) }
func H_C12T_triple_adv_8()   { vC12Triple("adversarial", 8) }
func H_C12T_triple_lifo_9()  { vC12Triple("lifo", 9) }
func H_C12T_triple_lifo_10() { vC12Triple("lifo", 10) }
func H_C12T_triple_lifo_11() { vC12Triple("lifo", 11) }
func H_C12T_triple_adv_9()   { vC12Triple("adversarial", 9) }
func H_C12T_triple_adv_10()  { vC12Triple("adversarial", 10) }
func H_C12T_triple_adv_11()  { vC12Triple("adversarial", 11) }

// clause builders use pooled buffers: the text of one call's clauses must not leak into the next
func H_C12_buffers() {
	vPoolMode("adversarial")
	x := vStr("x")
	s1 := GetJoinValidErrStr("O", "F", x, "explain: one")
	c1 := string([]byte(s1))
	s2 := GetJoinFieldErr("P", "G", "two")
	s3 := GetJoinValidErrStr("", "H", "v")
	vAssert(s1 == c1, "C12 clause text unchanged by later clause construction")
	vAssert(s2 == "\"P.G\" two"+ErrEndFlag, "C12 GetJoinFieldErr starts from an empty buffer")
	vAssert(s3 == "\"H\" input \"v\""+ErrEndFlag, "C12 GetJoinValidErrStr starts from an empty buffer")
	g := GenValidKV(VTo, "1~2", "m")
	vAssert(g == "to=1~2|m", "C12 GenValidKV starts from an empty buffer")
	var b strings.Builder
	_ = b
	vReach("end")
}

// rule tokens handed out earlier stay intact when later calls split other quoted rule text
func H_C12_tokens() {
	vPoolMode([]string{"lifo", "adversarial"}[vndChoice("pool", 2)])
	q := vndString("q", 2)
	vAssume(vNoByte(q, '\''))
	t1 := ValidNamesSplit("r1,'x," + q + "',r2|m1")
	c1 := []string{}
	for _, t := range t1 {
		c1 = append(c1, string([]byte(t)))
	}
	t2 := ValidNamesSplit("'p,q',in=('a,b'/c)")
	_ = Var("9", "re='^[0-9]$'|d", "required")
	t3 := ValidNamesSplit("'"+q+"',zz", ',')
	vAssert(len(t1) == 3 && t1[0] == "r1" && t1[1] == "'x,"+q+"'" && t1[2] == "r2|m1", "C12 tokens of the first split keep their text")
	vAssert(len(t1) == len(c1) && t1[0] == c1[0] && t1[1] == c1[1] && t1[2] == c1[2], "C12 tokens of the first split equal their deep copies")
	vAssert(len(t2) == 2 && t2[0] == "'p,q'" && t2[1] == "in=('a,b'/c)", "C12 tokens of the second split keep their text")
	vAssert(len(t3) == 2 && t3[0] == "'"+q+"'" && t3[1] == "zz", "C12 tokens of the third split")
	vReach("end")
}

// a group rule token retained until the end of the call, with quoted rules on later fields
type vC12G struct {
	A string `valid:"either=1"`
	B string `valid:"'either=1'"`
	C string `valid:"re='^x',either=1"`
	D string `valid:"in=('u,v'/w),required|'need, D'"`
}

func H_C12_group_token() {
	vPoolMode([]string{"lifo", "adversarial"}[vndChoice("pool", 2)])
	o := &vC12G{A: vStr("A"), C: vStr("C"), D: "w"}
	err := Struct(o)
	// B's rule text is a quoted unknown rule; A and C form the either group
	want := "\"vC12G.B\" valid \"'either\" is not exist, You can call SetValidFn" + ErrEndFlag
	if o.C != "" && o.C != "x" {
		want += "\"vC12G.C\" input \"" + o.C + "\", explain: regex match is failed, pattern: ^x" + ErrEndFlag
	}
	if o.A == "" && o.C == "" {
		want += "\"vC12G.A\", \"vC12G.C\" explain: they shouldn't all be empty" + ErrEndFlag
	}
	vAssert(err != nil && err.Error()+ErrEndFlag == want, "C12 group rule retained across later quoted splits")
	vReach("end")
}

// the call leaves collections inside its input untouched: element order and content of slices, arrays
// and maps handed to rules that look at every element (unique, in, size rules), by value and by pointer
type vC12Coll struct {
	L []string          `valid:"unique,required"`
	N []int             `valid:"unique,le=5"`
	A [3]string         `valid:"unique"`
	M map[string]string `valid:"required"`
	S string            `valid:"unique,in=(b,a/c)"`
	F []float64         `valid:"unique"`
}

func H_C12_collections_unmodified() {
	a, b, c := vStr("a"), "b", "a"
	l := []string{a, b, c}
	n := []int{3, vndInt("n1"), 2}
	n1 := n[1]
	f := []float64{2.5, 1.5, 2.5}
	m := map[string]string{"k": b}
	o := vC12Coll{L: l, N: n, A: [3]string{c, b, a}, M: m, S: "b,a", F: f}
	switch vndChoice("carrier", 6) {
	case 0:
		_ = Struct(o)
	case 1:
		_ = Struct(&o)
	case 2:
		_ = Var(l, "unique", "ge=1")
		_ = Var(n, "unique")
		_ = Var(f, "unique")
	case 3:
		_ = Map(map[string][]string{"k": l}, NewRule().Set("k", "unique,required"))
		_ = Map(map[string]interface{}{"k": n, "f": f}, NewRule().Set("k,f", "unique"))
	case 4:
		_ = Struct([]vC12Coll{o, o})
	case 5:
		_ = Struct(&o, RM{"L": "unique|dup", "N": "unique,ge=1", "F": "unique,unique"})
	}
	vAssert(len(l) == 3 && l[0] == a && l[1] == b && l[2] == c, "C12 []string input keeps its elements in place")
	vAssert(len(n) == 3 && n[0] == 3 && n[1] == n1 && n[2] == 2, "C12 []int input keeps its elements in place")
	vAssert(len(f) == 3 && f[0] == 2.5 && f[1] == 1.5 && f[2] == 2.5, "C12 []float64 input keeps its elements in place")
	vAssert(o.A[0] == c && o.A[1] == b && o.A[2] == a && o.S == "b,a", "C12 array and string fields unchanged")
	vAssert(len(m) == 1 && m["k"] == b, "C12 map input unchanged")
	vReach("end")
}

// rule maps of every shape stay as the caller wrote them: keys naming several fields, empty rules,
// keys that match no field, through every entry point that takes one
func H_C12_rule_maps_unmodified() {
	vPoolMode([]string{"lifo", "adversarial"}[vndChoice("pool", 2)])
	vUNoFail = true
	vGlobalRules()
	rm := RM{"A,B": "required", "B": "r1", " C": "r2", "Nope": "", "A": "r2,required|need A"}
	before := vCopyRM(rm)
	o := &vT1{A: vStr("A"), B: vStr("B"), C: "c"}
	switch vndChoice("entry", 8) {
	case 0:
		_ = Struct(o, rm)
	case 1:
		_ = NewVStruct().SetRule(rm).Valid(o)
	case 2:
		_ = NewVStruct().SetRule(rm, o).Valid(o)
	case 3:
		_ = NestedStructForRule(&vT2{A: "a", N: *o}, map[interface{}]RM{vT1{}: rm})
	case 4:
		_ = Map(map[string]string{"A": o.A, "B": o.B}, rm)
	case 5:
		_ = Url("h?A="+vPlainText("u", 1)+"&B=1", rm)
	case 6:
		_ = Struct(o, rm)
		_ = Map(map[string]string{"A": o.A}, rm)
		_ = Struct(o, rm)
	case 7: // more rule maps than the entry point documents
		rm2 := RM{"A": "r3", "C": "required"}
		before2 := vCopyRM(rm2)
		_ = Struct(o, rm, rm2)
		_ = Struct(o, rm, rm2)
		vAssert(vSameRM(rm2, before2), "C12 second rule map unmodified")
	}
	vAssert(vSameRM(rm, before), "C12 rule map unmodified")
	vReach("end")
}

// Map and Url inputs that lack a required key are reported, not completed: the caller's map keeps its
// entries (nil maps, maps in slices, pointers to maps, named key types)
type vC12Key string

func H_C12_map_input_unmodified() {
	vPoolMode([]string{"lifo", "adversarial"}[vndChoice("pool", 2)])
	rm := NewRule().Set("need", "required").Set("k", "required,le=3").Set("opt", "le=1")
	v := vStr("v")
	switch vndChoice("shape", 5) {
	case 0:
		m := map[string]string{"k": v}
		err := Map(m, rm)
		vAssert(err != nil, "C12 map input: the missing required key is reported")
		_, has := m["need"]
		vAssert(len(m) == 1 && m["k"] == v && !has, "C12 map input: the caller's map keeps its entries")
	case 1:
		var m map[string]int
		_ = Map(m, rm)
		vAssert(m == nil, "C12 map input: a nil map stays nil")
	case 2:
		ms := []map[string]string{{"k": v}, {"need": "x"}}
		_ = Map(ms, rm)
		vAssert(len(ms) == 2 && len(ms[0]) == 1 && len(ms[1]) == 1 && ms[0]["k"] == v, "C12 map input: maps inside a slice keep their entries")
	case 3:
		m := map[vC12Key]string{"k": v}
		_ = Map(&m, rm)
		vAssert(len(m) == 1 && m["k"] == v, "C12 map input: a map behind a pointer, with a named key type, keeps its entries")
	case 4:
		m := map[string]interface{}{"k": v, "opt": nil}
		_ = Map(m, rm)
		vAssert(len(m) == 2 && m["opt"] == nil, "C12 map input: interface-valued map keeps its entries")
	}
	vReach("end")
}

// functions given to one call are gone afterwards, whatever entry point took them: a later call that names
// them gets the unknown-rule clause
func H_C12_per_call_fns_do_not_stay() {
	vPoolMode([]string{"lifo", "adversarial"}[vndChoice("pool", 2)])
	vUNoFail = true
	fn := vURule("L")
	o := &vT3{Z: "z"}
	switch vndChoice("first", 6) {
	case 0:
		_ = VarForFn("x", fn)
	case 1:
		_ = UrlForFn("h?k=1", validVarFieldName, fn)
	case 2:
		_ = ValidStructForMyValidFn(o, validVarFieldName, fn)
	case 3:
		_ = StructForFns(o, RM{"Z": validVarFieldName}, Name2FnMap{validVarFieldName: fn, "mine": fn})
	case 4:
		_ = MapFn(map[string]string{"k": "v"}, NewRule().Set("k", "mine"), Name2FnMap{"mine": fn, validVarFieldName: fn})
	case 5:
		_ = NewVVar().SetRules("mine").SetValidFn("mine", fn).SetValidFn(validVarFieldName, fn).Valid("x")
	}
	vULog = nil
	name := []string{validVarFieldName, "mine"}[vndChoice("name", 2)]
	var err error
	want := "valid \"" + name + "\" is not exist, You can call SetValidFn"
	switch vndChoice("then", 4) {
	case 0:
		err = Var("x", name)
	case 1:
		err = Struct(o, RM{"Z": name})
		want = "\"vT3.Z\" " + want
	case 2:
		err = Map(map[string]string{"k": "v"}, NewRule().Set("k", name))
	case 3:
		err = Url("h?k=1", NewRule().Set("k", name))
	}
	vAssert(len(vULog) == 0, "C12 a function given to an earlier call is not run by a later one")
	vAssert(err != nil && err.Error() == want, "C12 a name defined only for an earlier call is unknown afterwards")
	vReach("end")
}

// rules with arguments, one call after another: the second is judged by its own arguments (separators,
// options, patterns), not by what the first left in any package-level or pooled state
func H_C12_real_rule_sequences() {
	vPoolMode([]string{"lifo", "adversarial"}[vndChoice("pool", 2)])
	calls := []struct {
		v, rule string
		bad     bool
	}{
		{"2024-02-29 10:05:59", "datetime", false},
		{"2024/02/29 10:05:59", "datetime='/'", false},
		{"2024-02-29 10:05:59", "datetime='/'", true},
		{"2024.02.29T10-05-59", "datetime='.,T,-'", false},
		{"20240229100559", "datetime=',,'", false},
		{"2024/02/29", "date", true},
		{"2024/02/29", "date='/'", false},
		{"2024-02", "year2month", false},
		{"1-2-3", "ints=-", false},
		{"1-2-3", "ints", true},
		{"b", "in=(a/b)", false},
		{"b", "in=(a/c)", true},
		{"ab", "re='^a'", false},
		{"ab", "re='^b'", true},
		{"x,y", "unique", false},
	}
	i, j := vndChoice("first", len(calls)), vndChoice("second", len(calls))
	a, b := calls[i], calls[j]
	vAssert((Var(a.v, a.rule) != nil) == a.bad, "C12 sequence: first call judged by its own rule")
	vAssert((Var(b.v, b.rule) != nil) == b.bad, "C12 sequence: second call judged by its own rule")
	vAssert((Struct(&vC18S{F: a.v}, RM{"F": a.rule}) != nil) == a.bad, "C12 sequence: third call (the first again, as a struct field)")
	vReach("end")
}

// predecessors that are large or repeated rather than varied: whatever a call leaves in an object it
// hands back (a counter, a high-water mark, a grown buffer) must not reach the next caller
func vC12AfterLarge(pred int) {
	// repeated predecessors under the LIFO pool (what one P does); single ones also under the adversarial pool
	if pred == 2 || pred == 5 {
		vPoolMode("lifo")
	} else {
		vPoolMode([]string{"lifo", "adversarial"}[vndChoice("pool", 2)])
	}
	vUNoFail = true
	vGlobalRules()
	real := &vT1{A: "a", B: "b", C: "c"}
	switch pred {
	case 0: // a sparse list: 40 nil elements, then one object
		l := make([]*vT1, 41)
		l[40] = real
		_ = Struct(l)
	case 1: // a map of 40 nil values
		m := map[int]*vT1{}
		for i := 0; i < 40; i++ {
			m[i] = nil
		}
		_ = Struct(m)
	case 2: // 34 calls, each with one nil element
		for i := 0; i < 34; i++ {
			_ = Struct([]*vT1{nil, real})
		}
	case 3: // a nested list of 40 nil elements inside an object
		_ = Struct(&vC12Sparse{L: make([]*vT1, 40), M: map[string]*vT1{"a": nil, "b": nil}, A: [3]*vT1{}})
	case 4: // 70 elements through Var with a rule list of 12 rules
		xs := make([]int, 70)
		for i := range xs {
			xs[i] = i + 1
		}
		_ = Var(xs, "required", "unique", "le=100", "ge=1", "r1", "r2", "r3", "nosuch", "to=1~100", "gt=0", "lt=1000", "noeq=5")
	case 5: // 34 failing calls
		for i := 0; i < 34; i++ {
			_ = Struct(&vT1{}, RM{"C": "required"})
			_ = Var("", "required|need")
			_ = Map(map[string]string{}, NewRule().Set("k", "required"))
			_ = Url("h", NewRule().Set("k", "required"))
		}
	}
	b := []int{0, 1, 2, 4, 5, 6, 7}[vndChoice("opB", 7)]
	vC12Op(b, "b", true)
	vReach("end")
}

func H_C12_after_large_inputs_0() { vC12AfterLarge(0) }
func H_C12_after_large_inputs_1() { vC12AfterLarge(1) }
func H_C12_after_large_inputs_2() { vC12AfterLarge(2) }
func H_C12_after_large_inputs_3() { vC12AfterLarge(3) }
func H_C12_after_large_inputs_4() { vC12AfterLarge(4) }
func H_C12_after_large_inputs_5() { vC12AfterLarge(5) }

type vC12Sparse struct {
	L []*vT1          `valid:"exist"`
	M map[string]*vT1 `valid:"exist"`
	A [3]*vT1         `valid:"exist"`
}

// two datetime rules whose separator lists differ but read the same when written without the commas
// ('-,,' and ',-,'; ',,' and the bare rule with empty separators; ...): each call is judged by its own layout
// whatever ran before
func H_C12_datetime_separator_pairs() {
	alpha := []string{"-", "", ":"}
	pick := func(n string) (string, string, string) {
		return alpha[vndChoice(n+"d", 3)], alpha[vndChoice(n+"m", 3)], alpha[vndChoice(n+"c", 3)]
	}
	mk := func(d, m, c string) string { return "2024" + d + "02" + d + "29" + m + "10" + c + "05" + c + "59" }
	d1, m1, c1 := pick("a")
	d2, m2, c2 := pick("b")
	vAssume(d1+m1+c1 == d2+m2+c2) // only the pairs that read alike are of interest here
	_ = Var(mk(d1, m1, c1), "datetime='"+d1+","+m1+","+c1+"'")
	layout := "2006" + d2 + "01" + d2 + "02" + m2 + "15" + c2 + "04" + c2 + "05"
	v := []string{mk(d2, m2, c2), mk(d1, m1, c1)}[vndChoice("v", 2)]
	_, perr := time.Parse(layout, v)
	err := Var(v, "datetime='"+d2+","+m2+","+c2+"'")
	vAssert((err != nil) == (perr != nil), "C12 datetime after a datetime with other separators that read alike: judged by this call's layout")
	// the same for the date rule (two separators read alike when one is empty)
	_ = Var("2024"+d1+"02", "year2month="+vQ(d1))
	_, perr2 := time.Parse("2006"+d2+"01", "2024"+d2+"02")
	err2 := Var("2024"+d2+"02", "year2month="+vQ(d2))
	vAssert((err2 != nil) == (perr2 != nil), "C12 year2month after a year2month with another separator")
	vReach("end")
}

func vQ(s string) string { return "'" + s + "'" }

// one type whose rule lists contain empty items, repeated rules and an unknown rule, called again and again (nothing
// / a rule set / per-call functions): what an earlier call did to anything kept per type must not show in a later one.
// Three calls under the LIFO pool (the adversarial pool is exercised by the pair catalogue above).
func H_C12_same_type_three_calls() {
	vPoolMode("lifo")
	vSameTypeCalls("C12", 3)
}
