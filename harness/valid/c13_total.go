//go:build verif

package valid

import (
	"reflect"
	"strings"
	"time"
)

// C13: totality. Every entry point returns normally (nil or an error) for
// any value shape and any rule text. The executor models the panic
// conditions of reflect, indexing, slicing, nil maps and nil dereferences,
// so "no feasible path ends in a panic" is an obligation the solver decides
// for every rule text within the length bound.

type vC13Inner struct {
	N string `valid:"required"`
	M int    `valid:"to=1~5"`
}

type vC13Shapes struct {
	P   *vC13Inner            `valid:"exist"`
	PP  **vC13Inner           `valid:"exist"`
	S   []*vC13Inner          `valid:"exist"`
	A   [2]*vC13Inner         `valid:"exist"`
	M   map[string]*vC13Inner `valid:"exist"`
	I   interface{}           `valid:"exist"`
	R   *vC13Inner            `valid:"required"`
	RS  []*vC13Inner          `valid:"required"`
	RI  interface{}           `valid:"required,to=1~3"`
	PI  *int                  `valid:"exist"`
	SI  []int                 `valid:"exist"`
	MI  map[int]int           `valid:"required"`
	u   *vC13Inner            `valid:"required"`
	Any interface{}           `valid:"either=1"`
	B   interface{}           `valid:"either=1"`
}

func vC13Call(label string, f func()) {
	vAssert(vNoPanic(f), "C13 no panic: "+label)
}

// Value-shape catalogue for Struct.
func H_C13_shape_struct() {
	var nilT *vC13Inner
	var nilPP **vC13Inner
	pnil := &nilT
	var nilIface interface{}
	var nilSlice []*vC13Inner
	var nilMap map[string]*vC13Inner
	shape := vndChoice("shape", 26)
	good := &vC13Inner{N: "n", M: 2}
	if shape == 5 || shape == 14 || shape == 16 || shape == 17 {
		good = &vC13Inner{N: vndString("n", 2), M: vndInt("m")}
	}
	pgood := &good
	switch shape {
	case 0:
		vC13Call("Struct(nil)", func() { _ = Struct(nil) })
	case 1:
		vC13Call("Struct(typed nil *T)", func() { _ = Struct(nilT) })
	case 2:
		vC13Call("Struct(**T with nil inner)", func() { _ = Struct(pnil) })
	case 3:
		vC13Call("Struct(nil **T)", func() { _ = Struct(nilPP) })
	case 4:
		vC13Call("Struct([]*T{nil})", func() { _ = Struct([]*vC13Inner{nil}) })
	case 5:
		vC13Call("Struct([]*T{good,nil})", func() { _ = Struct([]*vC13Inner{good, nil}) })
	case 6:
		vC13Call("Struct(map[string]*T{k:nil})", func() { _ = Struct(map[string]*vC13Inner{"k": nil}) })
	case 7:
		vC13Call("Struct([]int)", func() { _ = Struct([]int{1, 2}) })
	case 8:
		vC13Call("Struct(int)", func() { _ = Struct(5) })
	case 9:
		vC13Call("Struct(string)", func() { _ = Struct("s") })
	case 10:
		vC13Call("Struct(map[int]string)", func() { _ = Struct(map[int]string{1: "a"}) })
	case 11:
		vC13Call("Struct([2]*T{})", func() { _ = Struct([2]*vC13Inner{}) })
	case 12:
		vC13Call("Struct(nil slice)", func() { _ = Struct(nilSlice) })
	case 13:
		vC13Call("Struct(nil map)", func() { _ = Struct(nilMap) })
	case 14:
		vC13Call("Struct(**T good)", func() { _ = Struct(pgood) })
	case 15:
		vC13Call("Struct(zero shapes)", func() { _ = Struct(&vC13Shapes{}) })
	case 16:
		vC13Call("Struct(nil elements under exist)", func() {
			_ = Struct(&vC13Shapes{S: []*vC13Inner{nil}, M: map[string]*vC13Inner{"k": nil}, PP: pnil, A: [2]*vC13Inner{nil, good}, R: good, RS: []*vC13Inner{nil}, RI: 2, MI: map[int]int{1: 1}})
		})
	case 17:
		vC13Call("Struct(interface fields)", func() {
			_ = Struct(&vC13Shapes{I: nilIface, RI: good, Any: 1, B: "x", R: good, RS: []*vC13Inner{good}, MI: map[int]int{1: 1}})
		})
	case 18:
		vC13Call("Struct(interface holding nil pointer)", func() {
			_ = Struct(&vC13Shapes{I: nilT, RI: nilT, Any: nilT, R: good, RS: []*vC13Inner{good}, MI: map[int]int{1: 1}})
		})
	case 19:
		x := 3
		vC13Call("Struct(pointer to scalar under exist)", func() {
			_ = Struct(&vC13Shapes{PI: &x, SI: []int{1}, R: good, RS: []*vC13Inner{good}, RI: 1, MI: map[int]int{1: 1}})
		})
	case 20:
		vC13Call("Struct(struct value)", func() { _ = Struct(vC13Inner{N: "a", M: 2}) })
	case 21:
		vC13Call("Struct([]T)", func() { _ = Struct([]vC13Inner{{N: "a", M: 2}, {}}) })
	case 22:
		vC13Call("Struct(map[int]T)", func() { _ = Struct(map[int]vC13Inner{1: {N: "a", M: 2}}) })
	case 23:
		vC13Call("Struct([]interface{})", func() { _ = Struct([]interface{}{nil, good, 1}) })
	case 24:
		vC13Call("Struct(bool)", func() { _ = Struct(true) })
	case 25:
		vC13Call("Struct(func)", func() { _ = Struct(func() {}) })
	}
	vReach("end")
}

func H_C13_shape_var() {
	var nilI *int
	var nilS *string
	shape := vndChoice("shape", 16)
	x := 1
	if shape >= 7 && shape <= 11 {
		x = vndInt("x")
	}
	switch shape {
	case 0:
		vC13Call("Var(nil)", func() { _ = Var(nil, "required") })
	case 1:
		vC13Call("Var(nil *int)", func() { _ = Var(nilI, "required") })
	case 2:
		vC13Call("Var(nil *string)", func() { _ = Var(nilS, "to=1~2") })
	case 3:
		vC13Call("Var(empty slice)", func() { _ = Var([]string{}, "required,unique") })
	case 4:
		vC13Call("Var([]*int{nil})", func() { _ = Var([]*int{nil}, "required,to=1~2") })
	case 5:
		vC13Call("Var(struct)", func() { _ = Var(vC13Inner{}, "required") })
	case 6:
		vC13Call("Var(map)", func() { _ = Var(map[string]int{"a": 1}, "required") })
	case 7:
		vC13Call("Var(no rule)", func() { _ = Var(x) })
	case 8:
		vC13Call("Var(empty rule)", func() { _ = Var(x, "") })
	case 9:
		vC13Call("Var(exist/either/botheq)", func() { _ = Var(x, "exist", "either=1", "botheq=1") })
	case 10:
		vC13Call("Var(bool)", func() { _ = Var(true, "required") })
	case 11:
		vC13Call("Var(&x)", func() { _ = Var(&x, "required,ge=1") })
	case 12:
		vC13Call("Var([][]int)", func() { _ = Var([][]int{{1}, nil}, "required,le=3") })
	case 13:
		vC13Call("Var([2]string)", func() { _ = Var([2]string{"a", ""}, "required,unique,ints") })
	case 14:
		vC13Call("Var(nil slice)", func() { var s []int; _ = Var(s, "required,ge=1") })
	case 15:
		vC13Call("Var(chan)", func() { _ = Var(make(chan int), "required") })
	}
	vReach("end")
}

func H_C13_shape_map() {
	rm := NewRule().Set("a", "required,to=1~3").Set("b", "either=1").Set("c", "either=1").Set("d", "botheq=2").Set("e", "botheq=2,exist")
	var nilM map[string]string
	var nilPM *map[string]string
	shape := vndChoice("shape", 16)
	v := "1"
	if shape == 6 || shape == 7 || shape == 9 {
		v = vndString("v", 2)
	}
	switch shape {
	case 0:
		vC13Call("Map(nil)", func() { _ = Map(nil, rm) })
	case 1:
		vC13Call("Map(int)", func() { _ = Map(5, rm) })
	case 2:
		vC13Call("Map([]int)", func() { _ = Map([]int{1}, rm) })
	case 3:
		vC13Call("Map(map[int]string)", func() { _ = Map(map[int]string{1: "a"}, rm) })
	case 4:
		vC13Call("Map(nil map)", func() { _ = Map(nilM, rm) })
	case 5:
		vC13Call("Map(interface values incl nil)", func() {
			_ = Map(map[string]interface{}{"a": nil, "b": nil, "c": 1, "d": "x", "e": nil}, rm)
		})
	case 6:
		vC13Call("Map([]map with nil)", func() { _ = Map([]map[string]string{nil, {"a": v}}, rm) })
	case 7:
		vC13Call("Map(&m)", func() { m := map[string]string{"a": v, "b": "", "c": ""}; _ = Map(&m, rm) })
	case 8:
		vC13Call("Map(nil *map)", func() { _ = Map(nilPM, rm) })
	case 9:
		vC13Call("Map(no rules)", func() { _ = Map(map[string]string{"a": v}, nil) })
	case 10:
		vC13Call("Map(string)", func() { _ = Map("a=b", rm) })
	case 11:
		vC13Call("Map(struct)", func() { _ = Map(vC13Inner{}, rm) })
	case 12:
		vC13Call("Map(map[string][]int)", func() { _ = Map(map[string][]int{"a": nil, "d": {1}, "e": {1}}, rm) })
	case 13:
		vC13Call("Map(map[string]*int)", func() { _ = Map(map[string]*int{"a": nil, "b": nil, "c": nil}, rm) })
	case 14:
		vC13Call("Map([]interface{})", func() { _ = Map([]interface{}{nil, 1}, rm) })
	case 15:
		vC13Call("Map(botheq of uncomparable)", func() {
			_ = Map(map[string]interface{}{"d": []int{1}, "e": []int{1}}, rm)
		})
	}
	vReach("end")
}

func H_C13_shape_url() {
	rm := NewRule().Set("a", "required,to=1~3").Set("b", "either=1,botheq=2").Set("c", "either=1,botheq=2,exist")
	var nilS *string
	switch vndChoice("shape", 7) {
	case 0:
		vC13Call("Url(nil)", func() { _ = Url(nil, rm) })
	case 1:
		vC13Call("Url(nil *string)", func() { _ = Url(nilS, rm) })
	case 2:
		vC13Call("Url(int)", func() { _ = Url(5, rm) })
	case 3:
		vC13Call("Url(bad escape)", func() { _ = Url("h?a=%zz", rm) })
	case 4:
		vC13Call("Url(no rules)", func() { _ = Url("h?a=1", nil) })
	case 5:
		q := vndString("q", 5)
		vC13Call("Url(symbolic query)", func() { _ = Url("h?"+q, rm) })
	case 6:
		q := vndString("q", 4)
		vC13Call("Url(symbolic url)", func() { _ = Url(&q, rm) })
	}
	vReach("end")
}

// Rule text: key ++ symbolic tail through Var / Struct on values of several kinds.
type vC13Fields struct {
	S  string
	I  int
	U  uint8
	F  float32
	B  bool
	L  []string
	LI []int
	M  map[string]int
	P  *vC13Inner
	X  interface{}
}

func vC13RuleStruct(key string, max int) {
	tail := vndString("tail", max)
	if key != "" {
		vAssume(vNoByte(tail, ',')) // rule lists are covered by the key-less harnesses
	}
	text := key + tail
	names := []string{"S", "I", "U", "F", "B", "L", "LI", "M", "P", "X"}
	f := names[vndChoice("field", len(names))]
	obj := &vC13Fields{S: "a1", I: 5, U: 7, F: 1.5, B: true, L: []string{"1", "a"}, LI: []int{1, 1}, M: map[string]int{"k": 1}, P: &vC13Inner{N: "n", M: 2}, X: "x"}
	vC13Call("Struct field "+f+" "+key, func() { _ = Struct(obj, NewRule().Set(f, text)) })
	vReach("end")
}

func vC13RuleVar(key string, max int) {
	tail := vndString("tail", max)
	if key != "" {
		vAssume(vNoByte(tail, ','))
	}
	text := key + tail
	switch vndChoice("carrier", 5) {
	case 0:
		vC13Call("Var(string) "+key, func() { _ = Var("a1", text) })
	case 1:
		vC13Call("Var(int) "+key, func() { _ = Var(5, text) })
	case 2:
		vC13Call("Var([]string) "+key, func() { _ = Var([]string{"1", "a"}, text) })
	case 3:
		vC13Call("Url "+key, func() { _ = Url("h?k=a1&j=2", NewRule().Set("k", text)) })
	case 4:
		vC13Call("Map "+key, func() {
			_ = Map(map[string]interface{}{"k": "a1", "n": 5, "l": []int{1}}, NewRule().Set("k", text).Set("n", text).Set("l", text))
		})
	}
	vReach("end")
}

// one harness per rule key (sharded over workers); T = deeper tails (thorough tier)
func H_C13_var_required()       { vC13RuleVar("required", 4) }
func H_C13_struct_required()    { vC13RuleStruct("required", 3) }
func H_C13T_var_required()      { vC13RuleVar("required", 6) }
func H_C13T_struct_required()   { vC13RuleStruct("required", 5) }
func H_C13_var_exist()          { vC13RuleVar("exist", 4) }
func H_C13_struct_exist()       { vC13RuleStruct("exist", 3) }
func H_C13T_var_exist()         { vC13RuleVar("exist", 6) }
func H_C13T_struct_exist()      { vC13RuleStruct("exist", 5) }
func H_C13_var_either()         { vC13RuleVar("either", 4) }
func H_C13_struct_either()      { vC13RuleStruct("either", 3) }
func H_C13T_var_either()        { vC13RuleVar("either", 6) }
func H_C13T_struct_either()     { vC13RuleStruct("either", 5) }
func H_C13_var_botheq()         { vC13RuleVar("botheq", 4) }
func H_C13_struct_botheq()      { vC13RuleStruct("botheq", 3) }
func H_C13T_var_botheq()        { vC13RuleVar("botheq", 6) }
func H_C13T_struct_botheq()     { vC13RuleStruct("botheq", 5) }
func H_C13_var_to()             { vC13RuleVar("to", 4) }
func H_C13_struct_to()          { vC13RuleStruct("to", 3) }
func H_C13T_var_to()            { vC13RuleVar("to", 6) }
func H_C13T_struct_to()         { vC13RuleStruct("to", 5) }
func H_C13_var_ge()             { vC13RuleVar("ge", 4) }
func H_C13_struct_ge()          { vC13RuleStruct("ge", 3) }
func H_C13T_var_ge()            { vC13RuleVar("ge", 6) }
func H_C13T_struct_ge()         { vC13RuleStruct("ge", 5) }
func H_C13_var_le()             { vC13RuleVar("le", 4) }
func H_C13_struct_le()          { vC13RuleStruct("le", 3) }
func H_C13T_var_le()            { vC13RuleVar("le", 6) }
func H_C13T_struct_le()         { vC13RuleStruct("le", 5) }
func H_C13_var_oto()            { vC13RuleVar("oto", 4) }
func H_C13_struct_oto()         { vC13RuleStruct("oto", 3) }
func H_C13T_var_oto()           { vC13RuleVar("oto", 6) }
func H_C13T_struct_oto()        { vC13RuleStruct("oto", 5) }
func H_C13_var_gt()             { vC13RuleVar("gt", 4) }
func H_C13_struct_gt()          { vC13RuleStruct("gt", 3) }
func H_C13T_var_gt()            { vC13RuleVar("gt", 6) }
func H_C13T_struct_gt()         { vC13RuleStruct("gt", 5) }
func H_C13_var_lt()             { vC13RuleVar("lt", 4) }
func H_C13_struct_lt()          { vC13RuleStruct("lt", 3) }
func H_C13T_var_lt()            { vC13RuleVar("lt", 6) }
func H_C13T_struct_lt()         { vC13RuleStruct("lt", 5) }
func H_C13_var_eq()             { vC13RuleVar("eq", 4) }
func H_C13_struct_eq()          { vC13RuleStruct("eq", 3) }
func H_C13T_var_eq()            { vC13RuleVar("eq", 6) }
func H_C13T_struct_eq()         { vC13RuleStruct("eq", 5) }
func H_C13_var_noeq()           { vC13RuleVar("noeq", 4) }
func H_C13_struct_noeq()        { vC13RuleStruct("noeq", 3) }
func H_C13T_var_noeq()          { vC13RuleVar("noeq", 6) }
func H_C13T_struct_noeq()       { vC13RuleStruct("noeq", 5) }
func H_C13_var_in()             { vC13RuleVar("in", 4) }
func H_C13_struct_in()          { vC13RuleStruct("in", 3) }
func H_C13T_var_in()            { vC13RuleVar("in", 6) }
func H_C13T_struct_in()         { vC13RuleStruct("in", 5) }
func H_C13_var_include()        { vC13RuleVar("include", 4) }
func H_C13_struct_include()     { vC13RuleStruct("include", 3) }
func H_C13T_var_include()       { vC13RuleVar("include", 6) }
func H_C13T_struct_include()    { vC13RuleStruct("include", 5) }
func H_C13_var_phone()          { vC13RuleVar("phone", 4) }
func H_C13_struct_phone()       { vC13RuleStruct("phone", 3) }
func H_C13T_var_phone()         { vC13RuleVar("phone", 6) }
func H_C13T_struct_phone()      { vC13RuleStruct("phone", 5) }
func H_C13_var_email()          { vC13RuleVar("email", 4) }
func H_C13_struct_email()       { vC13RuleStruct("email", 3) }
func H_C13T_var_email()         { vC13RuleVar("email", 6) }
func H_C13T_struct_email()      { vC13RuleStruct("email", 5) }
func H_C13_var_idcard()         { vC13RuleVar("idcard", 4) }
func H_C13_struct_idcard()      { vC13RuleStruct("idcard", 3) }
func H_C13T_var_idcard()        { vC13RuleVar("idcard", 6) }
func H_C13T_struct_idcard()     { vC13RuleStruct("idcard", 5) }
func H_C13_var_year()           { vC13RuleVar("year", 4) }
func H_C13_struct_year()        { vC13RuleStruct("year", 3) }
func H_C13T_var_year()          { vC13RuleVar("year", 6) }
func H_C13T_struct_year()       { vC13RuleStruct("year", 5) }
func H_C13_var_year2month()     { vC13RuleVar("year2month", 4) }
func H_C13_struct_year2month()  { vC13RuleStruct("year2month", 3) }
func H_C13T_var_year2month()    { vC13RuleVar("year2month", 6) }
func H_C13T_struct_year2month() { vC13RuleStruct("year2month", 5) }
func H_C13_var_date()           { vC13RuleVar("date", 4) }
func H_C13_struct_date()        { vC13RuleStruct("date", 3) }
func H_C13T_var_date()          { vC13RuleVar("date", 6) }
func H_C13T_struct_date()       { vC13RuleStruct("date", 5) }
func H_C13_var_datetime()       { vC13RuleVar("datetime", 4) }
func H_C13_struct_datetime()    { vC13RuleStruct("datetime", 3) }
func H_C13T_var_datetime()      { vC13RuleVar("datetime", 6) }
func H_C13T_struct_datetime()   { vC13RuleStruct("datetime", 5) }
func H_C13_var_int()            { vC13RuleVar("int", 4) }
func H_C13_struct_int()         { vC13RuleStruct("int", 3) }
func H_C13T_var_int()           { vC13RuleVar("int", 6) }
func H_C13T_struct_int()        { vC13RuleStruct("int", 5) }
func H_C13_var_ints()           { vC13RuleVar("ints", 4) }
func H_C13_struct_ints()        { vC13RuleStruct("ints", 3) }
func H_C13T_var_ints()          { vC13RuleVar("ints", 6) }
func H_C13T_struct_ints()       { vC13RuleStruct("ints", 5) }
func H_C13_var_float()          { vC13RuleVar("float", 4) }
func H_C13_struct_float()       { vC13RuleStruct("float", 3) }
func H_C13T_var_float()         { vC13RuleVar("float", 6) }
func H_C13T_struct_float()      { vC13RuleStruct("float", 5) }
func H_C13_var_re()             { vC13RuleVar("re", 4) }
func H_C13_struct_re()          { vC13RuleStruct("re", 3) }
func H_C13T_var_re()            { vC13RuleVar("re", 6) }
func H_C13T_struct_re()         { vC13RuleStruct("re", 5) }
func H_C13_var_ip()             { vC13RuleVar("ip", 4) }
func H_C13_struct_ip()          { vC13RuleStruct("ip", 3) }
func H_C13T_var_ip()            { vC13RuleVar("ip", 6) }
func H_C13T_struct_ip()         { vC13RuleStruct("ip", 5) }
func H_C13_var_ipv4()           { vC13RuleVar("ipv4", 4) }
func H_C13_struct_ipv4()        { vC13RuleStruct("ipv4", 3) }
func H_C13T_var_ipv4()          { vC13RuleVar("ipv4", 6) }
func H_C13T_struct_ipv4()       { vC13RuleStruct("ipv4", 5) }
func H_C13_var_ipv6()           { vC13RuleVar("ipv6", 4) }
func H_C13_struct_ipv6()        { vC13RuleStruct("ipv6", 3) }
func H_C13T_var_ipv6()          { vC13RuleVar("ipv6", 6) }
func H_C13T_struct_ipv6()       { vC13RuleStruct("ipv6", 5) }
func H_C13_var_unique()         { vC13RuleVar("unique", 4) }
func H_C13_struct_unique()      { vC13RuleStruct("unique", 3) }
func H_C13T_var_unique()        { vC13RuleVar("unique", 6) }
func H_C13T_struct_unique()     { vC13RuleStruct("unique", 5) }
func H_C13_var_json()           { vC13RuleVar("json", 4) }
func H_C13_struct_json()        { vC13RuleStruct("json", 3) }
func H_C13T_var_json()          { vC13RuleVar("json", 6) }
func H_C13T_struct_json()       { vC13RuleStruct("json", 5) }
func H_C13_var_prefix()         { vC13RuleVar("prefix", 4) }
func H_C13_struct_prefix()      { vC13RuleStruct("prefix", 3) }
func H_C13T_var_prefix()        { vC13RuleVar("prefix", 6) }
func H_C13T_struct_prefix()     { vC13RuleStruct("prefix", 5) }
func H_C13_var_suffix()         { vC13RuleVar("suffix", 4) }
func H_C13_struct_suffix()      { vC13RuleStruct("suffix", 3) }
func H_C13T_var_suffix()        { vC13RuleVar("suffix", 6) }
func H_C13T_struct_suffix()     { vC13RuleStruct("suffix", 5) }
func H_C13_var_file()           { vC13RuleVar("file", 4) }
func H_C13_struct_file()        { vC13RuleStruct("file", 3) }
func H_C13T_var_file()          { vC13RuleVar("file", 6) }
func H_C13T_struct_file()       { vC13RuleStruct("file", 5) }
func H_C13_var_dir()            { vC13RuleVar("dir", 4) }
func H_C13_struct_dir()         { vC13RuleStruct("dir", 3) }
func H_C13T_var_dir()           { vC13RuleVar("dir", 6) }
func H_C13T_struct_dir()        { vC13RuleStruct("dir", 5) }

// fully symbolic rule text (unknown names, stray separators and quotes)
func H_C13_free_var()    { vC13RuleVar("", 4) }
func H_C13_free_struct() { vC13RuleStruct("", 3) }
func H_C13T_free_var()   { vC13RuleVar("", 6) }

// quoted / bracketed arguments with separators inside: key='q'post, key=(q)post
func vC13Quoted(key, open, close string, max int) {
	q := vndString("q", max)
	post := vndString("post", 1)
	if open == "(" {
		vAssume(vNoByte(q, ',')) // brackets do not protect commas; rule lists are covered elsewhere
	} else if key != "re" {
		vAssume(vNoByte(q, '\''))
	}
	vAssume(vNoByte(post, ','))
	text := key + "=" + open + q + close + post
	switch vndChoice("carrier", 3) {
	case 0:
		vC13Call("Var(string) quoted "+key, func() { _ = Var("a1", text) })
	case 1:
		vC13Call("Var(int) quoted "+key, func() { _ = Var(5, text) })
	case 2:
		vC13Call("Struct quoted "+key, func() {
			_ = Struct(&vC13Fields{S: "2006-01-02", L: []string{"1", "a"}}, NewRule().Set("S", text).Set("L", text))
		})
	}
	vReach("end")
}

func H_C13_quoted_datetime()   { vC13Quoted("datetime", "'", "'", 4) }
func H_C13_quoted_date()       { vC13Quoted("date", "'", "'", 3) }
func H_C13_quoted_year2month() { vC13Quoted("year2month", "'", "'", 3) }
func H_C13_quoted_re()         { vC13Quoted("re", "'", "'", 3) }
func H_C13_quoted_in()         { vC13Quoted("in", "(", ")", 3) }
func H_C13_quoted_include()    { vC13Quoted("include", "(", ")", 3) }
func H_C13_quoted_ints()       { vC13Quoted("ints", "'", "'", 3) }
func H_C13T_quoted_datetime()  { vC13Quoted("datetime", "'", "'", 6) }
func H_C13T_quoted_re()        { vC13Quoted("re", "'", "'", 5) }
func H_C13T_quoted_in()        { vC13Quoted("in", "(", ")", 5) }

// the same (possibly malformed) rule used twice in one process: caches of parsed rules must not turn
// the second use into a crash
func vC13Twice(key string, max int) {
	tail := vndString("tail", max)
	vAssume(vNoByte(tail, ','))
	text := key + tail
	vC13Call("first use "+key, func() { _ = Var("a1", text) })
	vC13Call("second use "+key, func() { _ = Var("a1", text) })
	vC13Call("third use through Struct "+key, func() {
		_ = Struct([]vC13Fields{{S: "a1"}, {S: "b2"}}, NewRule().Set("S", text))
	})
	vReach("end")
}

func H_C13_twice_re()       { vC13Twice("re='", 3) }
func H_C13_twice_in()       { vC13Twice("in=(", 3) }
func H_C13_twice_datetime() { vC13Twice("datetime='", 3) }
func H_C13_twice_to()       { vC13Twice("to=", 3) }
func H_C13_twice_ints()     { vC13Twice("ints=", 2) }

// botheq / either members of uncomparable dynamic types
type vC13Unc struct {
	A []int          `valid:"botheq=1"`
	B []int          `valid:"botheq=1"`
	M map[string]int `valid:"botheq=2,either=3"`
	N map[string]int `valid:"botheq=2,either=3"`
	S vC13Fields     `valid:"botheq=4"`
	T vC13Fields     `valid:"botheq=4"`
}

func H_C13_uncomparable_groups() {
	o := &vC13Unc{A: []int{1, vndInt("a")}, B: []int{1, 2}, M: map[string]int{"k": 1}, N: map[string]int{"k": vndInt("n")}, S: vC13Fields{L: []string{"x"}}, T: vC13Fields{L: []string{"x"}}}
	vC13Call("Struct with groups of slices, maps and structs holding slices", func() { _ = Struct(o) })
	vC13Call("Map with groups of uncomparable values", func() {
		_ = Map(map[string]interface{}{"a": []int{1}, "b": []int{1}, "c": map[string]int{"x": 1}, "d": map[string]int{"x": 1}},
			NewRule().Set("a", "botheq=1").Set("b", "botheq=1").Set("c", "botheq=2,either=3").Set("d", "botheq=2,either=3"))
	})
	vReach("end")
}

// self-referential and mutually recursive struct types (lists, trees, parent/child): analysing the
// type must terminate, whatever finite value is passed
type vC13List struct {
	V    string    `valid:"required"`
	Next *vC13List `valid:"exist"`
}

type vC13Tree struct {
	Kids []*vC13Tree         `valid:"exist"`
	ByK  map[string]vC13Tree `valid:"exist"`
	Up   **vC13Tree          `valid:"exist"`
	Name string              `valid:"to=1~3"`
}

type vC13Parent struct {
	Child *vC13Child `valid:"required"`
	N     int        `valid:"ge=1"`
}

type vC13Child struct {
	Back  *vC13Parent   `valid:"exist"`
	Sibs  []vC13Child   `valid:"exist"`
	Label string        `valid:"required"`
	Arr   [1]*vC13Child `valid:"exist"`
}

func H_C13_recursive_types() {
	s := vndString("s", 2)
	switch vndChoice("shape", 6) {
	case 0:
		vC13Call("Struct(list of one)", func() { _ = Struct(&vC13List{V: s}) })
	case 1:
		vC13Call("Struct(list of three)", func() { _ = Struct(&vC13List{V: "a", Next: &vC13List{V: s, Next: &vC13List{}}}) })
	case 2:
		vC13Call("Struct(tree)", func() {
			_ = Struct(&vC13Tree{Name: s, Kids: []*vC13Tree{nil, {Name: "abcd"}}, ByK: map[string]vC13Tree{"k": {Name: s}}})
		})
	case 3:
		vC13Call("Struct(parent/child)", func() {
			_ = Struct(&vC13Parent{N: 1, Child: &vC13Child{Label: s, Back: &vC13Parent{}, Sibs: []vC13Child{{}}}})
		})
	case 4:
		vC13Call("Struct([]list)", func() { _ = Struct([]*vC13List{{V: s}, nil}) })
	case 5:
		vC13Call("Struct(list) with a rule set for the type", func() {
			_ = Struct(&vC13List{V: s, Next: &vC13List{V: "x"}}, RM{"V": "required,le=1", "Next": "required"})
		})
	}
	vReach("end")
}

// elements whose types have String/Error methods with value receivers, held as nil pointers (fmt prints
// <nil> for them; calling the method directly would dereference nil), through the rules that render elements
type vC13Str struct{ n int }

func (s vC13Str) String() string { return "S" }

type vC13Err struct{ n int }

func (e vC13Err) Error() string { return "E" }

type vC13Named struct {
	L []*vC13Str          `valid:"unique,ints"`
	E [2]*vC13Err         `valid:"unique"`
	T []*time.Time        `valid:"unique,required"`
	M map[string]*vC13Str `valid:"required"`
}

func H_C13_nil_stringers() {
	s := &vC13Str{n: vndInt("n")}
	switch vndChoice("shape", 6) {
	case 0:
		vC13Call("Var([]*Stringer{nil}, unique)", func() { _ = Var([]*vC13Str{nil, s}, "unique") })
	case 1:
		vC13Call("Var([2]*error-like{}, unique,ints)", func() { _ = Var([2]*vC13Err{}, "unique", "ints") })
	case 2:
		vC13Call("Var([]*time.Time{nil}, unique)", func() { _ = Var([]*time.Time{nil, nil}, "unique", "in=(a/b)") })
	case 3:
		vC13Call("Struct with nil Stringer elements", func() {
			_ = Struct(&vC13Named{L: []*vC13Str{nil}, T: []*time.Time{nil}, M: map[string]*vC13Str{"k": nil}})
		})
	case 4:
		vC13Call("Map with nil Stringer values", func() {
			_ = Map(map[string]interface{}{"a": []*vC13Str{nil, s}, "b": (*vC13Str)(nil)}, NewRule().Set("a", "unique,ints").Set("b", "in=(S)"))
		})
	case 5:
		vC13Call("Struct(map with Stringer keys)", func() { _ = Struct(map[vC13Str]*vC13Inner{{1}: nil, {2}: {N: "n", M: 2}}) })
	}
	vReach("end")
}

// several validators alive at once after earlier calls have returned theirs to the pool: explicit
// validators side by side, and a rule function that validates something itself
func H_C13_live_validators() {
	vPoolMode("lifo") // what one P does: the object put last is the one handed out next
	n := vndString("n", 1)
	o := &vC13Inner{N: n, M: 2}
	vC13Call("warm-up calls", func() {
		_ = Struct(o)
		_ = Struct(nil)
		_ = Var(n, "required")
		_ = Var(nil, "required")
		_ = Map(map[string]string{"k": n}, NewRule().Set("k", "required"))
		_ = Url("h?k="+"1", NewRule().Set("k", "required"))
	})
	switch vndChoice("shape", 4) {
	case 0:
		vC13Call("two struct validators side by side", func() {
			a, b := NewVStruct(), NewVStruct()
			a.SetRule(RM{"N": "required"})
			_ = b.Valid(o)
			_ = a.Valid(&vC13Inner{M: 9})
		})
	case 1:
		vC13Call("two variable validators side by side", func() {
			a, b := NewVVar(), NewVVar()
			a.SetRules("required")
			b.SetRules("ge=1")
			_ = b.Valid(n)
			_ = a.Valid("")
		})
	case 2:
		vC13Call("a rule function that validates something itself", func() {
			inner := func(errBuf *strings.Builder, validName, objName, fieldName string, tv reflect.Value) {
				if err := Struct(&vC13Inner{N: tv.String(), M: 1}); err != nil {
					errBuf.WriteString(GetJoinValidErrStr(objName, fieldName, tv.String(), err.Error()))
				}
				_ = Var(tv.String(), "required", "le=3")
			}
			_ = StructForFns(o, RM{"N": "nested"}, Name2FnMap{"nested": inner})
			_ = NewVVar().SetRules("nested").SetValidFn("nested", inner).Valid(n)
		})
	case 3:
		vC13Call("map and url validators side by side", func() {
			a, b := NewVMap(), NewVUrl()
			a.SetRule(NewRule().Set("k", "required"))
			b.SetRule(NewRule().Set("k", "required"))
			_ = b.Valid("h?k=" + "1")
			_ = a.Valid(map[string]string{"k": n})
		})
	}
	vReach("end")
}

// embedded structs and embedded pointers (nil and non-nil), with rules on the promoted fields' types
type VC13Base struct {
	ID string `valid:"required"`
}

type vC13Emb struct {
	*VC13Base
	vC13Inner
	Name string `valid:"required"`
}

type vC13EmbMarked struct {
	*VC13Base `valid:"exist"`
	vC13Inner `valid:"required"`
}

func H_C13_embedded() {
	n := vndString("n", 1)
	switch vndChoice("shape", 5) {
	case 0:
		vC13Call("Struct(embedded nil pointer)", func() { _ = Struct(&vC13Emb{Name: n}) })
	case 1:
		vC13Call("Struct(embedded pointer set)", func() { _ = Struct(&vC13Emb{VC13Base: &VC13Base{ID: n}, Name: "x"}) })
	case 2:
		vC13Call("Struct(embedded nil pointer, marked)", func() { _ = Struct(&vC13EmbMarked{vC13Inner: vC13Inner{N: n, M: 1}}) })
	case 3:
		vC13Call("Struct([]T with embedded nil pointers, rule set naming a promoted field)", func() {
			_ = Struct([]vC13Emb{{Name: n}, {}}, RM{"ID": "required", "N": "le=1"})
		})
	case 4:
		vC13Call("Struct(map of embedded)", func() { _ = Struct(map[string]*vC13EmbMarked{"k": {}, "j": nil}) })
	}
	vReach("end")
}

// ---- round 4 ----

// the value, not the rule text, is arbitrary here: every built-in rule on every string of 1..3 arbitrary bytes
// (control bytes, quotes, backslashes, malformed UTF-8 included -- the bytes the clause builder has to escape or
// echo), through Var and as a struct field, a map entry and a percent-encoded URL parameter
type vC13SV struct{ F string }

func vC13ValueBytes(rule string, max int) {
	s := vndString("s", max)
	vAssume(len(s) > 0)
	switch vndChoice("carrier", 4) {
	case 0:
		vC13Call("Var(arbitrary bytes) "+rule, func() { _ = Var(s, rule) })
	case 1:
		vC13Call("Struct(arbitrary bytes) "+rule, func() { _ = Struct(&vC13SV{F: s}, NewRule().Set("F", rule)) })
	case 2:
		vC13Call("Map(arbitrary bytes) "+rule, func() { _ = Map(map[string]string{"k": s}, NewRule().Set("k", rule)) })
	case 3:
		vC13Call("Url(arbitrary bytes) "+rule, func() { _ = Url("h?k="+vPctEncode(s), NewRule().Set("k", rule)) })
	}
	vReach("end")
}
func H_C13_value_to()          { vC13ValueBytes("to=1~2", 2) }
func H_C13T_value_to()         { vC13ValueBytes("to=1~2", 3) }
func H_C13_value_eq()          { vC13ValueBytes("eq=2", 2) }
func H_C13T_value_eq()         { vC13ValueBytes("eq=2", 3) }
func H_C13_value_in()          { vC13ValueBytes("in=(a/b)", 2) }
func H_C13T_value_in()         { vC13ValueBytes("in=(a/b)", 3) }
func H_C13_value_include()     { vC13ValueBytes("include=(a/b)", 2) }
func H_C13T_value_include()    { vC13ValueBytes("include=(a/b)", 3) }
func H_C13_value_phone()       { vC13ValueBytes("phone", 2) }
func H_C13T_value_phone()      { vC13ValueBytes("phone", 3) }
func H_C13_value_email()       { vC13ValueBytes("email", 2) }
func H_C13T_value_email()      { vC13ValueBytes("email", 3) }
func H_C13_value_idcard()      { vC13ValueBytes("idcard", 2) }
func H_C13T_value_idcard()     { vC13ValueBytes("idcard", 3) }
func H_C13_value_year()        { vC13ValueBytes("year", 2) }
func H_C13T_value_year()       { vC13ValueBytes("year", 3) }
func H_C13_value_year2month()  { vC13ValueBytes("year2month", 2) }
func H_C13T_value_year2month() { vC13ValueBytes("year2month", 3) }
func H_C13_value_date()        { vC13ValueBytes("date", 2) }
func H_C13T_value_date()       { vC13ValueBytes("date", 3) }
func H_C13_value_datetime()    { vC13ValueBytes("datetime", 2) }
func H_C13T_value_datetime()   { vC13ValueBytes("datetime", 3) }
func H_C13_value_int()         { vC13ValueBytes("int", 2) }
func H_C13T_value_int()        { vC13ValueBytes("int", 3) }
func H_C13_value_ints()        { vC13ValueBytes("ints", 2) }
func H_C13T_value_ints()       { vC13ValueBytes("ints", 3) }
func H_C13_value_float()       { vC13ValueBytes("float", 2) }
func H_C13T_value_float()      { vC13ValueBytes("float", 3) }
func H_C13_value_re()          { vC13ValueBytes("re='^a+$'", 2) }
func H_C13T_value_re()         { vC13ValueBytes("re='^a+$'", 3) }
func H_C13_value_ip()          { vC13ValueBytes("ip", 2) }
func H_C13T_value_ip()         { vC13ValueBytes("ip", 3) }
func H_C13_value_ipv4()        { vC13ValueBytes("ipv4", 2) }
func H_C13T_value_ipv4()       { vC13ValueBytes("ipv4", 3) }
func H_C13_value_ipv6()        { vC13ValueBytes("ipv6", 2) }
func H_C13T_value_ipv6()       { vC13ValueBytes("ipv6", 3) }
func H_C13_value_unique()      { vC13ValueBytes("unique", 2) }
func H_C13T_value_unique()     { vC13ValueBytes("unique", 3) }
func H_C13_value_json()        { vC13ValueBytes("json", 2) }
func H_C13T_value_json()       { vC13ValueBytes("json", 3) }
func H_C13_value_prefix()      { vC13ValueBytes("prefix=a", 2) }
func H_C13T_value_prefix()     { vC13ValueBytes("prefix=a", 3) }
func H_C13_value_suffix()      { vC13ValueBytes("suffix=a", 2) }
func H_C13T_value_suffix()     { vC13ValueBytes("suffix=a", 3) }
func H_C13_value_file()        { vC13ValueBytes("file", 2) }
func H_C13T_value_file()       { vC13ValueBytes("file", 3) }
func H_C13_value_dir()         { vC13ValueBytes("dir", 2) }
func H_C13T_value_dir()        { vC13ValueBytes("dir", 3) }
func H_C13_value_intsq()       { vC13ValueBytes("ints=';'", 2) }
func H_C13T_value_intsq()      { vC13ValueBytes("ints=';'", 3) }
func H_C13_value_datesl()      { vC13ValueBytes("date=/", 2) }
func H_C13T_value_datesl()     { vC13ValueBytes("date=/", 3) }
func H_C13_value_msg()         { vC13ValueBytes("json|bad json", 2) }
func H_C13T_value_msg()        { vC13ValueBytes("json|bad json", 3) }
