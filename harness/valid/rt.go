//go:build verif

package valid

// Harness runtime, native side. Under the symbolic executor (gosym) every
// function in this file is intercepted by name; the bodies below are what
// runs when a solver model is replayed against the real build
// (VERIF_REPLAY=<json> go test -tags verif -overlay ... -run TestVerifReplay).

import (
	"encoding/hex"
	"encoding/json"
	"fmt"
	"math"
	"math/big"
	"os"
	"reflect"
	"strconv"
	"strings"
	"sync"
	"unicode/utf8"
)

type vReplayFile struct {
	Harness string            `json:"harness"`
	Kind    string            `json:"kind"`
	Label   string            `json:"label"`
	Values  map[string]string `json:"values"`
}

// vCleanup, when set (by the file-system runtime), runs after a replay.
var vCleanup func()

var (
	vReplay     *vReplayFile
	vFailed     []string
	vAssumeFail bool
	vReached    []string
)

func vLoadReplay() {
	if vReplay != nil {
		return
	}
	vReplay = &vReplayFile{Values: map[string]string{}}
	p := os.Getenv("VERIF_REPLAY")
	if p == "" {
		return
	}
	b, err := os.ReadFile(p)
	if err != nil {
		panic("verif: cannot read replay file: " + err.Error())
	}
	if err := json.Unmarshal(b, vReplay); err != nil {
		panic("verif: bad replay file: " + err.Error())
	}
	if vReplay.Values == nil {
		vReplay.Values = map[string]string{}
	}
}

func vVal(name string) (string, bool) {
	vLoadReplay()
	s, ok := vReplay.Values[name]
	return s, ok
}

func vInt64(name string) int64 {
	s, ok := vVal(name)
	if !ok {
		return 0
	}
	n, err := strconv.ParseInt(s, 10, 64)
	if err != nil {
		u, _ := strconv.ParseUint(s, 10, 64)
		return int64(u)
	}
	return n
}

func vUint64(name string) uint64 {
	s, ok := vVal(name)
	if !ok {
		return 0
	}
	u, err := strconv.ParseUint(s, 10, 64)
	if err != nil {
		n, _ := strconv.ParseInt(s, 10, 64)
		return uint64(n)
	}
	return u
}

func vndInt(name string) int       { return int(vInt64(name)) }
func vndInt8(name string) int8     { return int8(vInt64(name)) }
func vndInt16(name string) int16   { return int16(vInt64(name)) }
func vndInt32(name string) int32   { return int32(vInt64(name)) }
func vndInt64(name string) int64   { return vInt64(name) }
func vndUint(name string) uint     { return uint(vUint64(name)) }
func vndUint8(name string) uint8   { return uint8(vUint64(name)) }
func vndUint16(name string) uint16 { return uint16(vUint64(name)) }
func vndUint32(name string) uint32 { return uint32(vUint64(name)) }
func vndUint64(name string) uint64 { return vUint64(name) }
func vndByte(name string) byte     { return byte(vUint64(name)) }
func vndBool(name string) bool     { s, _ := vVal(name); return s == "true" }

func vndFloat64(name string) float64 {
	s, ok := vVal(name)
	if !ok {
		return 0
	}
	u, _ := strconv.ParseUint(strings.TrimPrefix(s, "f64:"), 16, 64)
	return math.Float64frombits(u)
}

func vndFloat32(name string) float32 {
	s, ok := vVal(name)
	if !ok {
		return 0
	}
	u, _ := strconv.ParseUint(strings.TrimPrefix(s, "f32:"), 16, 32)
	return math.Float32frombits(uint32(u))
}

func vBytes(name string) []byte {
	s, ok := vVal(name)
	if !ok {
		return nil
	}
	b, _ := hex.DecodeString(strings.TrimPrefix(s, "hex:"))
	return b
}

func vndString(name string, max int) string { return string(vBytes(name)) }
func vndStringN(name string, n int) string {
	b := vBytes(name)
	for len(b) < n {
		b = append(b, 0)
	}
	return string(b[:n])
}
func vndLen(name string, max int) int  { return int(vInt64(name)) }
func vndChoice(name string, n int) int { return int(vInt64(name)) }

func vAssume(c bool) {
	if !c {
		vAssumeFail = true
	}
}

func vAssert(c bool, label string) {
	if !c {
		vFailed = append(vFailed, label)
	}
}

func vReach(label string) { vReached = append(vReached, label) }

func vAnd(a, b bool) bool     { return a && b }
func vOr(a, b bool) bool      { return a || b }
func vNot(a bool) bool        { return !a }
func vImplies(a, b bool) bool { return !a || b }
func vIteInt(c bool, a, b int) int {
	if c {
		return a
	}
	return b
}
func vItoa(n int) string            { return strconv.Itoa(n) }
func vValidUTF8(s string) bool      { return utf8.ValidString(s) }
func vConcretize(x, lo, hi int) int { vAssume(x >= lo && x <= hi); return x }
func vSummarise(what string)        {}
func vTrace(on bool)                {}
func vPoolMode(mode string)         {}
func vIsNaN(f float64) bool         { return math.IsNaN(f) }
func vIsInf(f float64) bool         { return math.IsInf(f, 0) }

// vNoPanic reports whether f returned normally.
func vNoPanic(f func()) (ok bool) {
	defer func() {
		if r := recover(); r != nil {
			ok = false
		}
	}()
	f()
	return true
}

func vPanicMsg(f func()) (msg string) {
	defer func() {
		if r := recover(); r != nil {
			msg = fmt.Sprint(r)
		}
	}()
	f()
	return ""
}

// vFloatCmpInt compares f with n as mathematical numbers: -1, 0, 1; NaN gives 2.
func vFloatCmpInt(f float64, n int) int {
	if math.IsNaN(f) {
		return 2
	}
	if math.IsInf(f, 1) {
		return 1
	}
	if math.IsInf(f, -1) {
		return -1
	}
	return new(big.Float).SetFloat64(f).Cmp(new(big.Float).SetInt64(int64(n)))
}

// vSameJSON: natively both texts must be well-formed JSON that decode to the same document
// (encoding/json is the arbiter); under the executor it is text equality, which is stricter --
// a difference that is only textual shows up as a non-reproducing counterexample, never as a violation.
func vSameJSON(a, b string) bool {
	var x, y interface{}
	if err := json.Unmarshal([]byte(a), &x); err != nil {
		return false
	}
	if err := json.Unmarshal([]byte(b), &y); err != nil {
		return false
	}
	return reflect.DeepEqual(x, y)
}

// goroutines of a harness: natively real goroutines (the replay of a data race runs under the race detector)
var vWG sync.WaitGroup

func vGo(f func()) {
	vWG.Add(1)
	go func() {
		defer vWG.Done()
		f()
	}()
}

func vJoin() { vWG.Wait() }

// vSchedBound(n): the executor explores only schedules with at most n preemptive switches of the
// goroutines registered afterwards (n < 0: all schedules). Natively it does nothing.
func vSchedBound(n int) {}

// vNativeStress does nothing under the executor. Natively (replay of a race or of an
// interleaving-dependent result) it hammers the given checks from many goroutines so that a real
// interference has a chance to show: each f reports whether its call still returns its solo result.
var vStressDone bool

func vNativeStress(label string, fs ...func() bool) {
	if os.Getenv("VERIF_REPEAT") == "" || vStressDone {
		return
	}
	vStressDone = true // once per process, not once per repetition
	var wg sync.WaitGroup
	var mu sync.Mutex
	bad := false
	for g := 0; g < 8; g++ {
		for _, f := range fs {
			f := f
			wg.Add(1)
			go func() {
				defer wg.Done()
				for i := 0; i < 3000; i++ {
					if !f() {
						mu.Lock()
						bad = true
						mu.Unlock()
						return
					}
				}
			}()
		}
	}
	wg.Wait()
	if bad {
		vFailed = append(vFailed, label)
	}
}
