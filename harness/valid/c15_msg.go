//go:build verif

package valid

import "strings"

// C15: custom messages replace the default text verbatim (with the label
// chosen by CJK detection), and GetOnlyExplainErr extracts exactly the
// explanation parts of labelled clauses.

type vC15Rule struct {
	name    string // harness suffix
	rule    string // rule text without message
	witness string // a string value that violates the rule
}

// every rule the README marks as supporting a custom message, with a violating witness
var vC15Rules = []vC15Rule{
	{"to", "to=1~2", "abc"},
	{"to_lo", "to=5~6", "abc"},
	{"ge", "ge=5", "abc"},
	{"le", "le=1", "abc"},
	{"oto", "oto=1~3", "abc"},
	{"oto_lo", "oto=3~9", "abc"},
	{"gt", "gt=3", "abc"},
	{"lt", "lt=3", "abc"},
	{"eq", "eq=5", "abc"},
	{"noeq", "noeq=3", "abc"},
	{"in", "in=(a/b)", "abc"},
	{"include", "include=(x/y)", "abc"},
	{"phone", "phone", "abc"},
	{"email", "email", "abc"},
	{"idcard", "idcard", "abc"},
	{"year", "year", "abc"},
	{"year2month", "year2month", "abc"},
	{"year2month_sep", "year2month=/", "abc"},
	{"date", "date", "abc"},
	{"date_sep", "date='/'", "abc"},
	{"datetime", "datetime", "abc"},
	{"datetime_sep", "datetime='/, ,:'", "abc"},
	{"int", "int", "abc"},
	{"ints", "ints", "a,b"},
	{"ints_sep", "ints=-", "a-b"},
	{"float", "float", "abc"},
	{"re", "re='^[0-9]+$'", "abc"},
	{"ip", "ip", "abc"},
	{"ipv4", "ipv4", "::1"},
	{"ipv6", "ipv6", "1.2.3.4"},
	{"unique", "unique", "a,a"},
	{"json", "json", "abc"},
	{"prefix", "prefix=x", "abc"},
	{"suffix", "suffix=x", "abc"},
	{"file", "file", "/"},
	{"dir", "dir", "/etc/passwd"},
	{"file_missing", "file", "/verif-no-such-path"},
	{"dir_missing", "dir", "/verif-no-such-path"},
	{"re_alt", "re='^(cat|dog)$'", "abc"},
	{"re_alt2", "re='a|b|c$'", "xyz"},
}

// default wording of rules whose argument may itself contain the message delimiter
var vC15Default = map[string]string{
	"re_alt":  "regex match is failed, pattern: ^(cat|dog)$",
	"re_alt2": "regex match is failed, pattern: a|b|c$",
	"re":      "regex match is failed, pattern: ^[0-9]+$",
}

func vC15Msg(name string, max int) string {
	msg := vndString(name, max)
	vAssume(len(msg) > 0)
	vAssume(vValidUTF8(msg))
	vAssume(vNoByte(msg, ','))
	vAssume(vNoByte(msg, '\''))
	vAssume(vNoByte(msg, '|'))
	return msg
}

type vC15S struct{ F string }

func vC15One(i int, max int) {
	r := vC15Rules[i]
	carrier := vndChoice("carrier", 3)
	if carrier == 2 {
		// no message: default wording with the English label
		err := Var(r.witness, r.rule)
		vAssert(err != nil, "C15 "+r.name+": witness violates the rule")
		if err != nil {
			s := err.Error()
			pre := "input \"" + r.witness + "\", " + ExplainEn + " "
			vAssert(len(s) > len(pre) && s[:len(pre)] == pre, "C15 "+r.name+": default wording carries the English label")
			if d, ok := vC15Default[r.name]; ok {
				vAssert(s == pre+d, "C15 "+r.name+": default wording when no message is given")
			}
		}
		vReach("default")
		return
	}
	msg := vC15Msg("msg", max)
	text := r.rule + "|" + msg
	want := "input \"" + r.witness + "\", " + vC14Label(msg)
	var err error
	if carrier == 0 {
		err = Var(r.witness, text)
	} else {
		err = Struct(&vC15S{F: r.witness}, NewRule().Set("F", text))
		want = "\"vC15S.F\" " + want
	}
	vAssert(err != nil, "C15 "+r.name+": witness violates the rule")
	if err != nil {
		vAssert(err.Error() == want, "C15 "+r.name+": clause shows the custom message verbatim with its label")
	}
	vReach("custom")
}

// required / exist (built into the walkers)
type vC15R struct {
	F string
	G int
}

func H_C15_required() {
	msg := vC15Msg("msg", 4)
	switch vndChoice("carrier", 4) {
	case 0:
		err := Var("", "required|"+msg)
		vAssert(err != nil && err.Error() == "input \"\", "+vC14Label(msg), "C15 required/Var: clause shows the custom message")
	case 1:
		err := Struct(&vC15R{}, NewRule().Set("F", "required|"+msg))
		vAssert(err != nil && err.Error() == "\"vC15R.F\" input \"\", "+vC14Label(msg), "C15 required/Struct: clause shows the custom message")
	case 2:
		err := Map(map[string]string{"k": ""}, NewRule().Set("k", "required|"+msg))
		vAssert(err != nil && err.Error() == "\"map[k]\" input \"\", "+vC14Label(msg), "C15 required/Map: clause shows the custom message")
	case 3:
		err := Url("h?k=", NewRule().Set("k", "required|"+msg))
		vAssert(err != nil && err.Error() == "\"k\" input \"\", "+vC14Label(msg), "C15 required/Url: clause shows the custom message")
	}
	vReach("end")
}

func H_C15_exist() {
	msg := vC15Msg("msg", 4)
	err := Struct(&vC15R{G: 7}, NewRule().Set("G", "exist|"+msg))
	vAssert(err != nil && err.Error() == "\"vC15R.G\" input \"<int Value>\", "+vC14Label(msg), "C15 exist: clause shows the custom message")
	vReach("end")
}

// ---- extractor ----

// clause classes: 0 = Chinese label, 1 = English label, 2 = unlabelled
func vC15Clause(i int, class int, max int) (text string, body string) {
	names := []string{"b0", "b1", "b2", "b3"}
	pre := "\"T.F" + names[i][1:] + "\" input \"x\", "
	if class == 2 {
		return "\"T.F" + names[i][1:] + "\" valid \"zz\" is not exist, You can call SetValidFn", ""
	}
	b := vndString(names[i], max)
	vAssume(len(b) > 0)
	vAssume(vValidUTF8(b))
	vAssume(vNoByte(b, ';'))
	if class == 0 {
		return pre + ExplainZh + " " + b, b
	}
	return pre + ExplainEn + " " + b, b
}

func vC15Extract(n int, max int) {
	names := []string{"c0", "c1", "c2", "c3"}
	text, want := "", ""
	for i := 0; i < n; i++ {
		c, b := vC15Clause(i, vndChoice(names[i], 3), max)
		if i > 0 {
			text += ErrEndFlag
		}
		text += c
		if b != "" {
			if want != "" {
				want += ErrEndFlag
			}
			want += b
		}
	}
	var got string
	ok := vNoPanic(func() { got = GetOnlyExplainErr(text) })
	vAssert(ok, "C15 extractor: never fails")
	if ok {
		vAssert(got == want, "C15 extractor: returns exactly the explanation parts in order")
	}
	vReach("end")
}

func H_C15_extract1() { vC15Extract(1, 3) }
func H_C15_extract2() { vC15Extract(2, 2) }
func H_C15_extract3() { vC15Extract(3, 1) }

// the extractor applied to an error actually produced by the library
type vC15Mix struct {
	A string `valid:"required|必填"`
	B string `valid:"required|need"`
	C string `valid:"nosuchrule"`
	D string `valid:"required"`
}

func H_C15_extract_real() {
	m := &vC15Mix{C: "c"}
	if vndBool("a") {
		m.A = "a"
	}
	if vndBool("b") {
		m.B = "b"
	}
	if vndBool("d") {
		m.D = "d"
	}
	err := Struct(m)
	vAssert(err != nil, "C15 extractor(real): unknown rule is always reported")
	want := ""
	add := func(s string) {
		if want != "" {
			want += ErrEndFlag
		}
		want += s
	}
	if m.A == "" {
		add("必填")
	}
	if m.B == "" {
		add("need")
	}
	if m.D == "" {
		add("it is required")
	}
	var got string
	ok := vNoPanic(func() { got = GetOnlyExplainErr(err.Error()) })
	vAssert(ok, "C15 extractor(real): never fails")
	if ok {
		vAssert(got == want, "C15 extractor(real): explanation parts of the labelled clauses, in order")
	}
	vReach("end")
}

// one harness per rule (generated list; index = position in vC15Rules)
func H_C15_rule_to()              { vC15One(0, 4) }
func H_C15T_rule_to()             { vC15One(0, 6) }
func H_C15_rule_to_lo()           { vC15One(1, 4) }
func H_C15T_rule_to_lo()          { vC15One(1, 6) }
func H_C15_rule_ge()              { vC15One(2, 4) }
func H_C15T_rule_ge()             { vC15One(2, 6) }
func H_C15_rule_le()              { vC15One(3, 4) }
func H_C15T_rule_le()             { vC15One(3, 6) }
func H_C15_rule_oto()             { vC15One(4, 4) }
func H_C15T_rule_oto()            { vC15One(4, 6) }
func H_C15_rule_oto_lo()          { vC15One(5, 4) }
func H_C15T_rule_oto_lo()         { vC15One(5, 6) }
func H_C15_rule_gt()              { vC15One(6, 4) }
func H_C15T_rule_gt()             { vC15One(6, 6) }
func H_C15_rule_lt()              { vC15One(7, 4) }
func H_C15T_rule_lt()             { vC15One(7, 6) }
func H_C15_rule_eq()              { vC15One(8, 4) }
func H_C15T_rule_eq()             { vC15One(8, 6) }
func H_C15_rule_noeq()            { vC15One(9, 4) }
func H_C15T_rule_noeq()           { vC15One(9, 6) }
func H_C15_rule_in()              { vC15One(10, 4) }
func H_C15T_rule_in()             { vC15One(10, 6) }
func H_C15_rule_include()         { vC15One(11, 4) }
func H_C15T_rule_include()        { vC15One(11, 6) }
func H_C15_rule_phone()           { vC15One(12, 4) }
func H_C15T_rule_phone()          { vC15One(12, 6) }
func H_C15_rule_email()           { vC15One(13, 4) }
func H_C15T_rule_email()          { vC15One(13, 6) }
func H_C15_rule_idcard()          { vC15One(14, 4) }
func H_C15T_rule_idcard()         { vC15One(14, 6) }
func H_C15_rule_year()            { vC15One(15, 4) }
func H_C15T_rule_year()           { vC15One(15, 6) }
func H_C15_rule_year2month()      { vC15One(16, 4) }
func H_C15T_rule_year2month()     { vC15One(16, 6) }
func H_C15_rule_year2month_sep()  { vC15One(17, 4) }
func H_C15T_rule_year2month_sep() { vC15One(17, 6) }
func H_C15_rule_date()            { vC15One(18, 4) }
func H_C15T_rule_date()           { vC15One(18, 6) }
func H_C15_rule_date_sep()        { vC15One(19, 4) }
func H_C15T_rule_date_sep()       { vC15One(19, 6) }
func H_C15_rule_datetime()        { vC15One(20, 4) }
func H_C15T_rule_datetime()       { vC15One(20, 6) }
func H_C15_rule_datetime_sep()    { vC15One(21, 4) }
func H_C15T_rule_datetime_sep()   { vC15One(21, 6) }
func H_C15_rule_int()             { vC15One(22, 4) }
func H_C15T_rule_int()            { vC15One(22, 6) }
func H_C15_rule_ints()            { vC15One(23, 4) }
func H_C15T_rule_ints()           { vC15One(23, 6) }
func H_C15_rule_ints_sep()        { vC15One(24, 4) }
func H_C15T_rule_ints_sep()       { vC15One(24, 6) }
func H_C15_rule_float()           { vC15One(25, 4) }
func H_C15T_rule_float()          { vC15One(25, 6) }
func H_C15_rule_re()              { vC15One(26, 4) }
func H_C15T_rule_re()             { vC15One(26, 6) }
func H_C15_rule_ip()              { vC15One(27, 4) }
func H_C15T_rule_ip()             { vC15One(27, 6) }
func H_C15_rule_ipv4()            { vC15One(28, 4) }
func H_C15T_rule_ipv4()           { vC15One(28, 6) }
func H_C15_rule_ipv6()            { vC15One(29, 4) }
func H_C15T_rule_ipv6()           { vC15One(29, 6) }
func H_C15_rule_unique()          { vC15One(30, 4) }
func H_C15T_rule_unique()         { vC15One(30, 6) }
func H_C15_rule_json()            { vC15One(31, 4) }
func H_C15T_rule_json()           { vC15One(31, 6) }
func H_C15_rule_prefix()          { vC15One(32, 4) }
func H_C15T_rule_prefix()         { vC15One(32, 6) }
func H_C15_rule_suffix()          { vC15One(33, 4) }
func H_C15T_rule_suffix()         { vC15One(33, 6) }
func H_C15_rule_file()            { vC15One(34, 4) }
func H_C15T_rule_file()           { vC15One(34, 6) }
func H_C15_rule_dir()             { vC15One(35, 4) }
func H_C15T_rule_dir()            { vC15One(35, 6) }
func H_C15_rule_file_missing()    { vC15One(36, 4) }
func H_C15T_rule_file_missing()   { vC15One(36, 6) }
func H_C15_rule_dir_missing()     { vC15One(37, 4) }
func H_C15T_rule_dir_missing()    { vC15One(37, 6) }

// the extractor applied to errors produced by Var, Map and Url
func H_C15_extract_other() {
	a, b := vStr("a"), vStr("b")
	var err error
	want := ""
	add := func(s string) {
		if want != "" {
			want += ErrEndFlag
		}
		want += s
	}
	switch vndChoice("entry", 3) {
	case 0:
		err = Var(a, "required|必须有", "nosuch", "ge=2|too short")
		if a == "" {
			add("必须有")
		} else {
			add("too short")
		}
	case 1:
		err = Map(map[string]string{"k": a, "j": b}, NewRule().Set("k", "required|need k,zz").Set("j", "exist"))
		if err == nil {
			vReach("nil")
			return
		}
		// two keys: clause order follows map iteration; compare as a set of one or two parts
		got := GetOnlyExplainErr(err.Error())
		if a == "" {
			vAssert(got == "need k", "C15 extractor(Map): only the labelled clause")
		} else {
			vAssert(got == "", "C15 extractor(Map): no labelled clause, empty result")
		}
		vReach("end")
		return
	case 2:
		aa := vPlainText("ua", 1)
		err = Url("h?k="+aa+"&j=1", NewRule().Set("k", "required|需要 k,ge=2").Set("j", "exist,le=0|too big"))
		if aa == "" {
			add("需要 k")
		} else {
			add("it is less than 2 str-length")
		}
		add("too big")
	}
	vAssert(err != nil, "C15 extractor(other): an error is produced")
	if err != nil {
		var got string
		ok := vNoPanic(func() { got = GetOnlyExplainErr(err.Error()) })
		vAssert(ok, "C15 extractor(other): never fails")
		if ok {
			vAssert(got == want, "C15 extractor(other): explanation parts of the labelled clauses, in order")
		}
	}
	vReach("end")
}

// the label follows the message only: CJK text in the rule's value does not make an ASCII message Chinese
func H_C15_label_from_message() {
	msg := vC15Msg("msg", 3)
	switch vndChoice("rule", 4) {
	case 0:
		err := Var("abc", "in=(男/女)|"+msg)
		vAssert(err != nil && err.Error() == "input \"abc\", "+vC14Label(msg), "C15 label: CJK options, label chosen by the message")
	case 1:
		err := Var("abc", "prefix=名|"+msg)
		vAssert(err != nil && err.Error() == "input \"abc\", "+vC14Label(msg), "C15 label: CJK prefix, label chosen by the message")
	case 2:
		err := Var("abc", "re='^[一-龥]+$'|"+msg)
		vAssert(err != nil && err.Error() == "input \"abc\", "+vC14Label(msg), "C15 label: CJK pattern, label chosen by the message")
	case 3:
		_, _, m := ParseValidNameKV("include=(中)|" + msg)
		vAssert(m == vC14Label(msg), "C15 label: ParseValidNameKV decides by the message")
	}
	vReach("end")
}

func H_C15_rule_re_alt()   { vC15One(38, 4) }
func H_C15T_rule_re_alt()  { vC15One(38, 6) }
func H_C15_rule_re_alt2()  { vC15One(39, 4) }
func H_C15T_rule_re_alt2() { vC15One(39, 6) }

// the extractor on errors that mix field clauses with either / botheq group clauses
type vC15Grp struct {
	A string `valid:"either=1"`
	B string `valid:"either=1"`
	C int    `valid:"botheq=2"`
	D int    `valid:"botheq=2"`
	E string `valid:"required|need E"`
}

func H_C15_extract_groups() {
	o := &vC15Grp{A: vStr("A"), B: vStr("B"), C: vndInt("C"), D: vndInt("D"), E: vStr("E")}
	only := vndChoice("only", 3) // 0: all groups, 1: either group alone, 2: botheq group alone
	var err error
	switch only {
	case 0:
		err = Struct(o)
	case 1:
		err = Struct(o, RM{"C": "ge=-9223372036854775808", "D": "ge=-9223372036854775808", "E": "le=9"})
	case 2:
		err = Struct(o, RM{"A": "le=9", "B": "le=9", "E": "le=9"})
	}
	var want []string
	if only == 0 && o.E == "" {
		want = append(want, "need E")
	}
	eith := only != 2 && o.A == "" && o.B == ""
	both := only != 1 && o.C != o.D
	if err == nil {
		vAssert(len(want) == 0 && !eith && !both, "C15 extractor(groups): nil only when nothing is violated")
		vReach("nil")
		return
	}
	var got string
	ok := vNoPanic(func() { got = GetOnlyExplainErr(err.Error()) })
	vAssert(ok, "C15 extractor(groups): never fails")
	if !ok {
		return
	}
	e1, e2 := "they shouldn't all be empty", "they should be equal"
	base := strings.Join(want, ErrEndFlag)
	join := func(parts ...string) string {
		out := base
		for _, p := range parts {
			if out != "" {
				out += ErrEndFlag
			}
			out += p
		}
		return out
	}
	switch {
	case eith && both: // group clauses come last, in either order
		vAssert(got == join(e1, e2) || got == join(e2, e1), "C15 extractor(groups): explanation of every group clause")
	case eith:
		vAssert(got == join(e1), "C15 extractor(groups): explanation of the either clause")
	case both:
		vAssert(got == join(e2), "C15 extractor(groups): explanation of the botheq clause")
	default:
		vAssert(got == base, "C15 extractor(groups): field clauses only")
	}
	vReach("end")
}

// messages and echoed inputs with characters that formatting or case mapping could disturb: '%' verbs,
// runes whose lower-case form has another byte length (U+0130, U+1E9E, U+212A), through every carrier
func H_C15_verbatim_special() {
	msg := []string{"100% of", "50%d", "%s %v %!", "ends with %", "%%"}[vndChoice("msg", 5)]
	in := []string{"İstanbul", "STRAẞE", "K2", "ab%sc", "x"}[vndChoice("in", 5)]
	want := "input \"" + in + "\", " + ExplainEn + " " + msg
	var err error
	switch vndChoice("carrier", 4) {
	case 0:
		err = Var(in, "le=0|"+msg)
	case 1:
		err = Struct(&vC15S{F: in}, RM{"F": "le=0|" + msg})
		want = "\"vC15S.F\" " + want
	case 2:
		err = Map(map[string]string{"k": in}, NewRule().Set("k", "le=0|"+msg))
		want = "\"map[k]\" " + want
	case 3:
		err = Url("h?k="+vPctEncode(in), NewRule().Set("k", "le=0|"+msg))
		want = "\"k\" " + want
	}
	vAssert(err != nil && err.Error() == want, "C15 verbatim: message and echoed input appear unchanged")
	if err != nil {
		var got string
		ok := vNoPanic(func() { got = GetOnlyExplainErr(err.Error()) })
		vAssert(ok && got == msg, "C15 verbatim: the extractor returns the message unchanged")
	}
	// two clauses, the second labelled in Chinese
	err2 := Var(in, "le=0|"+msg, "ge=99|太短")
	if err2 != nil {
		var got string
		ok := vNoPanic(func() { got = GetOnlyExplainErr(err2.Error()) })
		vAssert(ok && got == msg+ErrEndFlag+"太短", "C15 verbatim: two clauses extracted in order")
	}
	vReach("end")
}

// ---- round 4 ----

// messages that mix scripts: ASCII text, one symbolic two- or three-byte character and one symbolic three-byte
// character in every order (the label is Chinese exactly when some character of the message is in
// U+4E00..U+9FA5, wherever it stands and whatever precedes it: full-width brackets, accents, kana, Hangul)
func H_C15_label_mixed_scripts() {
	a := vndString("a", 3)
	vAssume(len(a) >= 2)
	vAssume(vValidUTF8(a))
	vAssume(a[0] >= 0xC2) // a multi-byte character first (a third byte may be ASCII)
	vAssume(vNoByte(a, ','))
	vAssume(vNoByte(a, '\''))
	vAssume(vNoByte(a, '|'))
	b := vndStringN("b", 3)
	vAssume(vValidUTF8(b))
	vAssume(b[0] >= 0xE0)
	var msg string
	switch vndChoice("order", 4) {
	case 0:
		msg = a + b
	case 1:
		msg = "x" + a + "y" + b
	case 2:
		msg = b + a
	case 3:
		msg = a + " " + b + "!"
	}
	want := vC14Label(msg)
	_, _, m1 := ParseValidNameKV("required|" + msg)
	_, _, m2 := ParseValidNameKV("to=1~2|" + msg)
	vAssert(m1 == want && m2 == want, "C15 label of a message that mixes scripts (parser)")
	err := Var("", "required|"+msg)
	vAssert(err != nil && err.Error() == "input \"\", "+want, "C15 label of a message that mixes scripts (clause)")
	vReach("end")
}

// a message that contains a comma is written inside single quotes (the documented way to keep the
// comma from splitting the rule list): the clause shows it verbatim, quotes included, for an empty value
// and for a missing key / parameter alike, wherever required stands in the rule list
func H_C15_required_quoted_msg() {
	a, b := vC15Msg("a", 2), vC15Msg("b", 2)
	msg := "'" + a + "," + b + "'"
	rule := []string{"required|" + msg, "required|" + msg + ",to=1~3", "to=1~3,required|" + msg, "to=1~3|'x,y',required|" + msg + ",ge=1"}[vndChoice("list", 4)]
	want := vC14Label(msg)
	switch vndChoice("carrier", 8) {
	case 0:
		err := Var("", rule)
		vAssert(err != nil && err.Error() == "input \"\", "+want, "C15 required, quoted message with a comma / Var")
	case 1:
		err := Struct(&vC15R{}, NewRule().Set("F", rule))
		vAssert(err != nil && err.Error() == "\"vC15R.F\" input \"\", "+want, "C15 required, quoted message with a comma / Struct")
	case 2:
		err := Map(map[string]string{"k": ""}, NewRule().Set("k", rule))
		vAssert(err != nil && err.Error() == "\"map[k]\" input \"\", "+want, "C15 required, quoted message with a comma / Map, empty entry")
	case 3:
		err := Map(map[string]string{"other": "x"}, NewRule().Set("k", rule))
		vAssert(err != nil && err.Error() == "\"map[k]\" input \"\", "+want, "C15 required, quoted message with a comma / Map, missing key")
	case 4:
		err := Url("h?k=", NewRule().Set("k", rule))
		vAssert(err != nil && err.Error() == "\"k\" input \"\", "+want, "C15 required, quoted message with a comma / Url, empty parameter")
	case 5:
		err := Url("h?other=x", NewRule().Set("k", rule))
		vAssert(err != nil && err.Error() == "\"k\" input \"\", "+want, "C15 required, quoted message with a comma / Url, missing parameter")
	case 6:
		err := Map(map[string]interface{}{"other": 1}, NewRule().Set("k", rule))
		vAssert(err != nil && err.Error() == "\"map[k]\" input \"\", "+want, "C15 required, quoted message with a comma / Map of interface values, missing key")
	case 7:
		err := Url("h", NewRule().Set("k", rule))
		vAssert(err != nil && err.Error() == "\"k\" input \"\", "+want, "C15 required, quoted message with a comma / Url without a query")
	}
	vReach("end")
}
