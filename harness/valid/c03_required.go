//go:build verif

package valid

import "reflect"

// C03: required means present and non-empty; every other rule skips empty
// values. One struct type per field kind; the same through Var / Map / Url.

type vPlain struct{ X int }

type vRqStr struct {
	F string `valid:"required,r1"`
}
type vRqBool struct {
	F bool `valid:"required,r1"`
}
type vRqI8 struct {
	F int8 `valid:"required,r1"`
}
type vRqU64 struct {
	F uint64 `valid:"required,r1"`
}
type vRqF32 struct {
	F float32 `valid:"required,r1"`
}
type vRqSlice struct {
	F []int `valid:"required,r1"`
}
type vRqArr0 struct {
	F [0]int `valid:"required,r1"`
}
type vRqArr2 struct {
	F [2]int `valid:"required,r1"`
}
type vRqMap struct {
	F map[string]int `valid:"required,r1"`
}
type vRqStruct struct {
	F vPlain `valid:"required,r1"`
}
type vRqPtr struct {
	F *vPlain `valid:"required,r1"`
}
type vRqPtrInt struct {
	F *int `valid:"required,r1"`
}
type vRqPP struct {
	F **vPlain `valid:"required,r1"`
}
type vRqIface struct {
	F interface{} `valid:"required,r1"`
}
type vRqPtrStr struct {
	F *string `valid:"r1,required|need it"`
}
type vRqSliceStr struct {
	F []string `valid:"r1,required"`
}

func H_C03_struct_string()  { vRun("C03 string", &vRqStr{F: vStr("F")}) }
func H_C03_struct_bool()    { vRun("C03 bool", &vRqBool{F: vndBool("F")}) }
func H_C03_struct_int8()    { vRun("C03 int8", &vRqI8{F: vndInt8("F")}) }
func H_C03_struct_uint64()  { vRun("C03 uint64", &vRqU64{F: vndUint64("F")}) }
func H_C03_struct_float32() { vRun("C03 float32", &vRqF32{F: vndFloat32("F")}) }
func H_C03_struct_slice() {
	o := &vRqSlice{}
	switch vndChoice("F", 3) {
	case 1:
		o.F = []int{}
	case 2:
		o.F = []int{vndInt("F0")}
	}
	vRun("C03 []int", o)
}
func H_C03_struct_arr0() { vRun("C03 [0]int", &vRqArr0{}) }
func H_C03_struct_arr2() { vRun("C03 [2]int", &vRqArr2{F: [2]int{vndInt("F0"), vndInt("F1")}}) }
func H_C03_struct_map() {
	o := &vRqMap{}
	switch vndChoice("F", 3) {
	case 1:
		o.F = map[string]int{}
	case 2:
		o.F = map[string]int{"k": vndInt("F0")}
	}
	vRun("C03 map", o)
}
func H_C03_struct_struct() { vRun("C03 struct", &vRqStruct{F: vPlain{X: vndInt("X")}}) }
func H_C03_struct_ptr() {
	o := &vRqPtr{}
	if vndBool("set") {
		o.F = &vPlain{X: vndInt("X")}
	}
	vRun("C03 *struct", o)
}
func H_C03_struct_ptr_int() {
	o := &vRqPtrInt{}
	if vndBool("set") {
		x := vndInt("X")
		o.F = &x
	}
	vRun("C03 *int", o)
}
func H_C03_struct_pp() {
	o := &vRqPP{}
	switch vndChoice("F", 3) {
	case 1:
		var p *vPlain
		o.F = &p
	case 2:
		p := &vPlain{X: vndInt("X")}
		o.F = &p
	}
	vRun("C03 **struct", o)
}
func H_C03_struct_iface() {
	o := &vRqIface{}
	switch vndChoice("F", 4) {
	case 1:
		o.F = vndInt("X")
	case 2:
		o.F = vStr("S")
	case 3:
		o.F = &vPlain{X: 1}
	}
	vRun("C03 interface{}", o)
}
func H_C03_struct_ptr_string() {
	o := &vRqPtrStr{}
	if vndBool("set") {
		s := vStr("S")
		o.F = &s
	}
	vRun("C03 *string", o)
}
func H_C03_struct_slice_string() {
	o := &vRqSliceStr{}
	switch vndChoice("F", 3) {
	case 1:
		o.F = []string{}
	case 2:
		o.F = []string{vStr("F0")}
	}
	vRun("C03 []string", o)
}

// ---- Var ----

func vRunVar(tag string, src interface{}, rules ...string) {
	vULog = nil
	v := NewVVar().SetRules(rules...)
	v.SetValidFn("r1", vURule("r1"))
	err := v.Valid(src)
	r := vNewRef()
	r.local = map[string]bool{"r1": true}
	tv := vDeref(reflect.ValueOf(src))
	if !tv.IsValid() || !vVarSupported(tv.Type()) {
		// nil pointers and kinds the README does not list for Var (it lists slices / arrays / single
		// int, float, bool, string): an error, and no rule is evaluated
		vAssert(err != nil && len(vULog) == 0, tag+": an input Var does not support yields an error and no rule evaluation")
		vReach("end")
		return
	}
	for _, rule := range rules {
		for _, item := range vSplitRules(rule) {
			if item != "" {
				r.rule("", "", "", item, tv, false)
			}
		}
	}
	vCheckAgainstRef(tag, err, r)
	vReach("end")
}

func H_C03_var() {
	switch vndChoice("kind", 8) {
	case 0:
		vRunVar("C03 Var(string)", vStr("s"), "required,r1")
	case 1:
		vRunVar("C03 Var(int16)", vndInt16("i"), "r1", "required")
	case 2:
		vRunVar("C03 Var(uint)", vndUint("u"), "required|need u,r1")
	case 3:
		vRunVar("C03 Var(float64)", vndFloat64("f"), "required,r1")
	case 4:
		var s []string
		switch vndChoice("s", 3) {
		case 1:
			s = []string{}
		case 2:
			s = []string{vStr("s0")}
		}
		vRunVar("C03 Var([]string)", s, "required,r1")
	case 5:
		vRunVar("C03 Var([2]int)", [2]int{vndInt("a"), vndInt("b")}, "required,r1")
	case 6:
		x := vndInt("x")
		vRunVar("C03 Var(*int)", &x, "required,r1")
	case 7:
		vRunVar("C03 Var([0]int)", [0]int{}, "required,r1")
	}
}

// vVarSupported: README "变量可以为切片/数组/单个[int,float,bool,string]"
func vVarSupported(t reflect.Type) bool {
	switch t.Kind() {
	case reflect.Slice, reflect.Array:
		return vVarSupported(t.Elem())
	case reflect.String, reflect.Bool, reflect.Int, reflect.Int8, reflect.Int16, reflect.Int32, reflect.Int64,
		reflect.Uint, reflect.Uint8, reflect.Uint16, reflect.Uint32, reflect.Uint64, reflect.Float32, reflect.Float64:
		return true
	}
	return false
}

// ---- Map ----

func vRefMap(r *vRef, src interface{}, rm RM) {
	tv := vDeref(reflect.ValueOf(src))
	one := func(prefix string, m reflect.Value) {
		seen := map[string]bool{}
		it := m.MapRange()
		for it.Next() {
			k := it.Key().String()
			seen[k] = true
			val := it.Value()
			if val.Kind() == reflect.Interface { // interface{} entries are judged by the value they hold
				if val.IsNil() {
					val = reflect.ValueOf("")
				} else {
					val = val.Elem()
				}
			}
			for _, item := range vSplitRules(rm[k]) {
				if item == "" {
					continue
				}
				if key := vRuleKey(item); key == Either || key == BothEq {
					r.rule(prefix, "", k, item, val, false) // group members are listed by their key
					continue
				}
				r.rule(prefix, "", prefix+"map["+k+"]", item, val, false)
			}
		}
		// a required entry that is missing altogether is violated as well
		for _, k := range vSortedKeys(rm) {
			if seen[k] {
				continue
			}
			for _, item := range vSplitRules(rm[k]) {
				if vRuleKey(item) == Required {
					r.rule(prefix, "", prefix+"map["+k+"]", item, reflect.ValueOf(""), false)
				}
			}
		}
	}
	switch tv.Kind() {
	case reflect.Slice, reflect.Array:
		for i := 0; i < tv.Len(); i++ {
			one("["+vNum(i)+"]", tv.Index(i))
		}
	default:
		one("", tv)
	}
}

func vSortedKeys(rm RM) []string {
	var ks []string
	for k := range rm {
		ks = append(ks, k)
	}
	for i := 1; i < len(ks); i++ {
		for j := i; j > 0 && ks[j] < ks[j-1]; j-- {
			ks[j], ks[j-1] = ks[j-1], ks[j]
		}
	}
	return ks
}

func vRunMap(tag string, src interface{}, rm RM) {
	vULog = nil
	err := MapFn(src, rm, Name2FnMap{"r1": vURule("r1"), "r2": vURule("r2")})
	r := vNewRef()
	r.local = map[string]bool{"r1": true, "r2": true}
	vRefMap(r, src, rm)
	vCheckAgainstRef(tag, err, r)
	vReach("end")
}

func H_C03_map() {
	rm := NewRule().Set("k", "required,r1")
	switch vndChoice("kind", 7) {
	case 0:
		vRunMap("C03 Map(string)", map[string]string{"k": vStr("v")}, rm)
	case 1:
		vRunMap("C03 Map(int)", map[string]int{"k": vndInt("v")}, rm)
	case 2:
		vRunMap("C03 Map(interface int)", map[string]interface{}{"k": vndInt("v")}, rm)
	case 3:
		vRunMap("C03 Map(interface string)", map[string]interface{}{"k": vStr("v")}, rm)
	case 4:
		vRunMap("C03 Map(interface nil)", map[string]interface{}{"k": nil}, rm)
	case 5:
		vRunMap("C03 Map(float64)", map[string]float64{"k": vndFloat64("v")}, rm)
	case 6:
		vRunMap("C03 Map([]map)", []map[string]string{{"k": vStr("v")}}, rm)
	}
}

func H_C03_map_missing() {
	rm := NewRule().Set("k", "required,r1").Set("other", "r1")
	vRunMap("C03 Map(missing key)", map[string]string{"other": vStr("v")}, rm)
}

func H_C03_map_empty_collection() {
	rm := NewRule().Set("k", "required")
	var s []int
	if vndBool("nonnil") {
		s = []int{}
	}
	vRunMap("C03 Map(empty slice value)", map[string][]int{"k": s}, rm)
}

// ---- Url ----

// vRefUrl: the query is given as ordered (key, value) pairs; rules of absent keys count as missing entries.
func vRefUrl(r *vRef, keys, vals []string, rm RM) {
	seen := map[string]bool{}
	for i, k := range keys {
		seen[k] = true
		for _, item := range vSplitRules(rm[k]) {
			if item != "" {
				r.rule("", "", k, item, reflect.ValueOf(vals[i]), false)
			}
		}
	}
	for _, k := range vSortedKeys(rm) {
		if seen[k] {
			continue
		}
		for _, item := range vSplitRules(rm[k]) {
			if vRuleKey(item) == Required {
				r.rule("", "", k, item, reflect.ValueOf(""), false)
			}
		}
	}
}

func vRunUrl(tag string, url string, keys, vals []string, rm RM) {
	vULog = nil
	u := NewVUrl().SetRule(rm)
	u.SetValidFn("r1", vURule("r1"))
	u.SetValidFn("r2", vURule("r2"))
	err := u.Valid(url)
	r := vNewRef()
	r.local = map[string]bool{"r1": true, "r2": true}
	vRefUrl(r, keys, vals, rm)
	vCheckAgainstRef(tag, err, r)
	vReach("end")
}

// vPlainByte: value bytes that need no percent-encoding and do not collide with query syntax
func vPlainText(name string, max int) string {
	s := vndString(name, max)
	for i := 0; i < len(s); i++ {
		c := s[i]
		vAssume(vOr(vOr(vAnd(c >= 'a', c <= 'z'), vAnd(c >= '0', c <= '9')), vOr(c == '-', c == '.')))
	}
	return s
}

func H_C03_url() {
	rm := NewRule().Set("k", "required,r1").Set("j", "r2")
	v := vPlainText("v", 1)
	w := vPlainText("w", 1)
	switch vndChoice("shape", 4) {
	case 0:
		vRunUrl("C03 Url(k=v)", "http://h/p?k="+v, []string{"k"}, []string{v}, rm)
	case 1:
		vRunUrl("C03 Url(k=v&j=w)", "h?k="+v+"&j="+w, []string{"k", "j"}, []string{v, w}, rm)
	case 2:
		vRunUrl("C03 Url(j=w&k=v)", "h?j="+w+"&k="+v, []string{"j", "k"}, []string{w, v}, rm)
	case 3:
		vRunUrl("C03 Url(k without =)", "h?k&j="+w, []string{"k", "j"}, []string{"", w}, rm)
	}
}

func H_C03_url_missing() {
	rm := NewRule().Set("k", "required,r1").Set("j", "r2")
	w := vPlainText("w", 1)
	switch vndChoice("shape", 3) {
	case 0:
		vRunUrl("C03 Url(missing key)", "h?j="+w, []string{"j"}, []string{w}, rm)
	case 1:
		vRunUrl("C03 Url(no query)", "h", nil, nil, rm)
	case 2:
		vRunUrl("C03 Url(empty query)", "h?", nil, nil, rm)
	}
}

// required replaced by a per-call rule set in one call must be back in the next call (and vice versa)
func H_C03_sequence() {
	known := vGlobalRules()
	first := vndBool("overrideFirst")
	for i := 0; i < 2; i++ {
		o := &vRqStr{F: vStr("F" + vNum(i))}
		vULog = nil
		r := vNewRef()
		r.global = known
		var err error
		if (i == 0) == first {
			rm := RM{"F": "r2"}
			err = Struct(o, vCopyRM(rm))
			r.unscoped = rm
		} else {
			err = Struct(o)
		}
		r.top(o)
		vCheckAgainstRef("C03 sequence call "+vNum(i), err, r)
	}
	vReach("end")
}

// required listed after other rules is still evaluated on an empty value
type vRqLate struct {
	F string `valid:"r1,to=1~5,required"`
	G []int  `valid:"r2,required|need G,r1"`
}

func H_C03_required_last() {
	o := &vRqLate{F: vStr("F")}
	if vndBool("G") {
		o.G = []int{1}
	}
	known := vGlobalRules()
	vULog = nil
	err := Struct(o)
	r := vNewRef()
	r.global = known
	r.realBuiltin = map[string]string{} // "to" is real here: F has at most one rune, inside 1~5 unless empty (then skipped)
	r.top(o)
	// the real built-in "to" never fires on a 1-byte string within 1~5: drop its expected call
	var out []vExp
	for _, e := range r.out {
		if e.isCall && vRuleKey(e.validName) == VTo {
			continue
		}
		out = append(out, e)
	}
	r.out = out
	vCheckAgainstRef("C03 required after other rules", err, r)
	vReach("end")
}

// a missing required key among unrelated extra keys (more input keys than rule keys)
func H_C03_missing_among_extras() {
	rm := NewRule().Set("k", "required|need k").Set("j", "r1")
	switch vndChoice("entry", 3) {
	case 0:
		vRunMap("C03 Map(missing key, extra keys)", map[string]string{"x": vStr("x"), "y": "1", "z": "2"}, rm)
	case 1:
		vRunMap("C03 Map([]map, missing key, extra keys)", []map[string]string{{"x": "1", "y": "2", "j": vStr("j")}, {"k": vStr("k")}}, rm)
	case 2:
		w := vPlainText("w", 1)
		vRunUrl("C03 Url(missing key, extra keys)", "h?trace="+w+"&utm=1&x=2", []string{"trace", "utm", "x"}, []string{w, "1", "2"}, rm)
	}
}

// rule maps built with a chain of Set calls: required stays in force when later calls add rules whose
// names are prefixes of "required" (r, re, req) or repeat it; the reference reads a rule map written as a literal
type vC03Chain struct {
	K string
	J string
}

func H_C03_set_chain() {
	SetCustomerValidFn("req", vURule("req"))
	SetCustomerValidFn("r", vURule("r"))
	known := map[string]bool{"req": true, "r": true, "r1": true}
	SetCustomerValidFn("r1", vURule("r1"))
	var real, lit RM
	switch vndChoice("chain", 4) {
	case 0:
		real = NewRule().Set("K,J", "required").Set("K", "req")
		lit = RM{"K": "required,req", "J": "required"}
	case 1:
		real = NewRule().Set("K", "required|need K", "r1").Set("K", "r")
		lit = RM{"K": "required|need K,r1,r"}
	case 2:
		real = NewRule().Set("K", "r1").Set("K,J", "required").Set("J", "required")
		lit = RM{"K": "r1,required", "J": "required,required"}
	case 3:
		real = NewRule().Set("J", "req", "required").Set("J", "r", "req")
		lit = RM{"J": "req,required,r,req"}
	}
	k, j := vStr("k"), vStr("j")
	vULog = nil
	r := vNewRef()
	r.global = known
	var err error
	switch vndChoice("entry", 3) {
	case 0:
		o := &vC03Chain{K: k, J: j}
		err = Struct(o, real)
		r.unscoped = lit
		r.top(o)
	case 1:
		m := map[string]string{"K": k, "J": j}
		err = Map(m, real)
		r.perObj = true
		vRefMap(r, m, lit)
		vCheckUnordered("C03 Set chain through Map", err, r)
		vReach("end")
		return
	case 2:
		kk, jj := vPlainText("uk", 1), vPlainText("uj", 1)
		err = Url("h?K="+kk+"&J="+jj, real)
		vRefUrl(r, []string{"K", "J"}, []string{kk, jj}, lit)
	}
	vCheckAgainstRef("C03 Set chain", err, r)
	vReach("end")
}

// ---- round 4 ----

// a slice of maps in which every element lacks a different subset of the required keys: each element reports
// exactly its own missing keys (presence of each key in each element is nondeterministic)
func H_C03_map_slice_missing() {
	rm := NewRule().Set("k1", "required").Set("k2", "required|need k2").Set("k3", "required,r1").Set("k4", "r2")
	var ms []map[string]string
	for i := 0; i < 3; i++ {
		m := map[string]string{}
		for _, k := range []string{"k1", "k2", "k3"} {
			if vndBool(k + "in" + vNum(i)) {
				m[k] = "v"
			}
		}
		ms = append(ms, m)
	}
	vULog = nil
	err := MapFn(ms, rm, Name2FnMap{"r1": vURule("r1"), "r2": vURule("r2")})
	r := vNewRef()
	r.local = map[string]bool{"r1": true, "r2": true}
	vRefMap(r, ms, rm)
	vCheckUnordered("C03 Map([]map) with different keys missing per element", err, r)
	vReach("end")
}

// the same map validated twice, and two different maps one after the other, with one rule set
func H_C03_map_missing_sequence() {
	rm := NewRule().Set("k1", "required").Set("k2", "required").Set("k3", "required")
	for i := 0; i < 2; i++ {
		m := map[string]string{}
		for _, k := range []string{"k1", "k2", "k3"} {
			if vndBool(k + "in" + vNum(i)) {
				m[k] = "v"
			}
		}
		vULog = nil
		err := Map(m, rm)
		r := vNewRef()
		vRefMap(r, m, rm)
		vCheckUnordered("C03 Map, call "+vNum(i)+" with one rule set", err, r)
	}
	vReach("end")
}

// a query parameter whose name needs encoding itself: "a b" written a+b, a%20b or %61+b is present
func H_C03_url_encoded_name() {
	rm := NewRule().Set("a b", "required,r1").Set("c", "required")
	v := vPlainText("v", 1)
	name := []string{"a+b", "a%20b", "%61+b", "a b"}[vndChoice("name", 4)]
	switch vndChoice("shape", 3) {
	case 0:
		vRunUrl("C03 Url encoded name", "h?"+name+"="+v+"&c=1", []string{"a b", "c"}, []string{v, "1"}, rm)
	case 1:
		vRunUrl("C03 Url encoded name, second", "h?c=1&"+name+"="+v, []string{"c", "a b"}, []string{"1", v}, rm)
	case 2:
		vRunUrl("C03 Url encoded name only", "h?"+name+"="+v, []string{"a b"}, []string{v}, rm)
	}
}

// struct types that refer to each other (employee <-> department; a cycle of three types with its only
// rule in the last one): finite values, the types met in either order, each call compared with the reference
type vEmp struct {
	Dept *vDept `valid:"exist"`
	Name string `valid:"required"`
}

type vDept struct {
	Staff []*vEmp `valid:"exist"`
	Title string
}

type vCyA struct {
	B *vCyB `valid:"exist"`
}

type vCyB struct {
	C []vCyC `valid:"exist"`
}

type vCyC struct {
	A *vCyA  `valid:"exist"`
	N string `valid:"required,r1"`
}

func H_C03_mutual_types() {
	vUNoFail = true
	known := vGlobalRules()
	run := func(tag string, src interface{}) {
		vULog = nil
		err := Struct(src)
		r := vNewRef()
		r.global = known
		r.top(src)
		vCheckAgainstRef(tag, err, r)
	}
	emp := func(n string) *vEmp { return &vEmp{Name: vStr(n)} }
	dept := func(n string) *vDept { return &vDept{Title: "t", Staff: []*vEmp{emp(n + ".0"), nil, emp(n + ".2")}} }
	switch vndChoice("order", 5) {
	case 0:
		run("C03 employee first", &vEmp{Name: vStr("e"), Dept: dept("e.d")})
		run("C03 department after employee", dept("d"))
	case 1:
		run("C03 department first", dept("d"))
		run("C03 employee after department", &vEmp{Name: vStr("e"), Dept: dept("e.d")})
	case 2:
		run("C03 employee without department first", emp("e"))
		run("C03 department after a bare employee", dept("d"))
	case 3:
		c := vCyC{N: vStr("c")}
		run("C03 cycle of three types entered at A", &vCyA{B: &vCyB{C: []vCyC{c, {N: "x", A: &vCyA{B: &vCyB{C: []vCyC{{N: vStr("deep")}}}}}}}})
		run("C03 cycle of three types entered at C", &vCyC{N: vStr("c2")})
	default:
		run("C03 cycle of three types entered at C", &vCyC{N: "n", A: &vCyA{B: &vCyB{C: []vCyC{{N: vStr("c")}}}}})
		run("C03 cycle of three types entered at B", &vCyB{C: []vCyC{{N: vStr("b")}}})
	}
	vReach("end")
}

// a call that attaches no rule to a key says nothing about that key, whatever an earlier call required:
// the same rule-less (or differently ruled) call is made before and after a Url / Map call that required a
// missing key, and answers the same both times
func H_C03_no_rule_after_ruled_call() {
	vPoolMode([]string{"lifo", "adversarial"}[vndChoice("pool", 2)])
	vUNoFail = true
	vGlobalRules()
	v := vPlainText("v", 1)
	txt := func(err error) string {
		if err == nil {
			return "<nil>"
		}
		return string([]byte(err.Error()))
	}
	var call func() error
	switch vndChoice("carrier", 6) {
	case 0:
		call = func() error { return NewVUrl().Valid("h?age=" + v) }
	case 1:
		call = func() error { return UrlForFn("h?age="+v, "r1", vURule("L-r1")) }
	case 2:
		call = func() error { return Url("h?age="+v, NewRule().Set("age", "required")) }
	case 3:
		call = func() error { return NewVMap().Valid(map[string]string{"age": v}) }
	case 4:
		call = func() error { return Map(map[string]string{"age": v}, NewRule().Set("age", "required")) }
	default:
		call = func() error { return NewVMap().Valid([]map[string]string{{"age": v}}) }
	}
	before := txt(call())
	_ = Url("h?other=1", NewRule().Set("name", "required"))
	_ = Map(map[string]string{"other": "1"}, NewRule().Set("name", "required,r1"))
	_ = Map([]map[string]string{{"other": "1"}}, NewRule().Set("name", "required"))
	_ = Url("h", NewRule().Set("name", "required|need name"))
	after := txt(call())
	vAssert(after == before, "C03 a call without a rule for a key answers the same before and after calls that required that key")
	vReach("end")
}

// fields whose whole rule text is the single word required (no second rule, no message), and the variants
// that differ from it by blanks or an empty item: nil / empty non-nil / populated collections, pointers, scalars
type vSoleReq struct {
	S  []int          `valid:"required"`
	M  map[string]int `valid:"required"`
	A0 [0]int         `valid:"required"`
	P  *int           `valid:"required"`
	T  string         `valid:"required"`
	I  interface{}    `valid:"required"`
	L  []string       `valid:"required,"`
	B  []byte         `valid:",required"`
	N  map[int]*vIn   `valid:"required"`
	F  float64        `valid:"required"`
}

func H_C03_sole_required() {
	vUNoFail = true
	known := vGlobalRules()
	o := &vSoleReq{T: vStr("T"), F: vndFloat64("F")}
	switch vndChoice("S", 3) {
	case 1:
		o.S = []int{}
	case 2:
		o.S = []int{0}
	}
	switch vndChoice("M", 3) {
	case 1:
		o.M = map[string]int{}
	case 2:
		o.M = map[string]int{"": 0}
	}
	if vndBool("P") {
		z := 0
		o.P = &z
	}
	switch vndChoice("I", 3) {
	case 1:
		o.I = []int{}
	case 2:
		o.I = 0
	}
	switch vndChoice("LB", 3) {
	case 1:
		o.L, o.B = []string{}, []byte{}
	case 2:
		o.L, o.B = []string{""}, []byte{0}
	}
	if vndBool("N") {
		o.N = map[int]*vIn{}
	}
	err := Struct(o)
	r := vNewRef()
	r.global = known
	r.top(o)
	vCheckAgainstRef("C03 fields whose only rule is required", err, r)
	vReach("end")
}

// a required pointer field that points into the object being validated (first / second element of its
// first, untagged field; the object itself): what stands behind it is validated like any other sub-object
type vSlot struct {
	Name string `valid:"required"`
	N    int
}

type vRing struct {
	Slots [2]vSlot
	Cur   *vSlot `valid:"required"`
	Alt   *vSlot `valid:"exist"`
}

type vSelfFirst struct {
	In  vSlot
	Own *vSlot `valid:"required"`
}

func H_C03_required_behind_interior_pointer() {
	vUNoFail = true
	known := vGlobalRules()
	var src interface{}
	if vndBool("ring") {
		r := &vRing{}
		r.Slots[0], r.Slots[1] = vSlot{Name: vStr("n0"), N: 1}, vSlot{Name: vStr("n1"), N: 2}
		r.Cur = &r.Slots[vndChoice("cur", 2)]
		if vndBool("alt") {
			r.Alt = &r.Slots[vndChoice("altIdx", 2)]
		}
		src = r
	} else {
		s := &vSelfFirst{In: vSlot{Name: vStr("n"), N: 1}}
		s.Own = &s.In
		src = s
	}
	err := Struct(src)
	ref := vNewRef()
	ref.global = known
	ref.top(src)
	vCheckAgainstRef("C03 required pointer into the object itself", err, ref)
	vReach("end")
}
