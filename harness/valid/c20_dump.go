//go:build verif

package valid

import (
	"reflect"
	"strconv"
)

// C20: the dumper emits well-formed JSON equal (as a document) to the
// standard encoding with field names as keys, up to the documented
// deviations: bools as "true"/"false", nil slices [], nil maps {}, nil
// pointers null, unexported fields omitted.

// vRefJSON: independent reference serializer (compact, declaration order).
func vRefJSON(v reflect.Value) string {
	switch v.Kind() {
	case reflect.Ptr:
		if v.IsNil() {
			return "null"
		}
		return vRefJSON(v.Elem())
	case reflect.Struct:
		out := "{"
		first := true
		t := v.Type()
		for i := 0; i < t.NumField(); i++ {
			if t.Field(i).PkgPath != "" {
				continue
			}
			if !first {
				out += ","
			}
			first = false
			out += "\"" + t.Field(i).Name + "\":" + vRefJSON(v.Field(i))
		}
		return out + "}"
	case reflect.String:
		return "\"" + v.String() + "\""
	case reflect.Bool:
		if v.Bool() {
			return "\"true\""
		}
		return "\"false\""
	case reflect.Int, reflect.Int8, reflect.Int16, reflect.Int32, reflect.Int64:
		return strconv.FormatInt(v.Int(), 10)
	case reflect.Uint, reflect.Uint8, reflect.Uint16, reflect.Uint32, reflect.Uint64:
		return strconv.FormatUint(v.Uint(), 10)
	case reflect.Float32:
		return strconv.FormatFloat(v.Float(), 'f', -1, 32)
	case reflect.Float64:
		return strconv.FormatFloat(v.Float(), 'f', -1, 64)
	case reflect.Slice, reflect.Array:
		out := "["
		for i := 0; i < v.Len(); i++ {
			if i > 0 {
				out += ","
			}
			out += vRefJSON(v.Index(i))
		}
		return out + "]"
	case reflect.Map:
		out := "{"
		it := v.MapRange()
		first := true
		for it.Next() {
			if !first {
				out += ","
			}
			first = false
			k := it.Key()
			if k.Kind() == reflect.String {
				out += "\"" + k.String() + "\":"
			} else if kk := k.Kind(); kk >= reflect.Uint && kk <= reflect.Uint64 {
				out += "\"" + strconv.FormatUint(k.Uint(), 10) + "\":"
			} else {
				out += "\"" + strconv.FormatInt(k.Int(), 10) + "\":"
			}
			out += vRefJSON(it.Value())
		}
		return out + "}"
	}
	return "\"?\""
}

// vJSONText: strings without characters needing escapes
func vJSONText(name string, max int) string {
	s := vndString(name, max)
	for i := 0; i < len(s); i++ {
		c := s[i]
		vAssume(vAnd(vAnd(c >= 0x20, c <= 0x7f), vAnd(c != '"', c != '\\')))
	}
	return s
}

// numbers are holes rendered by strconv; the catalogue picks boundary values per kind
func vPickInt(name string) int { return []int{0, -7, 1234567890123}[vndChoice(name, 3)] }

func vC20Check(tag string, v interface{}) {
	got := GetDumpStructStr(v)
	want := vRefJSON(reflect.ValueOf(v))
	vAssert(vSameJSON(got, want), "C20 "+tag+": well-formed JSON equal to the standard document up to the documented deviations")
	vReach("end")
}

type vJEmpty struct{}
type vJHidden struct{ a, b int }
type vJFirstHidden struct {
	a int
	B string
	C int
}
type vJLastHidden struct {
	A int
	b string
}
type vJMidHidden struct {
	A bool
	b string
	c int
	D uint16
}
type vJScalars struct {
	S   string
	B   bool
	I8  int8
	I64 int64
	U8  uint8
	U64 uint64
	F64 float64
}
type vJFloat32 struct{ F float32 }
type vJLeaf struct {
	N string
	K int
}
type vJNest struct {
	L  vJLeaf
	P  *vJLeaf
	E  vJEmpty
	PE *vJEmpty
	Q  **vJLeaf
}
type vJSlices struct {
	IS []int
	SS []string
	LS []vJLeaf
	PS []*vJLeaf
	A  [2]bool
	ES []vJEmpty
}
type vJMaps struct {
	SI map[string]int
	IS map[int]string
	SL map[string]vJLeaf
	SP map[string]*vJLeaf
	SS map[string][]int
}
type vJDeep struct {
	A struct {
		B struct {
			C []map[string]*vJLeaf
		}
	}
}

func H_C20_empty()      { vC20Check("empty struct", vJEmpty{}) }
func H_C20_empty_ptr()  { vC20Check("pointer to empty struct", &vJEmpty{}) }
func H_C20_all_hidden() { vC20Check("all fields unexported", vJHidden{a: 1, b: 2}) }
func H_C20_first_hidden() {
	vC20Check("first field unexported", &vJFirstHidden{a: 1, B: vJSONText("B", 2), C: vPickInt("C")})
}
func H_C20_last_hidden() { vC20Check("last field unexported", vJLastHidden{A: vPickInt("A"), b: "x"}) }
func H_C20_mid_hidden() {
	vC20Check("middle fields unexported", vJMidHidden{A: vndBool("A"), b: "x", c: 1, D: []uint16{0, 65535}[vndChoice("D", 2)]})
}
func H_C20_scalars() {
	o := &vJScalars{S: vJSONText("S", 3), B: vndBool("B")}
	switch vndChoice("nums", 4) {
	case 1:
		*o = vJScalars{S: o.S, B: o.B, I8: -128, I64: -9223372036854775808, U8: 255, U64: 18446744073709551615, F64: -0.5}
	case 2:
		*o = vJScalars{S: o.S, B: o.B, I8: 127, I64: 9223372036854775807, U8: 1, U64: 9223372036854775808, F64: 1234.5678}
	case 3:
		*o = vJScalars{S: o.S, B: o.B, I8: 1, I64: 42, U8: 7, U64: 8, F64: 100}
	}
	vC20Check("scalars", o)
}
func H_C20_float32() {
	f := []float32{0.1, 2.5, 1e6, -3.75, 16777216, 0.3}[vndChoice("f", 6)]
	vC20Check("float32", vJFloat32{F: f})
}
func H_C20_nil_ptr() {
	var p *vJLeaf
	vC20Check("nil pointer input", p)
}
func H_C20_nest() {
	o := &vJNest{L: vJLeaf{N: vJSONText("N", 1), K: vPickInt("K")}}
	if vndBool("P") {
		o.P = &vJLeaf{N: "p", K: 1}
	}
	if vndBool("PE") {
		o.PE = &vJEmpty{}
	}
	switch vndChoice("Q", 3) {
	case 1:
		var q *vJLeaf
		o.Q = &q
	case 2:
		q := &vJLeaf{N: "q"}
		o.Q = &q
	}
	vC20Check("nesting by value and pointer", o)
}
func H_C20_slices() {
	o := vJSlices{A: [2]bool{vndBool("A0"), false}}
	switch vndChoice("IS", 4) {
	case 1:
		o.IS = []int{}
	case 2:
		o.IS = []int{vPickInt("IS0")}
	case 3:
		o.IS = []int{1, vPickInt("IS1")}
	}
	if vndBool("SS") {
		o.SS = []string{vJSONText("SS0", 1), "b"}
	}
	n := vndLen("LS", 2)
	for i := 0; i < n; i++ {
		o.LS = append(o.LS, vJLeaf{N: "n", K: i})
	}
	switch vndChoice("PS", 3) {
	case 1:
		o.PS = []*vJLeaf{nil}
	case 2:
		o.PS = []*vJLeaf{{N: "a"}, nil}
	}
	if vndBool("ES") {
		o.ES = []vJEmpty{{}, {}}
	}
	vC20Check("slices and arrays", o)
}
func H_C20_maps() {
	o := &vJMaps{}
	switch vndChoice("SI", 3) {
	case 1:
		o.SI = map[string]int{}
	case 2:
		o.SI = map[string]int{"a": vPickInt("SIa")}
	}
	if vndBool("IS") {
		o.IS = map[int]string{vPickInt("ISk"): "v"}
	}
	if vndBool("SL") {
		o.SL = map[string]vJLeaf{"k": {N: vJSONText("SLn", 1), K: 2}}
	}
	switch vndChoice("SP", 3) {
	case 1:
		o.SP = map[string]*vJLeaf{"k": nil}
	case 2:
		o.SP = map[string]*vJLeaf{"k": {N: "n"}}
	}
	if vndBool("SS") {
		o.SS = map[string][]int{"k": nil}
	}
	vC20Check("maps", o)
}
func H_C20_map2() {
	vC20Check("two-entry maps", &vJMaps{SI: map[string]int{"a": vPickInt("a"), "b": 2}, IS: map[int]string{1: "x", 2: "y"}})
}
func H_C20_deep() {
	o := vJDeep{}
	switch vndChoice("C", 4) {
	case 1:
		o.A.B.C = []map[string]*vJLeaf{nil}
	case 2:
		o.A.B.C = []map[string]*vJLeaf{{"k": nil}}
	case 3:
		o.A.B.C = []map[string]*vJLeaf{{"k": {N: vJSONText("N", 1), K: vPickInt("K")}}, {}}
	}
	vC20Check("deep nesting", &o)
}
func H_C20_top_slice() {
	vC20Check("top-level pointer to struct with slice of structs", &struct{ X []vJLeaf }{X: []vJLeaf{{N: "a", K: vPickInt("K")}}})
}

// nested structs whose fields are all unexported, between exported siblings, through every wrapper
type vJHiddenMid struct {
	A int
	H vJHidden
	N int
	P *vJHidden
	S []vJHidden
	M map[string]vJHidden
	Z string
}

func H_C20_hidden_nested() {
	o := vJHiddenMid{A: vPickInt("A"), H: vJHidden{a: 1}, N: 2, Z: vJSONText("Z", 1)}
	if vndBool("P") {
		o.P = &vJHidden{b: 2}
	}
	if vndBool("S") {
		o.S = []vJHidden{{a: 1}, {}}
	}
	if vndBool("M") {
		o.M = map[string]vJHidden{"k": {a: 3}}
	}
	vC20Check("nested structs without exported fields between exported siblings", o)
}

// long collections (the catalogue's other shapes stop at 2 elements)
type vJLong struct {
	L []int
	P []*vJLeaf
	E []vJEmpty
	N vJLeaf
	Z []string
}

func H_C20_long() {
	n := []int{3, 70, 130}[vndChoice("n", 3)]
	o := &vJLong{N: vJLeaf{N: "after", K: 1}}
	for i := 0; i < n; i++ {
		o.L = append(o.L, i)
		o.P = append(o.P, nil)
		o.E = append(o.E, vJEmpty{})
		o.Z = append(o.Z, "s")
	}
	vC20Check("long slices of scalars, nil pointers and empty structs", o)
}

type vJDeepNest struct {
	V int
	C *vJDeepNest
}

func H_C20_deep_chain() {
	d := []int{1, 20, 70}[vndChoice("depth", 3)]
	var o *vJDeepNest
	for i := 0; i < d; i++ {
		o = &vJDeepNest{V: i, C: o}
	}
	vC20Check("a chain of nested pointers", o)
}

// strings that need no escapes but are not plain ASCII: DEL, multi-byte runes, non-printable and
// astral code points (the standard encoder emits them raw or as \u escapes that decode to the same text)
var vC20Texts = []string{"del\x7fchar", "社会 é ñ", "soft­hyphen", "smile😀", "tag\U000E0001here", "max\U0010FFFFrune", "bmp￾nonchar", "<>&'", "line sep"}

type vJText struct {
	S string
	L []string
	M map[string]string
}

func H_C20_text_runes() {
	t := vC20Texts[vndChoice("text", len(vC20Texts))]
	switch vndChoice("where", 4) {
	case 0:
		vC20Check("string field with non-ASCII runes", vJText{S: t})
	case 1:
		vC20Check("slice element with non-ASCII runes", &vJText{L: []string{"x", t}})
	case 2:
		vC20Check("map value with non-ASCII runes", vJText{M: map[string]string{"k": t}})
	case 3:
		vC20Check("map key with non-ASCII runes", vJText{M: map[string]string{t: "v"}})
	}
}

// ---- thorough tier: longer texts, three-element collections, mixed nesting ----

func H_C20T_texts() {
	o := vJText{S: vJSONText("S", 3), L: []string{vJSONText("L0", 2), "", vJSONText("L2", 2)}, M: map[string]string{vJSONText("Mk", 2): vJSONText("Mv", 2)}}
	vC20Check("texts of up to 3 bytes in a field, three slice elements and a map entry", o)
}

func H_C20T_collections3() {
	o := vJSlices{IS: []int{vPickInt("a"), vPickInt("b"), vPickInt("c")}, A: [2]bool{vndBool("A0"), vndBool("A1")}}
	n := vndLen("LS", 3)
	for i := 0; i < n; i++ {
		o.LS = append(o.LS, vJLeaf{N: "n", K: i})
	}
	m := vndLen("PS", 3)
	for i := 0; i < m; i++ {
		if vndBool("PSnil" + vNum(i)) {
			o.PS = append(o.PS, nil)
		} else {
			o.PS = append(o.PS, &vJLeaf{N: "p", K: vPickInt("PSk" + vNum(i))})
		}
	}
	vC20Check("collections of up to three elements", &o)
}

func H_C20T_maps3() {
	o := &vJMaps{SI: map[string]int{"a": vPickInt("a"), "b": vPickInt("b"), "c": 3}, IS: map[int]string{1: vJSONText("x", 1), 2: "y", -3: "z"},
		SL: map[string]vJLeaf{"k": {N: vJSONText("n", 2), K: vPickInt("K")}, "j": {}}, SS: map[string][]int{"k": {1, vPickInt("s")}, "e": {}}}
	vC20Check("maps of two and three entries", o)
}

type vJMixed struct {
	P ***vJLeaf
	S [][]vJLeaf
	M map[string]map[string]int
	F []float64
	E [0]int
	A [2][]int
}

func H_C20T_mixed() {
	o := &vJMixed{}
	if vndBool("P") {
		l := &vJLeaf{N: vJSONText("pn", 1), K: vPickInt("pk")}
		ll := &l
		o.P = &ll
	}
	switch vndChoice("S", 3) {
	case 1:
		o.S = [][]vJLeaf{nil, {}}
	case 2:
		o.S = [][]vJLeaf{{{N: "a", K: vPickInt("sk")}}, {{}, {N: vJSONText("sn", 1)}}}
	}
	if vndBool("M") {
		o.M = map[string]map[string]int{"o": {"i": vPickInt("mi")}, "n": nil}
	}
	if vndBool("F") {
		o.F = []float64{0.5, -2, 1e20}
	}
	if vndBool("A") {
		o.A = [2][]int{{vPickInt("a0")}, nil}
	}
	vC20Check("mixed nesting", o)
}

// slices of small unsigned kinds other than uint8 ([]uint8 is outside the claim: the standard encoder renders
// []byte as a base64 string, the dumper as a list of numbers)
type vJWords struct {
	W []uint16
	X [2]uint32
}

func H_C20T_word_slices() {
	vC20Check("slices of uint16 and arrays of uint32", vJWords{W: []uint16{1, 65535, vndUint16("w")}, X: [2]uint32{vndUint32("x"), 4294967295}})
}

// ---- round 4 ----

// field names have no meaning to the dumper: fields called like time fields but holding structs, pointers to
// structs, strings and numbers are dumped like any other field of their kind
type vJNamedLikeTime struct {
	CreateTime vJLeaf
	UpdateTime *vJLeaf
	Time       string
	EndTime    int
	TimeZone   vJEmpty
	ExpireTime map[string]vJLeaf
	Times      []vJLeaf
}

func H_C20_names_like_time() {
	o := &vJNamedLikeTime{CreateTime: vJLeaf{N: vJSONText("cn", 1), K: vPickInt("ck")}, Time: vJSONText("t", 2), EndTime: vPickInt("e")}
	if vndBool("u") {
		o.UpdateTime = &vJLeaf{N: "u", K: 2}
	}
	if vndBool("x") {
		o.ExpireTime = map[string]vJLeaf{"k": {N: "x"}}
	}
	if vndBool("s") {
		o.Times = []vJLeaf{{N: "s"}}
	}
	vC20Check("fields named like time fields", o)
}

// a dump handed out stays as it was handed out: later dumps (which reuse pooled buffers) do not change it
func H_C20_earlier_dump_unchanged() {
	vPoolMode("lifo")
	a := &vJLeaf{N: vJSONText("an", 2), K: vPickInt("ak")}
	d1 := GetDumpStructStr(a)
	keep := string([]byte(d1))
	var d2 string
	switch vndChoice("second", 3) {
	case 0:
		d2 = GetDumpStructStr(&vJLeaf{N: vJSONText("bn", 2), K: vPickInt("bk")})
	case 1:
		d2 = GetDumpStructStr(&vJScalars{S: vJSONText("bs", 3), B: true, I8: -1, U64: 7, F64: 2.5})
	case 2:
		d2 = GetDumpStructStr(vJEmpty{})
	}
	vAssert(d1 == keep, "C20 a dump handed out earlier is not changed by a later dump")
	d3 := GetDumpStructStr(a)
	vAssert(d3 == keep, "C20 the same value dumps to the same text again")
	vAssert(d1 == keep, "C20 a dump handed out earlier is not changed by later dumps")
	vAssert(vSameJSON(d1, vRefJSON(reflect.ValueOf(a))) && len(d2) > 0, "C20 the earlier dump is still the document of its value")
	vReach("end")
}

// field names beyond ASCII letters: Go exports a field exactly when its name starts with an upper-case
// letter (any script); names starting with '_' or a lower-case non-ASCII letter are unexported, the blank
// field is no field at all
type vJNames struct {
	_rev  string
	_     int
	A     int
	ñame  string
	Épée  string
	Ωmega int
	z_    string
	Z_    string
	N     struct {
		_id string
		Id  string
		Ñu  int
	}
}

func H_C20_field_name_classes() {
	v := vJNames{_rev: "r", A: vPickInt("A"), ñame: "n", Épée: vJSONText("E", 1), Ωmega: 3, z_: "z", Z_: "Z"}
	v.N._id, v.N.Id, v.N.Ñu = "i", "I", 7
	vC20Check("field names of every class", v)
	vC20Check("field names of every class, by pointer", &v)
}
