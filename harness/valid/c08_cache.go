//go:build verif

package valid

// C08: the struct-type cache is transparent. The global cache is replaced by
// an adversarial CacheEr whose Load may miss or return ANY value previously
// stored for that key (this over-approximates the default LRU, an LRU of any
// capacity incl. 0, an unbounded map and a cache that forgets everything, for
// every eviction history); every call must still produce what the reference
// walker computes from the call's own arguments (requested tag, rule set).

type vAdvCache struct {
	keys []interface{}
	vals []interface{}
	n    int
}

func (c *vAdvCache) Load(key interface{}) (interface{}, bool) {
	var cands []interface{}
	for i := range c.keys {
		if c.keys[i] == key {
			cands = append(cands, c.vals[i])
		}
	}
	if len(cands) == 0 {
		return nil, false
	}
	pick := vndChoice("cacheLoad"+vNum(c.n), len(cands)+1)
	c.n++
	if pick == 0 {
		return nil, false // evicted / forgotten
	}
	return cands[pick-1], true
}

func (c *vAdvCache) Store(key, value interface{}) {
	c.keys = append(c.keys, key)
	c.vals = append(c.vals, value)
}

// two struct types; vT1 carries different rule sets under the two tag names
type vT1 struct {
	A string `valid:"required,r1" alt:"r2"`
	B string `valid:"r2" alt:"required|need B,r3"`
	C string `alt:"r1"`
}

type vT2 struct {
	A string `valid:"r3"`
	N vT1    `valid:"exist" alt:"required"`
}

var vC08RMs = []RM{nil, {"A": "r3"}, {"C": "required", "B": "r1,r2"}}

func vC08Call(i int) {
	is := vNum(i)
	tag := "valid"
	if vndBool("alt" + is) {
		tag = "alt"
	}
	rm := vC08RMs[vndChoice("rm"+is, len(vC08RMs))]
	var src interface{}
	if vndBool("t2_" + is) {
		src = &vT2{A: "a", N: vT1{A: vStr("N.A" + is), B: "b"}}
	} else {
		src = &vT1{A: vStr("A" + is), B: vStr("B" + is), C: "c"}
	}
	vULog = nil
	vs := NewVStruct(tag)
	if rm != nil {
		vs.SetRule(vCopyRM(rm))
	}
	err := vs.Valid(src)
	r := vNewRef()
	r.tag = tag
	r.global = map[string]bool{"r1": true, "r2": true, "r3": true}
	r.unscoped = rm
	r.top(src)
	vCheckAgainstRef("C08 call "+is+" under an adversarial cache", err, r)
}

func vC08(n int) {
	vUNoFail = true
	vGlobalRules()
	cacheStructType = &vAdvCache{}
	for i := 0; i < n; i++ {
		vC08Call(i)
	}
	vReach("end")
}

func H_C08_adv2()  { vC08(2) }
func H_C08T_adv3() { vC08(3) }

// real caches: LRU of capacity 0,1,2 (three types force evictions), a plain map, a cache that forgets everything
type vMapCache struct{ m map[interface{}]interface{} }

func (c *vMapCache) Load(k interface{}) (interface{}, bool) { v, ok := c.m[k]; return v, ok }
func (c *vMapCache) Store(k, v interface{})                 { c.m[k] = v }

type vNoCache struct{}

func (vNoCache) Load(k interface{}) (interface{}, bool) { return nil, false }
func (vNoCache) Store(k, v interface{})                 {}

type vT3 struct {
	Z string `valid:"r1" alt:"r2,r1"`
}

func H_C08_real() {
	vUNoFail = true
	vGlobalRules()
	switch vndChoice("cache", 5) {
	case 0, 1, 2:
		cacheStructType = NewLRU(vndChoice("cap", 3))
	case 3:
		cacheStructType = &vMapCache{m: map[interface{}]interface{}{}}
	case 4:
		cacheStructType = vNoCache{}
	}
	// T1(valid), T3, T2 (nests T1), then T1 under the other tag, then T1(valid) again
	steps := []struct {
		tag string
		src interface{}
	}{
		{"valid", &vT1{A: vStr("A0"), B: "b"}},
		{"alt", &vT3{Z: "z"}},
		{"valid", &vT2{A: "a", N: vT1{A: "x", B: vStr("N.B")}}},
		{"alt", &vT1{A: "a", B: vStr("B3"), C: "c"}},
		{"valid", &vT1{A: vStr("A4"), B: "b"}},
	}
	for i, s := range steps {
		vULog = nil
		err := ValidateStruct(s.src, s.tag)
		r := vNewRef()
		r.tag = s.tag
		r.global = map[string]bool{"r1": true, "r2": true, "r3": true}
		r.top(s.src)
		vCheckAgainstRef("C08 step "+vNum(i)+" with a real cache", err, r)
	}
	vReach("end")
}

// SetStructTypeCache installs the replacement exactly once
func H_C08_set_once() {
	vUNoFail = true
	vGlobalRules()
	c1 := &vMapCache{m: map[interface{}]interface{}{}}
	SetStructTypeCache(c1)
	SetStructTypeCache(vNoCache{})
	vAssert(cacheStructType == CacheEr(c1), "C08 SetStructTypeCache: first replacement wins")
	src := &vT1{A: vStr("A"), B: "b"}
	err := ValidateStruct(src)
	r := vNewRef()
	r.global = map[string]bool{"r1": true, "r2": true, "r3": true}
	r.top(src)
	vCheckAgainstRef("C08 after SetStructTypeCache", err, r)
	vReach("end")
}
