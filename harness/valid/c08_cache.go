//go:build verif

package valid

// C08: the struct-type cache is transparent. The global cache is replaced by
// an adversarial CacheEr whose Load may miss or return ANY value previously
// stored for that key (this over-approximates the default LRU, an LRU of any
// capacity incl. 0, an unbounded map and a cache that forgets everything, for
// every eviction history); every call must still produce what the reference
// walker computes from the call's own arguments (requested tag, rule set).

type vAdvCache struct {
	keys []interface{}
	vals []interface{}
	n    int
}

func (c *vAdvCache) Load(key interface{}) (interface{}, bool) {
	var cands []interface{}
	for i := range c.keys {
		if c.keys[i] == key {
			cands = append(cands, c.vals[i])
		}
	}
	if len(cands) == 0 {
		return nil, false
	}
	pick := vndChoice("cacheLoad"+vNum(c.n), len(cands)+1)
	c.n++
	if pick == 0 {
		return nil, false // evicted / forgotten
	}
	return cands[pick-1], true
}

func (c *vAdvCache) Store(key, value interface{}) {
	c.keys = append(c.keys, key)
	c.vals = append(c.vals, value)
}

// two struct types; vT1 carries different rule sets under the two tag names
type vT1 struct {
	A string `valid:"required,r1" alt:"r2"`
	B string `valid:"r2" alt:"required|need B,r3"`
	C string `alt:"r1"`
}

type vT2 struct {
	A string `valid:"r3"`
	N vT1    `valid:"exist" alt:"required"`
}

var vC08RMs = []RM{nil, {"A": "r3"}, {"C": "required", "B": "r1,r2"}}

func vC08Call(i int) {
	is := vNum(i)
	tag := "valid"
	if vndBool("alt" + is) {
		tag = "alt"
	}
	rm := vC08RMs[vndChoice("rm"+is, len(vC08RMs))]
	var src interface{}
	if vndBool("t2_" + is) {
		src = &vT2{A: "a", N: vT1{A: vStr("N.A" + is), B: "b"}}
	} else {
		src = &vT1{A: vStr("A" + is), B: vStr("B" + is), C: "c"}
	}
	vULog = nil
	vs := NewVStruct(tag)
	if rm != nil {
		vs.SetRule(vCopyRM(rm))
	}
	err := vs.Valid(src)
	r := vNewRef()
	r.tag = tag
	r.global = map[string]bool{"r1": true, "r2": true, "r3": true}
	r.unscoped = rm
	r.top(src)
	vCheckAgainstRef("C08 call "+is+" under an adversarial cache", err, r)
}

func vC08(n int) {
	vUNoFail = true
	vGlobalRules()
	cacheStructType = &vAdvCache{}
	for i := 0; i < n; i++ {
		vC08Call(i)
	}
	vReach("end")
}

func H_C08_adv2()  { vC08(2) }
func H_C08T_adv3() { vC08(3) }

// real caches: LRU of capacity 0,1,2 (three types force evictions), a plain map, a cache that forgets everything
type vMapCache struct{ m map[interface{}]interface{} }

func (c *vMapCache) Load(k interface{}) (interface{}, bool) { v, ok := c.m[k]; return v, ok }
func (c *vMapCache) Store(k, v interface{})                 { c.m[k] = v }

type vNoCache struct{}

func (vNoCache) Load(k interface{}) (interface{}, bool) { return nil, false }
func (vNoCache) Store(k, v interface{})                 {}

type vT3 struct {
	Z string `valid:"r1" alt:"r2,r1"`
}

func H_C08_real() {
	vUNoFail = true
	vGlobalRules()
	switch vndChoice("cache", 5) {
	case 0, 1, 2:
		cacheStructType = NewLRU(vndChoice("cap", 3))
	case 3:
		cacheStructType = &vMapCache{m: map[interface{}]interface{}{}}
	case 4:
		cacheStructType = vNoCache{}
	}
	// T1(valid), T3, T2 (nests T1), then T1 under the other tag, then T1(valid) again
	steps := []struct {
		tag string
		src interface{}
	}{
		{"valid", &vT1{A: vStr("A0"), B: "b"}},
		{"alt", &vT3{Z: "z"}},
		{"valid", &vT2{A: "a", N: vT1{A: "x", B: vStr("N.B")}}},
		{"alt", &vT1{A: "a", B: vStr("B3"), C: "c"}},
		{"valid", &vT1{A: vStr("A4"), B: "b"}},
	}
	for i, s := range steps {
		vULog = nil
		err := ValidateStruct(s.src, s.tag)
		r := vNewRef()
		r.tag = s.tag
		r.global = map[string]bool{"r1": true, "r2": true, "r3": true}
		r.top(s.src)
		vCheckAgainstRef("C08 step "+vNum(i)+" with a real cache", err, r)
	}
	vReach("end")
}

// SetStructTypeCache installs the replacement exactly once
func H_C08_set_once() {
	vUNoFail = true
	vGlobalRules()
	c1 := &vMapCache{m: map[interface{}]interface{}{}}
	SetStructTypeCache(c1)
	SetStructTypeCache(vNoCache{})
	vAssert(cacheStructType == CacheEr(c1), "C08 SetStructTypeCache: first replacement wins")
	src := &vT1{A: vStr("A"), B: "b"}
	err := ValidateStruct(src)
	r := vNewRef()
	r.global = map[string]bool{"r1": true, "r2": true, "r3": true}
	r.top(src)
	vCheckAgainstRef("C08 after SetStructTypeCache", err, r)
	vReach("end")
}

// functions given for one call never reach another call through the cache: a call with per-call
// functions, then calls on the same type without them (or with other ones), in every order
func vC08FnCall(i int, mode int) {
	is := vNum(i)
	o := &vT1{A: "a", B: "b", C: "c"} // the observable is which function object each rule name resolves to
	vULog = nil
	r := vNewRef()
	r.global = map[string]bool{"r1": true, "r2": true, "r3": true}
	r.globalTag = map[string]string{"r1": "r1", "r2": "r2", "r3": "r3"}
	var err error
	switch mode {
	case 0: // tags only
		err = Struct(o)
	case 1: // r1 and an otherwise unknown name given for this call
		err = StructForFns(o, RM{"B": "r2,r9"}, Name2FnMap{"r1": vURule("L-r1"), "r9": vURule("L-r9")})
		r.unscoped = RM{"B": "r2,r9"}
		r.local = map[string]bool{"r1": true, "r9": true}
		r.localTag = map[string]string{"r1": "L-r1", "r9": "L-r9"}
	case 2: // another function under the same name
		err = ValidStructForMyValidFn(o, "r1", vURule("M-r1"))
		r.local = map[string]bool{"r1": true}
		r.localTag = map[string]string{"r1": "M-r1"}
	case 3: // unknown name without a function: an error clause, other rules still run
		err = Struct(o, RM{"B": "r2,r9"})
		r.unscoped = RM{"B": "r2,r9"}
	}
	r.top(o)
	vCheckAgainstRef("C08 call "+is+" (functions of this call only)", err, r)
}

func vC08Fns(adversarial bool) {
	vUNoFail = true
	vGlobalRules()
	if adversarial {
		cacheStructType = &vAdvCache{}
	} else {
		cacheStructType = NewLRU(vndChoice("cap", 3))
	}
	for i := 0; i < 3; i++ {
		vC08FnCall(i, vndChoice("mode"+vNum(i), 4))
	}
	vReach("end")
}

func H_C08_fns_real() { vC08Fns(false) }
func H_C08_fns_adv()  { vC08Fns(true) }

// a small real LRU shared by two goroutines validating different types (more types than capacity): a
// hit on one type while the other call's miss evicts / recycles the entry still judges the value by
// its own type's rules
type vT4 struct {
	P string `valid:"required,le=1"`
	Q string `valid:"ge=2"`
	R string `valid:"required"`
}

func H_C08_concurrent_small_lru() {
	a, p := vStr("a"), vStr("p")
	c1 := func() string { return vErrText(Struct(&vP1{A: a, B: 9})) }
	c2 := func() string { return vErrText(Struct(&vT4{P: p, Q: "q"})) }
	warm := vndChoice("warm", 3)
	cacheStructType = NewLRU(1)
	switch warm {
	case 1:
		_ = c1()
	case 2:
		_ = c2()
	}
	var g1, g2 string
	vGo(func() { g1 = c1() })
	vGo(func() { g2 = c2() })
	vJoin()
	p1, p2 := c1(), c2()
	cacheStructType = vNoCache{}
	w1, w2 := c1(), c2()
	vAssert(g1 == w1 && g2 == w2, "C08 concurrent calls over a one-entry LRU: results as without a cache")
	vAssert(p1 == w1 && p2 == w2, "C08 later calls on the cache the concurrent calls left: results as without a cache")
	vReach("end")
}

// two goroutines validating the same type for the first time (both miss, or one finds what the other
// has just published), over every cache kind that is safe for concurrent use
func H_C08_concurrent_same_type_cold() {
	a, b := vStr("a"), vStr("b")
	c1 := func() string { return vErrText(Struct(&vT4{P: a, Q: "q", R: "r"})) }
	c2 := func() string { return vErrText(Struct(&vT4{P: "p", Q: b})) }
	cacheStructType = NewLRU(vndChoice("cap", 3))
	var g1, g2 string
	vGo(func() { g1 = c1() })
	vGo(func() { g2 = c2() })
	vJoin()
	p1, p2 := c1(), c2()
	cacheStructType = vNoCache{}
	w1, w2 := c1(), c2()
	vAssert(g1 == w1 && g2 == w2, "C08 first sight of one type in two goroutines: results as without a cache")
	vAssert(p1 == w1 && p2 == w2, "C08 later calls on the cache the two first sights left: results as without a cache")
	vReach("end")
}

// ---- round 4 ----

// distinct types that print alike: types declared inside different functions under one name (their
// reflect.Type.String() is the same, "valid.vSame"), with different rules under both tag names; every order of
// calls, under both tags, real LRU of capacity 0..2, a plain map and the adversarial cache
func vC08SameA(s string) interface{} {
	type vSame struct {
		A string `valid:"required,r1" alt:"r2"`
		B string `alt:"required|need B"`
	}
	return &vSame{A: s}
}

func vC08SameB(s string) interface{} {
	type vSame struct {
		A string `valid:"r3" alt:"required,r3"`
		B string `valid:"required" alt:"r1"`
	}
	return &vSame{A: s, B: "b"}
}

func vC08PrintAlike(cache int) {
	vUNoFail = true
	vGlobalRules()
	defer func(c CacheEr) { cacheStructType = c }(cacheStructType)
	switch cache {
	case 0, 1, 2:
		cacheStructType = NewLRU(cache)
	case 3:
		cacheStructType = &vMapCache{m: map[interface{}]interface{}{}}
	case 4:
		cacheStructType = &vAdvCache{}
	}
	for i := 0; i < 3; i++ {
		is := vNum(i)
		tag := "valid"
		if vndBool("alt" + is) {
			tag = "alt"
		}
		var src interface{}
		if vndBool("b" + is) {
			src = vC08SameB(vStr("A" + is))
		} else {
			src = vC08SameA(vStr("A" + is))
		}
		vULog = nil
		err := NewVStruct(tag).Valid(src)
		r := vNewRef()
		r.tag = tag
		r.global = map[string]bool{"r1": true, "r2": true, "r3": true}
		r.top(src)
		vCheckAgainstRef("C08 types that print alike, call "+is, err, r)
	}
	vReach("end")
}

func H_C08_types_that_print_alike_lru0() { vC08PrintAlike(0) }
func H_C08_types_that_print_alike_lru1() { vC08PrintAlike(1) }
func H_C08_types_that_print_alike_lru2() { vC08PrintAlike(2) }
func H_C08_types_that_print_alike_map()  { vC08PrintAlike(3) }
func H_C08_types_that_print_alike_adv()  { vC08PrintAlike(4) }

// a type that has rules under one tag name and none under the other (and a type nesting it), seen first
// under the tag that has none; then under the one that has; any cache
type vTOne struct {
	A string `valid:"required,r1"`
	B string
}

type vTOneHolder struct {
	N  vTOne    `valid:"exist" alt:"exist"`
	L  []*vTOne `valid:"exist" alt:"exist"`
	No string
}

func vC08PickCache(kind int) {
	switch kind {
	case 0:
		cacheStructType = NewLRU(vndChoice("cap", 3))
	case 1:
		if vndBool("forgetful") {
			cacheStructType = vNoCache{}
		} else {
			cacheStructType = &vMapCache{m: map[interface{}]interface{}{}}
		}
	default:
		cacheStructType = &vAdvCache{}
	}
}

func vC08OneTagOnly(cache, ncalls int) {
	vUNoFail = true
	vGlobalRules()
	vC08PickCache(cache)
	mk := func(i int) interface{} {
		if vndBool("nested" + vNum(i)) {
			return &vTOneHolder{N: vTOne{A: vStr("N.A" + vNum(i)), B: "b"}, L: []*vTOne{{A: vStr("L.A" + vNum(i)), B: "b"}}, No: "n"}
		}
		return &vTOne{A: vStr("A" + vNum(i)), B: "b"}
	}
	for i := 0; i < ncalls; i++ {
		tag := []string{"alt", "valid", "other"}[vndChoice("tag"+vNum(i), 3)]
		src := mk(i)
		vULog = nil
		err := ValidateStruct(src, tag)
		r := vNewRef()
		r.tag = tag
		r.global = map[string]bool{"r1": true, "r2": true, "r3": true}
		r.top(src)
		vCheckAgainstRef("C08 call "+vNum(i)+" on a type with rules under one tag name only", err, r)
	}
	vReach("end")
}

func H_C08_rules_under_one_tag_only_lru()   { vC08OneTagOnly(0, 2) }
func H_C08_rules_under_one_tag_only_map()   { vC08OneTagOnly(1, 2) }
func H_C08_rules_under_one_tag_only_adv()   { vC08OneTagOnly(2, 2) }
func H_C08T_rules_under_one_tag_only_lru3() { vC08OneTagOnly(0, 3) }

// one rule-set object handed to consecutive calls and edited in between (a rule text replaced, an entry
// swapped for another: the number of entries stays the same): each call is judged by what the rule set
// holds at that moment
func vC08EditedRM(cache, ncalls int) {
	vUNoFail = true
	vGlobalRules()
	vC08PickCache(cache)
	rm := RM{"A": "r3", "B": "required"}
	edits := []func(){
		func() { rm["A"] = "r2,r1" },
		func() { delete(rm, "B"); rm["C"] = "required|need C" },
		func() { rm["A"] = "" },
		func() { rm["B"] = "r1" },
	}
	for i := 0; i < ncalls; i++ {
		if i > 0 {
			edits[vndChoice("edit"+vNum(i), len(edits))]()
		}
		o := &vT1{A: vStr("A" + vNum(i)), B: vStr("B" + vNum(i))}
		vULog = nil
		var err error
		if vndBool("viaSetRule" + vNum(i)) {
			err = NewVStruct().SetRule(rm).Valid(o)
		} else {
			err = Struct(o, rm)
		}
		r := vNewRef()
		r.global = map[string]bool{"r1": true, "r2": true, "r3": true}
		r.unscoped = vCopyRM(rm)
		r.top(o)
		vCheckAgainstRef("C08 call "+vNum(i)+" with a rule set edited between calls", err, r)
	}
	vReach("end")
}

func H_C08_same_rule_set_object_edited_lru()   { vC08EditedRM(0, 2) }
func H_C08_same_rule_set_object_edited_map()   { vC08EditedRM(1, 2) }
func H_C08_same_rule_set_object_edited_adv()   { vC08EditedRM(2, 2) }
func H_C08T_same_rule_set_object_edited_lru3() { vC08EditedRM(0, 3) }
