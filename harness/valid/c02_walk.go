//go:build verif

package valid

import (
	"math"
	"strings"
	"time"
)

// C02: every violated rule reported exactly once, in order; nil iff none.
// Rule functions r1/r2/r3 are uninterpreted (vURule): each invocation may or
// may not write a clause, so the walker is checked against all behaviours.

func vGlobalRules() map[string]bool {
	SetCustomerValidFn("r1", vURule("r1"))
	SetCustomerValidFn("r2", vURule("r2"))
	SetCustomerValidFn("r3", vURule("r3"))
	return map[string]bool{"r1": true, "r2": true, "r3": true}
}

// vStrMax: length bound of the symbolic leaf strings of the walker harnesses (1 in the quick tier; the
// thorough wrappers H_CxxT_..._s2 rerun the same harnesses with 2)
var vStrMax = 1

func vStr(name string) string { return vndString(name, vStrMax) }

type vIn struct {
	N string `valid:"r1,required"`
	K int    `valid:"r2"`
}

func vInVal(name string) vIn { return vIn{N: vStr(name + ".N"), K: vndInt(name + ".K")} }

type vW1 struct {
	A string `valid:"r1"`
	B int    `valid:"r2,r1"`
	C string
	d string `valid:"r1"`
}

type vW2 struct {
	E bool    `valid:"r1,,r2"`
	F float64 `valid:"nosuch,r1"`
	I string  `valid:"r1,r1"`
}

type vW3 struct {
	G string         `valid:"required,r1"`
	H []int          `valid:"required"`
	J uint8          `valid:"r3,required|need J"`
	K map[string]int `valid:"required,r1"`
}

type vW4 struct {
	X  string `valid:"r1"`
	In vIn    `valid:"required"`
	P  *vIn   `valid:"exist"`
}

type vW4b struct {
	L []vIn  `valid:"required"`
	Y string `valid:"r3"`
}

type vW5 struct {
	M  map[string]*vIn `valid:"exist"`
	T  time.Time       `valid:"required"`
	PP **vIn           `valid:"exist"`
	A  [2]vIn          `valid:"exist"`
	U  vIn
}

type vW6 struct {
	A string `valid:"either=1"`
	B string `valid:"either=1,r1"`
	C int    `valid:"botheq=2"`
	D int    `valid:"botheq=2,r2"`
}

type vW7 struct {
	A string `valid:"required|必填,r1"`
	B string `valid:"exist"`
	C int    `valid:"either=9"`
}

func vRun(tag string, src interface{}) {
	known := vGlobalRules()
	err := Struct(src)
	r := vNewRef()
	r.global = known
	r.top(src)
	vCheckAgainstRef(tag, err, r)
	vReach("end")
}

func H_C02_w1()       { vRun("C02 w1", &vW1{A: vStr("A"), B: vndInt("B"), C: "c", d: "d"}) }
func H_C02_w1_value() { vRun("C02 w1 by value", vW1{A: vStr("A"), B: vndInt("B"), C: "c", d: "d"}) }
func H_C02_w2()       { vRun("C02 w2", &vW2{E: vndBool("E"), F: vndFloat64("F"), I: vStr("I")}) }

func H_C02_w3() {
	o := &vW3{G: vStr("G"), J: vndUint8("J")}
	switch vndChoice("H", 3) {
	case 1:
		o.H = []int{}
	case 2:
		o.H = []int{vndInt("H0")}
	}
	switch vndChoice("K", 3) {
	case 1:
		o.K = map[string]int{}
	case 2:
		o.K = map[string]int{"k": vndInt("K0")}
	}
	vRun("C02 w3", o)
}

func H_C02_w4() {
	o := &vW4{X: vStr("X"), In: vInVal("In")}
	if vndBool("P") {
		p := vInVal("P")
		o.P = &p
	}
	vRun("C02 w4", o)
}

func H_C02_w4b() {
	o := &vW4b{Y: vStr("Y")}
	n := vndLen("L", 2)
	for i := 0; i < n; i++ {
		o.L = append(o.L, vInVal("L"+vNum(i)))
	}
	vRun("C02 w4b", o)
}

func H_C02_w5() {
	o := &vW5{U: vIn{N: "", K: 1}}
	switch vndChoice("M", 3) {
	case 1:
		o.M = map[string]*vIn{"k": nil}
	case 2:
		p := vInVal("M")
		o.M = map[string]*vIn{"k": &p}
	}
	if vndBool("T") {
		o.T = time.Unix(1, 0)
	}
	switch vndChoice("PP", 3) {
	case 1:
		var p *vIn
		o.PP = &p
	case 2:
		v := vInVal("PP")
		p := &v
		o.PP = &p
	}
	if vndBool("A") {
		o.A[1] = vInVal("A1")
	}
	vRun("C02 w5", o)
}

func H_C02_w6() { vRun("C02 w6", &vW6{A: vStr("A"), B: vStr("B"), C: vndInt("C"), D: vndInt("D")}) }
func H_C02_w7() { vRun("C02 w7", &vW7{A: vStr("A"), B: vStr("B"), C: vndInt("C")}) }

// top-level collections of structs
func H_C02_top_slice() {
	n := vndLen("n", 2)
	var s []vW1
	for i := 0; i < n; i++ {
		s = append(s, vW1{A: vStr("A" + vNum(i)), B: vndInt("B" + vNum(i))})
	}
	vRun("C02 []T", s)
}

func H_C02_top_ptr_slice() {
	a := vInVal("a")
	s := []*vIn{&a}
	if vndBool("two") {
		b := vInVal("b")
		s = append(s, &b)
	}
	vRun("C02 []*T", s)
}

func H_C02_top_array() { vRun("C02 [2]T", [2]vIn{vInVal("a"), vInVal("b")}) }

func H_C02_top_map() {
	m := map[int]vIn{}
	if vndBool("one") {
		m[7] = vInVal("a")
	}
	vRun("C02 map[int]T", m)
}

func H_C02_top_pp() {
	o := &vW1{A: vStr("A"), B: vndInt("B")}
	vRun("C02 **T", &o)
}

// ---- the other three walkers: one clause per violated rule, in order, none trailing ----

func H_C02_var_rules() {
	switch vndChoice("kind", 3) {
	case 0:
		vRunVar("C02 Var(string) rule list", vStr("s"), "r1,,r1", "nosuch,required|need s", "exist")
	case 1:
		vRunVar("C02 Var(int) rule list", vndInt("i"), "required,r1,zz,r1")
	case 2:
		var s []string
		if vndBool("nonempty") {
			s = []string{vStr("s0")}
		}
		vRunVar("C02 Var([]string) rule list", s, "r1", "required", "r1")
	}
}

func H_C02_map_rules() {
	rm := NewRule().Set("k", "r1,,r2", "nosuch,required|need k").Set("j", "exist,r2")
	switch vndChoice("kind", 3) {
	case 0:
		vRunMap("C02 Map one key", map[string]string{"k": vStr("k")}, rm)
	case 1:
		vRunMap("C02 Map other key", map[string]int{"j": vndInt("j")}, rm)
	case 2:
		vRunMap("C02 Map slice of maps", []map[string]string{{"k": vStr("k0")}, {"k": vStr("k1")}}, NewRule().Set("k", "required,r1"))
	}
}

func H_C02_url_rules() {
	rm := NewRule().Set("k", "r1,,r2", "nosuch,required|need k").Set("j", "exist,r2")
	v, w := vPlainText("v", 1), vPlainText("w", 1)
	switch vndChoice("shape", 3) {
	case 0:
		vRunUrl("C02 Url k", "h?k="+v, []string{"k"}, []string{v}, rm)
	case 1:
		vRunUrl("C02 Url k,j", "h?k="+v+"&j="+w, []string{"k", "j"}, []string{v, w}, rm)
	case 2:
		vRunUrl("C02 Url repeated key", "h?k="+v+"&k="+w, []string{"k", "k"}, []string{v, w}, NewRule().Set("k", "required,r1"))
	}
}

// a call with a per-call rule set followed by a call on the same type judged by its tags only
// (and the other way round): each call is compared with the reference on its own arguments
func H_C02_sequence() {
	known := vGlobalRules()
	rm := RM{"A": "r3,required|need A", "C": "r2"}
	first := vndBool("overrideFirst")
	for i := 0; i < 2; i++ {
		o := &vW1{A: vStr("A" + vNum(i)), B: vndInt("B" + vNum(i)), C: "c"}
		vULog = nil
		r := vNewRef()
		r.global = known
		var err error
		if (i == 0) == first {
			err = Struct(o, vCopyRM(rm))
			r.unscoped = rm
		} else {
			err = Struct(o)
		}
		r.top(o)
		vCheckAgainstRef("C02 sequence call "+vNum(i), err, r)
	}
	vReach("end")
}

// real size rules with symbolic bounds on 64-bit fields (values above 2^53 included): the number of clauses
// equals the number of violated rules, nil exactly when none
type vW8 struct {
	I int64
	U uint64
	S string
}

func vCountClauses(err error) int {
	if err == nil {
		return 0
	}
	return strings.Count(err.Error(), ErrEndFlag) + 1
}

func H_C02_real_rules() {
	i, u := vndInt64("i"), vndUint64("u")
	vAssume(vAnd(i != 0, u != 0))
	lo, hi := vndInt("lo"), vndInt("hi")
	mi, mu := vSignedMeas(i), vUnsignedMeas(u)
	want := 0
	rm := RM{}
	switch vndChoice("rules", 3) {
	case 0:
		rm["I"] = "ge=" + vItoa(lo) + ",le=" + vItoa(hi)
		want += vIteInt(mi.lt(lo), 1, 0) + vIteInt(mi.gt(hi), 1, 0)
		rm["U"] = "gt=" + vItoa(lo)
		want += vIteInt(vOr(mu.lt(lo), mu.eq(lo)), 1, 0)
	case 1:
		rm["I"] = "lt=" + vItoa(hi) + ",noeq=" + vItoa(lo)
		want += vIteInt(vOr(mi.gt(hi), mi.eq(hi)), 1, 0) + vIteInt(mi.eq(lo), 1, 0)
		rm["U"] = "to=" + vItoa(lo) + "~" + vItoa(hi) + ",eq=" + vItoa(hi)
		want += vIteInt(vOr(mu.lt(lo), mu.gt(hi)), 1, 0) + vIteInt(vNot(mu.eq(hi)), 1, 0)
	case 2:
		rm["U"] = "le=" + vItoa(hi) + ",ge=" + vItoa(lo) + ",noeq=" + vItoa(hi)
		want += vIteInt(mu.gt(hi), 1, 0) + vIteInt(mu.lt(lo), 1, 0) + vIteInt(mu.eq(hi), 1, 0)
		rm["I"] = "oto=" + vItoa(lo) + "~" + vItoa(hi)
		want += vIteInt(vOr(vOr(mi.lt(lo), mi.eq(lo)), vOr(mi.gt(hi), mi.eq(hi))), 1, 0)
	}
	err := Struct(&vW8{I: i, U: u}, rm)
	vAssert((err == nil) == (want == 0), "C02 real size rules: nil exactly when no rule is violated")
	vAssert(vCountClauses(err) == want, "C02 real size rules: one clause per violated rule")
	vReach("end")
}

// maps whose keys render to the same text (interface keys 1 and "1"; int8 and string): every entry is validated
func H_C02_colliding_keys() {
	a, b := vInVal("a"), vInVal("b")
	switch vndChoice("shape", 2) {
	case 0:
		vRunUnordered("C02 map[interface{}]T with keys 1 and \"1\"", map[interface{}]vIn{1: a, "1": b})
	case 1:
		vRunUnordered("C02 map[interface{}]*T with keys int8(2), uint(2) and \"2\"", map[interface{}]*vIn{int8(2): &a, uint(2): &b, "2": &a})
	}
}

type vW9 struct {
	M map[interface{}]vIn `valid:"exist"`
}

func H_C02_colliding_keys_field() {
	vRunUnordered("C02 field map[interface{}]T with keys 1 and \"1\"", &vW9{M: map[interface{}]vIn{1: vInVal("a"), "1": vInVal("b")}})
}

func vRunUnordered(tag string, src interface{}) {
	known := vGlobalRules()
	err := Struct(src)
	r := vNewRef()
	r.global = known
	r.top(src)
	vCheckUnordered(tag, err, r)
	vReach("end")
}

// cross-field group clauses come last, after every field clause of the whole call: nested objects and
// slice elements with violated groups, followed by later fields (and later elements) that fail too
type vW11 struct {
	In vG2    `valid:"exist"`
	Z  string `valid:"r1"`
	L  []vG2  `valid:"exist"`
	Y  string `valid:"required|need Y,r2"`
}

func H_C02_groups_last_nested() {
	o := &vW11{In: vG2{A: vStr("In.A"), Z: "z"}, Z: vStr("Z"), L: []vG2{{B: vStr("L0.B"), Z: "z"}, {A: vStr("L1.A"), Z: "z"}}, Y: vStr("Y")}
	known := vGlobalRules()
	err := Struct(o)
	r := vNewRef()
	r.global = known
	r.top(o)
	// the field part is ordered; the group clauses (up to three here) follow in any order
	want := ""
	j := 0
	for _, e := range r.out {
		if !e.isCall {
			want += e.text
			continue
		}
		if j < len(vULog) && vULog[j].failed {
			want += vULog[j].clause
		}
		j++
	}
	gs := r.groupClauses()
	got := ""
	if err != nil {
		got = err.Error() + ErrEndFlag
	}
	n := len(want)
	for _, g := range gs {
		n += len(g)
	}
	vAssert(j == len(vULog), "C02 groups last: rule evaluations")
	vAssert(len(got) == n && len(got) >= len(want) && got[:len(want)] == want, "C02 groups last: every field clause of the call precedes every group clause")
	vReach("end")
}

// required on arrays: a zero-valued array is empty, an array with a non-zero element is not
type vW12 struct {
	R [2]int  `valid:"required,r1"`
	S [1]vIn  `valid:"required"`
	E [0]int  `valid:"required|need E"`
	B [3]byte `valid:"required"`
}

func H_C02_required_arrays() {
	o := &vW12{R: [2]int{0, vndInt("R1")}, B: [3]byte{vndUint8("B0")}}
	if vndBool("S") {
		o.S[0] = vInVal("S0")
	}
	vRun("C02 required on arrays", o)
}

// maps with float keys, NaN included (a NaN key can be iterated but not looked up): every entry is validated
func H_C02_float_keys() {
	a, b := vInVal("a"), vInVal("b")
	nan := math.NaN()
	switch vndChoice("shape", 3) {
	case 0:
		vRunUnordered("C02 map[float64]T with a NaN key", map[float64]vIn{nan: a, 1.5: b})
	case 1:
		vRunUnordered("C02 map[float64]*T with two NaN keys", map[float64]*vIn{nan: &a, math.NaN(): &b})
	case 2:
		vRunUnordered("C02 field map[float64]T with NaN and -0 keys", &vW13{M: map[float64]vIn{nan: a, math.Copysign(0, -1): b}})
	}
}

type vW13 struct {
	M map[float64]vIn `valid:"exist"`
}

// ---- round 4 ----

// one sub-object reachable through several fields / elements / map values (the same pointer): it is a
// rule instance under each of its paths, so its violations are reported once per path
type vW20 struct {
	P []*vIn          `valid:"exist"`
	A *vIn            `valid:"exist"`
	B *vIn            `valid:"required"`
	M map[string]*vIn `valid:"exist"`
	C **vIn           `valid:"exist"`
}

func H_C02_shared_subobject() {
	in := &vIn{N: vStr("N"), K: vndInt("K")}
	other := &vIn{N: vStr("oN"), K: vndInt("oK")}
	o := &vW20{}
	switch vndChoice("shape", 5) {
	case 0:
		o.A, o.B = in, in
	case 1:
		o.P = []*vIn{in, in}
	case 2:
		o.P = []*vIn{in, other, in}
		o.B = other
	case 3:
		o.A = in
		o.M = map[string]*vIn{"k": in}
		o.C = &in
	case 4:
		o.A, o.B = in, other
		o.C = &o.A
	}
	vRun("C02 shared sub-object", o)
}

// the same pointer twice in a top-level slice, and the object itself inside one of its own collections' siblings
func H_C02_shared_top() {
	in := &vIn{N: vStr("N"), K: vndInt("K")}
	switch vndChoice("shape", 2) {
	case 0:
		vRun("C02 []*T with one pointer twice", []*vIn{in, in})
	case 1:
		vRun("C02 [2]*T with one pointer twice", [2]*vIn{in, in})
	}
}

// Map over a slice of maps with cross-key groups and ordinary rules: every map is an object of its own
// (one clause per violated group per map, none for a satisfied one), field clauses first
func H_C02_map_slice_groups() {
	rm := NewRule().Set("a,b", "either=1").Set("c,d", "botheq=2").Set("a", "r1")
	m := []map[string]string{
		{"a": vStr("a0"), "b": vStr("b0"), "c": vStr("c0"), "d": vStr("d0")},
		{"a": vStr("a1"), "b": vStr("b1"), "c": vStr("c1"), "d": vStr("d1")},
	}
	vULog = nil
	err := MapFn(m, rm, Name2FnMap{"r1": vURule("r1")})
	r := vNewRef()
	r.local = map[string]bool{"r1": true}
	vRefMap(r, m, rm)
	vCheckUnordered("C02 Map([]map) with groups", err, r)
	vAssert((err == nil) == (vCountClauses(err) == 0), "C02 Map([]map) with groups: nil iff no clause")
	vReach("end")
}

// rule texts in which the name of one rule occurs inside another item: in a custom message ("must
// exist"), in the name of a caller's own rule (existsInDb, notrequired) or in an unknown name; every
// item is what its own key says, nothing else
type vWWords struct {
	P  vIn            `valid:"required|profile must exist"`
	Q  *vIn           `valid:"required,existsInDb"`
	R  []vIn          `valid:"required|either required or exist"`
	S  map[string]vIn `valid:"exist|not required"`
	T  string         `valid:"required|botheq either exist,r1"`
	U  string         `valid:"notrequired,r2"`
	V  string         `valid:"requiredx,r3"`
	W  *vIn           `valid:"existsInDb,exist"`
	X  [1]vIn         `valid:"r1exist,required"`
	Y  string         `valid:"r1,to_exist|x"`
	Z  vIn            `valid:"required|需要 exist 的说明"`
	A1 *vIn           `valid:"required"`
}

func H_C02_rule_words() {
	known := vGlobalRules()
	SetCustomerValidFn("existsInDb", vURule("existsInDb"))
	SetCustomerValidFn("notrequired", vURule("notrequired"))
	known["existsInDb"], known["notrequired"] = true, true
	// the rules only log their invocations here: which (path, rule) pairs were evaluated is the observable
	vUNoFail = true
	c := vIn{N: "n", K: 1}
	q, w, a1 := vInVal("Q"), c, c
	o := &vWWords{P: vInVal("P"), Q: &q, R: []vIn{c}, S: map[string]vIn{"k": c}, T: vStr("T"), U: vStr("U"), V: "v",
		W: &w, X: [1]vIn{c}, Y: "y", Z: c, A1: &a1}
	if vndBool("nilQ") {
		o.Q = nil
	}
	err := Struct(o)
	r := vNewRef()
	r.global = known
	r.top(o)
	vCheckAgainstRef("C02 rule names inside other items", err, r)
	vReach("end")
}

// one type validated under its two tag names in any order of three calls (the validator object is handed
// back by the pool between the calls): each call is compared with the reference for the tag it names
func H_C02_tag_sequence() {
	vUNoFail = true
	known := vGlobalRules()
	for i := 0; i < 3; i++ {
		tag := []string{"valid", "alt"}[vndChoice("tag"+vNum(i), 2)]
		var src interface{} = &vT1{A: vStr("A" + vNum(i)), B: "b", C: "c"}
		if vndBool("nested" + vNum(i)) {
			src = []*vT2{{A: "a", N: vT1{A: "x", B: vStr("N.B" + vNum(i))}}}
		}
		vULog = nil
		var err error
		if i%2 == 0 {
			err = ValidateStruct(src, tag)
		} else {
			err = NewVStruct(tag).Valid(src)
		}
		r := vNewRef()
		r.tag = tag
		r.global = known
		r.top(src)
		vCheckAgainstRef("C02 tag sequence call "+vNum(i), err, r)
	}
	vReach("end")
}

// field names beyond ASCII: exported exactly when the first letter is upper case in any script
type vWNames struct {
	Épée  string `valid:"required,r1"`
	ñame  string `valid:"required,r1"`
	_rev  string `valid:"required"`
	Ωmega int    `valid:"r2"`
	A     string `valid:"r3"`
}

func H_C02_field_name_classes() {
	vRun("C02 field names of every class", &vWNames{Épée: vStr("E"), Ωmega: vndInt("O"), A: vStr("A")})
}

// the same type three times in a row, with what each call brings along varying (nothing, a rule set, its own
// functions for a known and for an otherwise unknown name): rule lists with empty items, repeated rules and an
// unknown rule; every call is compared with the reference on its own arguments
type vWSeq struct {
	E string `valid:"r1,,r2"`
	F string `valid:",nosuch,r1"`
	I string `valid:"required,,r1,r1"`
	P string `valid:"phone,r9"`
}

func H_C02_same_type_three_calls() { vSameTypeCalls("C02", 3) }

func vSameTypeCalls(prop string, ncalls int) {
	known := vGlobalRules()
	vUNoFail = true
	for i := 0; i < ncalls; i++ {
		o := &vWSeq{E: vStr("E" + vNum(i)), F: "f", I: vStr("I" + vNum(i)), P: "x"}
		vULog = nil
		r := vNewRef()
		r.global = known
		r.globalTag = map[string]string{"r1": "r1", "r2": "r2", "r3": "r3"}
		r.realBuiltin = map[string]string{VPhone: ExplainEn + " it is not phone"}
		var err error
		switch vndChoice("with"+vNum(i), 3) {
		case 0:
			err = Struct(o)
		case 1:
			rm := RM{"E": "r2,,r1", "F": ""}
			err = Struct(o, vCopyRM(rm))
			r.unscoped = rm
		default:
			err = StructForFns(o, nil, Name2FnMap{"phone": vURule("L-phone"), "r9": vURule("L-r9")})
			r.local = map[string]bool{"phone": true, "r9": true}
			r.localTag = map[string]string{"phone": "L-phone", "r9": "L-r9"}
		}
		r.top(o)
		vCheckAgainstRef(prop+" same type, call "+vNum(i), err, r)
	}
	vReach("end")
}
