//go:build verif

package valid

import (
	"encoding/json"
	"math"
	"net"
	"os"
	"reflect"
	"regexp"
	"strconv"
	"strings"
	"time"
)

// C05: format and content rules accept exactly their documented language.
// Reference languages are written here from the README wording, independently
// of the patterns in valid/init.go; membership of the implementation's pattern
// (as compiled by the code under test) and of the reference pattern are both
// unrolled over the same symbolic bytes, so unsat means language equality up
// to the length bound.

var (
	vRefPhone  = regexp.MustCompile(`^1[3-9][0-9]{9}$`)
	vRefEmail  = regexp.MustCompile(`^[0-9A-Za-z_]+(?:[-+.][0-9A-Za-z_]+)*@[0-9A-Za-z_]+(?:[-.][0-9A-Za-z_]+)*\.[0-9A-Za-z_]+(?:[-.][0-9A-Za-z_]+)*$`)
	vRefIDCard = regexp.MustCompile(`^(?:[0-9]{15}|[0-9]{17}[0-9Xx])$`)
	vRefInt    = regexp.MustCompile(`^[0-9]+$`)
	vRefFloat  = regexp.MustCompile(`^[0-9]+\.[0-9]+$`)
	vRefInts   = regexp.MustCompile(`^[0-9]+(?:,[0-9]+)*$`)
	vRefIntsD  = regexp.MustCompile(`^[0-9]+(?:-[0-9]+)*$`)
	vRefIntsAB = regexp.MustCompile(`^[0-9]+(?:ab[0-9]+)*$`)
)

func vC05Text(name string, n int) string {
	s := vndStringN(name, n)
	vAssume(vValidUTF8(s))
	return s
}

func vRuleViolated(fn CommonValidFn, rule string, v interface{}) bool {
	return vViolated(func(b *strings.Builder) { fn(b, rule, "O", "F", reflect.ValueOf(v)) })
}

// one harness per (rule, length): no forks on the length, one formula per obligation
func vC05Regex(tag string, fn CommonValidFn, rule string, ref *regexp.Regexp, n int) {
	s := vC05Text("s", n)
	got := vRuleViolated(fn, rule, s)
	want := !ref.MatchString(s)
	vAssert(got == want, "C05 "+tag+": violated exactly outside the documented language")
	vReach("end")
}

func vC05RegexUpTo(tag string, fn CommonValidFn, rule string, ref *regexp.Regexp, lo, hi int) {
	n := lo + vndChoice("len", hi-lo+1)
	vC05Regex(tag, fn, rule, ref, n)
}

func H_C05_phone()     { vC05RegexUpTo("phone", Phone, "phone", vRefPhone, 1, 12) }
func H_C05_email()     { vC05RegexUpTo("email", Email, "email", vRefEmail, 1, 8) }
func H_C05T_email()    { vC05RegexUpTo("email", Email, "email", vRefEmail, 9, 12) }
func H_C05_idcard()    { vC05RegexUpTo("idcard", IDCard, "idcard", vRefIDCard, 14, 19) }
func H_C05_idcard_lo() { vC05RegexUpTo("idcard", IDCard, "idcard", vRefIDCard, 1, 13) }
func H_C05_int()       { vC05RegexUpTo("int", Int, "int", vRefInt, 1, 8) }
func H_C05_float()     { vC05RegexUpTo("float", Float, "float", vRefFloat, 1, 8) }
func H_C05_ints()      { vC05RegexUpTo("ints", Ints, "ints", vRefInts, 1, 6) }
func H_C05_ints_dash() { vC05RegexUpTo("ints=-", Ints, "ints=-", vRefIntsD, 1, 6) }
func H_C05_ints_ab()   { vC05RegexUpTo("ints=ab", Ints, "ints=ab", vRefIntsAB, 1, 6) }
func H_C05T_int()      { vC05RegexUpTo("int", Int, "int", vRefInt, 9, 16) }
func H_C05T_float()    { vC05RegexUpTo("float", Float, "float", vRefFloat, 9, 16) }
func H_C05T_ints()     { vC05RegexUpTo("ints", Ints, "ints", vRefInts, 7, 10) }
func H_C05T_phone()    { vC05RegexUpTo("phone", Phone, "phone", vRefPhone, 13, 16) }

// numeric and slice inputs of int / ints / float
func H_C05_int_kinds() {
	switch vndChoice("kind", 6) {
	case 0:
		vAssert(!vRuleViolated(Int, "int", vndInt("i")), "C05 int: integer kinds are integers")
	case 1:
		vAssert(!vRuleViolated(Int, "int", vndUint8("u")), "C05 int: unsigned kinds are integers")
	case 2:
		vAssert(vRuleViolated(Int, "int", vndFloat64("f")), "C05 int: a float field is not an integer")
	case 3:
		vAssert(!vRuleViolated(Float, "float", vndFloat32("f")), "C05 float: float kinds are floats")
	case 4:
		vAssert(vRuleViolated(Float, "float", vndInt("i")), "C05 float: an int field is not a float")
	case 5:
		a, b := vC05Text("a", 1+vndChoice("la", 2)), vC05Text("b", 1+vndChoice("lb", 2))
		got := vRuleViolated(Ints, "ints", []string{a, b})
		want := !vRefInt.MatchString(a) || !vRefInt.MatchString(b)
		vAssert(got == want, "C05 ints: every slice element is an integer")
	}
	vReach("end")
}

// ---- trusted predicates: only the glue is under test ----

func H_C05_ip() {
	s := vC05Text("s", 1+vndChoice("len", 8))
	ip := net.ParseIP(s)
	is4 := ip != nil && ip.To4() != nil
	vAssert(vRuleViolated(Ip, "ip", s) == (ip == nil), "C05 ip: violated exactly when net.ParseIP rejects")
	vAssert(vRuleViolated(Ipv4, "ipv4", s) == !is4, "C05 ipv4: violated exactly when not an IPv4 address")
	vAssert(vRuleViolated(Ipv6, "ipv6", s) == !(ip != nil && !is4), "C05 ipv6: violated exactly when not an IPv6 address")
	vReach("end")
}

func H_C05_json() {
	s := vC05Text("s", 1+vndChoice("len", 3))
	vAssert(vRuleViolated(Json, "json", s) == !json.Valid([]byte(s)), "C05 json: violated exactly when json.Valid rejects")
	vReach("end")
}

func H_C05_file_dir() {
	p := []string{"/", "/etc/passwd", "/verif-no-such-path"}[vndChoice("path", 3)]
	fi, err := os.Stat(p)
	isDir := err == nil && fi.IsDir()
	isFile := err == nil && !fi.IsDir()
	vAssert(vRuleViolated(File, "file", p) == !isFile, "C05 file: violated exactly when not an existing regular file")
	vAssert(vRuleViolated(Dir, "dir", p) == !isDir, "C05 dir: violated exactly when not an existing directory")
	vReach("end")
}

// ---- dates: the layout handed to time.Parse is the documented one ----

// GetTimeFmt with symbolic separators
func H_C05_layout() {
	d := vndString("d", 2)
	t := vndString("t", 2)
	c := vndString("c", 2)
	switch vndChoice("n", 4) {
	case 0:
		vAssert(GetTimeFmt(DateTimeFmt) == "2006-01-02 15:04:05", "C05 layout: defaults")
		vAssert(GetTimeFmt(YearFmt) == "2006" && GetTimeFmt(YearFmt|MonthFmt) == "2006-01" && GetTimeFmt(DateFmt) == "2006-01-02", "C05 layout: default masks")
	case 1:
		vAssert(GetTimeFmt(DateTimeFmt, d) == "2006"+d+"01"+d+"02 15:04:05", "C05 layout: one separator")
		vAssert(GetTimeFmt(DateFmt, d) == "2006"+d+"01"+d+"02" && GetTimeFmt(YearFmt|MonthFmt, d) == "2006"+d+"01", "C05 layout: date masks")
	case 2:
		vAssert(GetTimeFmt(DateTimeFmt, d, t) == "2006"+d+"01"+d+"02"+t+"15:04:05", "C05 layout: two separators")
	case 3:
		vAssert(GetTimeFmt(DateTimeFmt, d, t, c) == "2006"+d+"01"+d+"02"+t+"15"+c+"04"+c+"05", "C05 layout: three separators")
		vAssert(GetTimeFmt(HourFmt|MinFmt|SecFmt, d, t, c) == "15"+c+"04"+c+"05", "C05 layout: time only")
	}
	vReach("end")
}

var vC05Dates = []struct {
	name   string
	fn     CommonValidFn
	rule   string
	layout string
}{
	{"year", Year, "year", "2006"},
	{"year2month", Year2Month, "year2month", "2006-01"},
	{"year2month_slash", Year2Month, "year2month=/", "2006/01"},
	{"year2month_quoted", Year2Month, "year2month='.'", "2006.01"},
	{"date", Date, "date", "2006-01-02"},
	{"date_slash", Date, "date=/", "2006/01/02"},
	{"date_quoted", Date, "date='/'", "2006/01/02"},
	{"date_empty", Date, "date=''", "20060102"},
	{"datetime", Datetime, "datetime", "2006-01-02 15:04:05"},
	{"datetime_one", Datetime, "datetime=/", "2006/01/02 15:04:05"},
	{"datetime_two", Datetime, "datetime='/,T'", "2006/01/02T15:04:05"},
	{"datetime_three", Datetime, "datetime='/, ,.'", "2006/01/02 15.04.05"},
	{"datetime_msg", Datetime, "datetime='.,_,:'|bad time", "2006.01.02_15:04:05"},
	// round 4: a quoted separator is taken literally, whatever it contains (for the one-separator rules a comma is
	// part of the separator, not a delimiter between separators)
	{"date_comma", Date, "date=','", "2006,01,02"},
	{"year2month_comma", Year2Month, "year2month=','", "2006,01"},
	{"date_comma_blank", Date, "date=', '", "2006, 01, 02"},
	{"date_two_chars", Date, "date='/-'", "2006/-01/-02"},
	{"year2month_blank", Year2Month, "year2month=' '", "2006 01"},
	{"date_dot_msg", Date, "date='.'|bad date", "2006.01.02"},
	{"year2month_comma_msg", Year2Month, "year2month=',,'|bad month", "2006,,01"},
}

func vC05Date(i int) {
	d := vC05Dates[i]
	// values of the layout's length, one shorter and one longer
	n := len(d.layout) - 1 + vndChoice("dlen", 3)
	s := vC05Text("s", n)
	_, err := time.Parse(d.layout, s)
	vAssert(vRuleViolated(d.fn, d.rule, s) == (err != nil), "C05 "+d.name+": violated exactly when the value does not parse under the documented layout")
	vReach("end")
}

// ---- option rules ----

func vC05Opt(name string, max int) string {
	o := vndString(name, max)
	vAssume(vValidUTF8(o))
	vAssume(vNoByte(o, '/'))
	vAssume(vNoByte(o, '\''))
	vAssume(vNoByte(o, '('))
	vAssume(vNoByte(o, ')'))
	vAssume(vNoByte(o, ','))
	vAssume(vNoByte(o, '|'))
	vAssume(vNoByte(o, '='))
	return o
}

func H_C05_in() {
	o1, o2 := vC05Opt("o1", 2), vC05Opt("o2", 2)
	v := vC05Text("v", 1+vndChoice("len", 2))
	want := !(v == o1 || v == o2)
	switch vndChoice("form", 3) {
	case 0:
		vAssert(vRuleViolated(In, "in=("+o1+"/"+o2+")", v) == want, "C05 in: violated exactly when the value is none of the options")
	case 1:
		vAssert(vRuleViolated(In, "in=('"+o1+"'/'"+o2+"')", v) == want, "C05 in: quoted options are taken literally")
	case 2:
		// a '/' protected by quotes belongs to the option
		q := o1 + "/" + o2
		vAssert(vRuleViolated(In, "in=('"+q+"'/x)", v) == !(v == q || v == "x"), "C05 in: '/' inside quotes does not split")
	}
	vReach("end")
}

func H_C05_include() {
	o1, o2 := vC05Opt("o1", 2), vC05Opt("o2", 1)
	vAssume(len(o1) > 0)
	vAssume(len(o2) > 0)
	v := vC05Text("v", 1+vndChoice("len", 3))
	want := !(strings.Contains(v, o1) || strings.Contains(v, o2))
	vAssert(vRuleViolated(Include, "include=("+o1+"/"+o2+")", v) == want, "C05 include: violated exactly when the value contains none of the options")
	vReach("end")
}

func H_C05_in_numbers() {
	switch vndChoice("kind", 3) {
	case 0:
		x := vndInt("x")
		vAssume(x != 0)
		vAssert(vRuleViolated(In, "in=(1/-2/30)", x) == !(x == 1 || x == -2 || x == 30), "C05 in/int: compared by canonical decimal rendering")
	case 1:
		x := vndUint8("x")
		vAssume(x != 0)
		vAssert(vRuleViolated(In, "in=(1/02/200)", x) == !(x == 1 || x == 200), "C05 in/uint8: compared by canonical decimal rendering")
	case 2:
		x := vndFloat64("x")
		vAssume(vNot(vIsNaN(x)))
		vAssume(x != 0)
		vAssert(vRuleViolated(In, "in=(1.5/2/1.50)", x) == !(x == 1.5 || x == 2), "C05 in/float64: compared by canonical decimal rendering")
	}
	vReach("end")
}

func H_C05_prefix_suffix() {
	p := vC05Opt("p", 2)
	v := vC05Text("v", 1+vndChoice("len", 3))
	if vndBool("suffix") {
		vAssert(vRuleViolated(Suffix, "suffix="+p, v) == !strings.HasSuffix(v, p), "C05 suffix")
	} else {
		vAssert(vRuleViolated(Prefix, "prefix="+p, v) == !strings.HasPrefix(v, p), "C05 prefix")
	}
	vReach("end")
}

func H_C05_unique() {
	switch vndChoice("kind", 3) {
	case 0:
		a, b, c := vC05Opt("a", 1), vC05Opt("b", 1), vC05Opt("c", 1)
		s := a + "," + b + "," + c
		vAssert(vRuleViolated(Unique, "unique", s) == (a == b || a == c || b == c), "C05 unique/string: violated exactly when two comma-separated items are equal")
	case 1:
		a, b, c := vndInt("a"), vndInt("b"), vndInt("c")
		vAssert(vRuleViolated(Unique, "unique", []int{a, b, c}) == (a == b || a == c || b == c), "C05 unique/[]int: compared by canonical decimal rendering")
	case 2:
		a, b := vC05Text("a", vndChoice("la", 3)), vC05Text("b", vndChoice("lb", 3))
		vAssert(vRuleViolated(Unique, "unique", []string{a, b}) == (a == b), "C05 unique/[]string")
	}
	vReach("end")
}

// re: the pattern is the text between the first quote and the first quote not preceded by a backslash
func H_C05_re() {
	switch vndChoice("pat", 5) {
	case 0:
		v := vC05Text("v", 1+vndChoice("len", 3))
		m, _ := regexp.MatchString(`^a+$`, v)
		vAssert(vRuleViolated(Re, `re='^a+$'`, v) == !m, "C05 re: plain pattern")
	case 1:
		v := vC05Text("v", 1+vndChoice("len", 3))
		m, _ := regexp.MatchString(`a|b,c`, v)
		vAssert(vRuleViolated(Re, `re='a|b,c'`, v) == !m, "C05 re: alternation and comma inside the quotes")
	case 2:
		v := vC05Text("v", 1+vndChoice("len", 3))
		m, _ := regexp.MatchString(`^\'x$`, v)
		vAssert(vRuleViolated(Re, `re='^\'x$'`, v) == !m, "C05 re: escaped quote stays in the pattern")
	case 3:
		v := vC05Text("v", 1+vndChoice("len", 2))
		m, _ := regexp.MatchString(`^a$`, v)
		vAssert(vRuleViolated(Re, `re='^a$'|need a`, v) == !m, "C05 re: custom message does not change the pattern")
	case 4:
		v := vC05Text("v", 1+vndChoice("len", 2))
		vAssert(vRuleViolated(Re, `re='a(b'`, v), "C05 re: an invalid pattern is a violation, not a match")
	}
	vReach("end")
}

func H_C05_date_year()              { vC05Date(0) }
func H_C05_date_year2month()        { vC05Date(1) }
func H_C05_date_year2month_slash()  { vC05Date(2) }
func H_C05_date_year2month_quoted() { vC05Date(3) }
func H_C05_date_date()              { vC05Date(4) }
func H_C05_date_date_slash()        { vC05Date(5) }
func H_C05_date_date_quoted()       { vC05Date(6) }
func H_C05_date_date_empty()        { vC05Date(7) }
func H_C05_date_datetime()          { vC05Date(8) }
func H_C05_date_datetime_one()      { vC05Date(9) }
func H_C05_date_datetime_two()      { vC05Date(10) }
func H_C05_date_datetime_three()    { vC05Date(11) }
func H_C05_date_datetime_msg()      { vC05Date(12) }
func H_C05_date_date_comma()        { vC05Date(13) }
func H_C05_date_year2month_comma()  { vC05Date(14) }
func H_C05_date_date_comma_blank()  { vC05Date(15) }
func H_C05_date_date_two_chars()    { vC05Date(16) }
func H_C05_date_year2month_blank()  { vC05Date(17) }
func H_C05_date_date_dot_msg()      { vC05Date(18) }
func H_C05_date_year2month_cc_msg() { vC05Date(19) }

// in / unique on float32 values: compared by the canonical (32-bit) decimal rendering
func H_C05_in_float32() {
	x := []float32{0.1, 2.5, 0.3, 1e-7, 16777216}[vndChoice("x", 5)]
	vAssert(vRuleViolated(In, "in=(0.1/2.5/16777216)", x) == !(x == 0.1 || x == 2.5 || x == 16777216), "C05 in/float32: compared by canonical decimal rendering")
	vAssert(vRuleViolated(Unique, "unique", []float32{x, 0.1}) == (x == 0.1), "C05 unique/[]float32: compared by canonical decimal rendering")
	vReach("end")
}

// several re rules in one process: each is judged by its own pattern (no state carried between rules)
func H_C05_re_sequence() {
	pats := []string{`^a+b`, `^a+c`, `[01]+`, `[01]$`, `(a|b)$`, `(a|b)+`, `^it\'s`, `^it\'t`, `a(b`, `a(b`}
	i := vndChoice("first", len(pats))
	j := vndChoice("second", len(pats))
	v := vC05Text("v", 1+vndChoice("len", 3))
	for _, p := range []string{pats[i], pats[j], pats[i]} {
		m, err := regexp.MatchString(p, v)
		vAssert(vRuleViolated(Re, "re='"+p+"'", v) == !(err == nil && m), "C05 re sequence: each rule judged by its own pattern")
	}
	vReach("end")
}

// the same for the other rules with arguments: a second rule with different arguments is judged on its own
func H_C05_args_sequence() {
	v := vC05Text("v", 1+vndChoice("len", 2))
	a := vRuleViolated(In, "in=(a/b)", v)
	b := vRuleViolated(In, "in=(a/c)", v)
	vAssert(a == !(v == "a" || v == "b") && b == !(v == "a" || v == "c"), "C05 in sequence")
	p := vRuleViolated(Prefix, "prefix=ab", v)
	q := vRuleViolated(Prefix, "prefix=ac", v)
	vAssert(p == !strings.HasPrefix(v, "ab") && q == !strings.HasPrefix(v, "ac"), "C05 prefix sequence")
	vReach("end")
}

// unique on float slices / arrays: elements are compared by their canonical decimal rendering
// (NaN renders as NaN twice; 0 and -0 render differently)
func H_C05_unique_float() {
	negZero := math.Copysign(0, -1)
	vals := []float64{math.NaN(), 0, negZero, 1.5, -1.5, math.Inf(1), 1e21, 100}
	x, y := vals[vndChoice("x", len(vals))], vals[vndChoice("y", len(vals))]
	same := strconv.FormatFloat(x, 'f', -1, 64) == strconv.FormatFloat(y, 'f', -1, 64)
	switch vndChoice("carrier", 3) {
	case 0:
		vAssert(vRuleViolated(Unique, "unique", []float64{x, y}) == same, "C05 unique/[]float64: compared by canonical decimal rendering")
	case 1:
		vAssert(vRuleViolated(Unique, "unique", [3]float64{x, 7, y}) == same, "C05 unique/[3]float64: compared by canonical decimal rendering")
	case 2:
		same32 := strconv.FormatFloat(float64(float32(x)), 'f', -1, 32) == strconv.FormatFloat(float64(float32(y)), 'f', -1, 32)
		vAssert(vRuleViolated(Unique, "unique", []float32{float32(x), float32(y)}) == same32, "C05 unique/[]float32: compared by canonical decimal rendering")
	}
	vReach("end")
}

// datetime with every triple of separators from a small alphabet (separators that are each other's
// defaults included): the value is judged by the layout 2006<d>01<d>02<m>15<c>04<c>05
func H_C05_datetime_triples() {
	alpha := []string{"-", " ", ":", "/", "T", "", "."}
	d, m, c := alpha[vndChoice("d", len(alpha))], alpha[vndChoice("m", len(alpha))], alpha[vndChoice("c", len(alpha))]
	layout := "2006" + d + "01" + d + "02" + m + "15" + c + "04" + c + "05"
	rule := "datetime='" + d + "," + m + "," + c + "'"
	mk := func(d, m, c string) string { return "2024" + d + "02" + d + "29" + m + "10" + c + "05" + c + "59" }
	vals := []string{mk(d, m, c), mk("-", " ", ":"), mk(c, m, d), mk(m, d, c), mk(d, c, m)}
	v := vals[vndChoice("v", len(vals))]
	_, err := time.Parse(layout, v)
	vAssert(vRuleViolated(Datetime, rule, v) == (err != nil), "C05 datetime: three separators, judged by the documented layout")
	if vndBool("two") {
		layout2 := "2006" + d + "01" + d + "02" + m + "15:04:05"
		v2 := []string{mk(d, m, ":"), mk("-", " ", ":"), mk(m, d, ":")}[vndChoice("v2", 3)]
		_, err2 := time.Parse(layout2, v2)
		vAssert(vRuleViolated(Datetime, "datetime='"+d+","+m+"'", v2) == (err2 != nil), "C05 datetime: two separators, judged by the documented layout")
	}
	vReach("end")
}

// in / include with a custom message that itself contains brackets, slashes and quotes-free text
func H_C05_in_message_brackets() {
	v := []string{"low", "mid", "high", "high)", "hig", "see docs", "x"}[vndChoice("v", 7)]
	msg := []string{"pick one (see docs)", "one of (low/mid/high)", ")", "a/b"}[vndChoice("msg", 4)]
	want := !(v == "low" || v == "mid" || v == "high")
	vAssert(vRuleViolated(In, "in=(low/mid/high)|"+msg, v) == want, "C05 in: the option list ends at its own bracket, whatever the message contains")
	wantInc := !(strings.Contains(v, "ow") || strings.Contains(v, "igh"))
	vAssert(vRuleViolated(Include, "include=(ow/igh)|"+msg, v) == wantInc, "C05 include: the option list ends at its own bracket, whatever the message contains")
	vReach("end")
}

// ints on slices and arrays of numbers: "every value is matched" against the integer pattern, so an
// element whose decimal text is not a run of digits (a negative number, a fraction) violates the rule
func H_C05_ints_number_slices() {
	ints := []int{-128, -2, -1, 0, 1, 7, 127}
	a, b, c := ints[vndChoice("a", len(ints))], ints[vndChoice("b", len(ints))], ints[vndChoice("c", len(ints))]
	neg := a < 0 || b < 0 || c < 0
	switch vndChoice("kind", 8) {
	case 0:
		vAssert(vRuleViolated(Ints, "ints", []int{a, b, c}) == neg, "C05 ints: []int, every element must be a run of digits")
	case 1:
		vAssert(vRuleViolated(Ints, "ints", []int8{int8(a), int8(b)}) == (a < 0 || b < 0), "C05 ints: []int8")
	case 2:
		vAssert(vRuleViolated(Ints, "ints", [3]int64{int64(a), int64(b), int64(c)}) == neg, "C05 ints: [3]int64")
	case 3:
		vAssert(vRuleViolated(Ints, "ints", []int32{int32(c)}) == (c < 0), "C05 ints: []int32 of one element")
	case 4:
		vAssert(!vRuleViolated(Ints, "ints", []uint8{uint8(a), uint8(b)}), "C05 ints: unsigned elements are always runs of digits")
	case 5:
		fs := []float64{1, 1.5, -1, 0, 1e21, 0.25}
		f, g := fs[vndChoice("f", len(fs))], fs[vndChoice("g", len(fs))]
		bad := func(x float64) bool { return x == 1.5 || x == -1 || x == 0.25 }
		vAssert(vRuleViolated(Ints, "ints", []float64{f, g}) == (bad(f) || bad(g)), "C05 ints: []float64, whole non-negative values only")
	case 6:
		type vIntsS struct{ F []int64 }
		err := Struct(&vIntsS{[]int64{int64(a), int64(b)}}, NewRule().Set("F", "ints"))
		vAssert((err != nil) == (a < 0 || b < 0), "C05 ints: []int64 field through Struct")
	case 7:
		err := Var([]int{a, b, c}, "ints")
		vAssert((err != nil) == neg, "C05 ints: []int through Var")
	}
	vReach("end")
}
