#!/usr/bin/env python3
"""Generates harness/valid/zz_gen_shapes.go: a systematic cross product of field kinds x rule lists x
carriers for the walker properties (C02 order/once, C03 required/zero-skip, C04 descent, C13 totality).

Go types cannot be solver variables, so the *types* are a catalogue; this generator makes that catalogue a
cross product instead of a hand-picked list. For every generated struct type the field under test sits
between two ordinary string fields (rules r2 / r3), so that a walker which stops, skips or reorders around
the field is seen; nil-ness, lengths 0..2 and every leaf value are nondeterministic (symbolic); the rules
r1..r3 are uninterpreted. The comparison is the reference walker of walk_ref.go.

The output is committed; setup.sh regenerates it (byte-identical unless this file changed)."""
import os

OUT = os.path.join(os.path.dirname(os.path.abspath(__file__)), "harness", "valid", "zz_gen_shapes.go")

LEAF = "vGLeaf"

# ---- fill code per kind: f(lhs, name) -> list of Go statements -------------------------------------------
def scalar(expr):
    return lambda lhs, n: ["%s = %s" % (lhs, expr.replace("$N", '"%s"' % n))]

def leafval(n):
    return '%s{N: vStr("%s.N"), K: vndInt("%s.K")}' % (LEAF, n, n)

def choice(n, k, cases):
    """cases: list (index 1..) of statement lists; case 0 leaves the zero value"""
    out = ['switch vndChoice("%s.c", %d) {' % (n, k)]
    for i, st in enumerate(cases, 1):
        out.append("case %d:" % i)
        out += ["\t" + s for s in st]
    out.append("}")
    return out

KINDS = {}

def kind(name, gotype, fill, groups):
    KINDS[name] = dict(gotype=gotype, fill=fill, groups=set(groups.split()))

# scalars -------------------------------------------------------------------------------------------------
for nm, ty, ex in [
    ("string", "string", "vStr($N)"), ("bool", "bool", "vndBool($N)"),
    ("int", "int", "vndInt($N)"), ("int8", "int8", "vndInt8($N)"), ("int16", "int16", "vndInt16($N)"),
    ("int32", "int32", "vndInt32($N)"), ("int64", "int64", "vndInt64($N)"),
    ("uint", "uint", "vndUint($N)"), ("uint8", "uint8", "vndUint8($N)"), ("uint16", "uint16", "vndUint16($N)"),
    ("uint32", "uint32", "vndUint32($N)"), ("uint64", "uint64", "vndUint64($N)"),
    ("float32", "float32", "vndFloat32($N)"), ("float64", "float64", "vndFloat64($N)"),
    ("nstr", "vGStr", "vGStr(vStr($N))"), ("nint", "vGInt", "vGInt(vndInt32($N))"),
    ("dur", "time.Duration", "time.Duration(vndInt64($N))"), ("nbool", "vGBool", "vGBool(vndBool($N))"),
]:
    kind(nm, ty, scalar(ex), "scalar var mapval")

# pointers to scalars ---------------------------------------------------------------------------------------
def ptr_to(expr, ty):
    def f(lhs, n):
        return ['if vndBool("%s.set") {' % n, "\tpv := %s" % expr.replace("$N", '"%s"' % n), "\t%s = &pv" % lhs, "}"]
    return f

kind("pint", "*int", ptr_to("vndInt($N)", "int"), "ptrscalar var")
kind("pstring", "*string", ptr_to("vStr($N)", "string"), "ptrscalar var")
kind("pbool", "*bool", ptr_to("vndBool($N)", "bool"), "ptrscalar")
kind("pfloat64", "*float64", ptr_to("vndFloat64($N)", "float64"), "ptrscalar")
kind("ppint", "**int", lambda lhs, n: choice(n, 3, [
    ["var p *int", "%s = &p" % lhs],
    ['pv := vndInt("%s")' % n, "p := &pv", "%s = &p" % lhs]]), "ptrscalar")

# collections of scalars ------------------------------------------------------------------------------------
def slice_of(ty, elem):
    def f(lhs, n):
        e = lambda i: elem.replace("$N", '"%s%d"' % (n, i))
        return choice(n, 4, [["%s = %s{}" % (lhs, ty)], ["%s = %s{%s}" % (lhs, ty, e(0))],
                             ["%s = %s{%s, %s}" % (lhs, ty, e(0), e(1))]])
    return f

kind("sint", "[]int", slice_of("[]int", "vndInt($N)"), "coll var mapval")
kind("sstring", "[]string", slice_of("[]string", "vStr($N)"), "coll var mapval")
kind("sbyte", "[]byte", slice_of("[]byte", "vndByte($N)"), "coll")
kind("sfloat", "[]float64", slice_of("[]float64", "vGNoNaN(vndFloat64($N))"), "coll")
kind("siface", "[]interface{}", lambda lhs, n: choice(n, 4, [
    ["%s = []interface{}{}" % lhs], ["%s = []interface{}{nil}" % lhs],
    ['%s = []interface{}{vndInt("%s0"), vStr("%s1")}' % (lhs, n, n)]]), "coll")
kind("spint", "[]*int", lambda lhs, n: choice(n, 4, [
    ["%s = []*int{}" % lhs], ["%s = []*int{nil}" % lhs],
    ['pv := vndInt("%s0")' % n, "%s = []*int{&pv, nil}" % lhs]]), "coll")
kind("ssint", "[][]int", lambda lhs, n: choice(n, 4, [
    ["%s = [][]int{}" % lhs], ["%s = [][]int{nil}" % lhs],
    ['%s = [][]int{{vndInt("%s0")}, {}}' % (lhs, n)]]), "coll")
kind("a2string", "[2]string", lambda lhs, n: ['%s = [2]string{vStr("%s0"), vStr("%s1")}' % (lhs, n, n)], "coll var")
kind("a0string", "[0]string", lambda lhs, n: [], "coll var")
kind("a1int", "[1]int", lambda lhs, n: ['%s = [1]int{vndInt("%s0")}' % (lhs, n)], "coll var")

def map_of(ty, key, elem):
    def f(lhs, n):
        return choice(n, 3, [["%s = %s{}" % (lhs, ty)],
                             ["%s = %s{%s: %s}" % (lhs, ty, key, elem.replace("$N", '"%s0"' % n))]])
    return f

kind("msi", "map[string]int", map_of("map[string]int", '"k"', "vndInt($N)"), "coll var mapval")
kind("mss", "map[string]string", map_of("map[string]string", '"k"', "vStr($N)"), "coll var")
kind("mis", "map[int]string", map_of("map[int]string", "7", "vStr($N)"), "coll")
kind("mssl", "map[string][]int", map_of("map[string][]int", '"k"', "[]int{vndInt($N)}"), "coll")
kind("msif", "map[string]interface{}", map_of("map[string]interface{}", '"k"', "vndInt($N)"), "coll")

# interface{} ----------------------------------------------------------------------------------------------
kind("iface", "interface{}", lambda lhs, n: choice(n, 7, [
    ['%s = vndInt("%s")' % (lhs, n)], ['%s = vStr("%s")' % (lhs, n)], ["%s = %s" % (lhs, leafval(n))],
    ["v := %s" % leafval(n), "%s = &v" % lhs], ["var p *%s" % LEAF, "%s = p" % lhs],
    ['%s = []int{vndInt("%s")}' % (lhs, n)]]), "iface mapval")
kind("stringer", "fmt.Stringer", lambda lhs, n: choice(n, 3, [
    ['%s = vGStringer{S: vStr("%s")}' % (lhs, n)], ["var p *vGStringer", "%s = p" % lhs]]), "iface")
kind("err", "error", lambda lhs, n: choice(n, 2, [['%s = vGErr(vStr("%s"))' % (lhs, n)]]), "iface")

# func / chan ------------------------------------------------------------------------------------------------
kind("fn", "func()", lambda lhs, n: ['if vndBool("%s.set") {' % n, "\t%s = func() {}" % lhs, "}"], "odd")
kind("ch", "chan int", lambda lhs, n: ['if vndBool("%s.set") {' % n, "\t%s = make(chan int)" % lhs, "}"], "odd")

# nested objects --------------------------------------------------------------------------------------------
kind("obj", LEAF, lambda lhs, n: ["%s = %s" % (lhs, leafval(n))], "nested")
kind("pobj", "*" + LEAF, lambda lhs, n: ['if vndBool("%s.set") {' % n, "\tv := %s" % leafval(n), "\t%s = &v" % lhs, "}"], "nested")
kind("ppobj", "**" + LEAF, lambda lhs, n: choice(n, 3, [
    ["var p *%s" % LEAF, "%s = &p" % lhs], ["v := %s" % leafval(n), "p := &v", "%s = &p" % lhs]]), "nested")
kind("pppobj", "***" + LEAF, lambda lhs, n: choice(n, 4, [
    ["var p **%s" % LEAF, "%s = &p" % lhs], ["var p *%s" % LEAF, "q := &p", "%s = &q" % lhs],
    ["v := %s" % leafval(n), "p := &v", "q := &p", "%s = &q" % lhs]]), "nested")

def coll_obj(ty, mk):
    return lambda lhs, n: choice(n, len(mk(n)) + 1, [["%s = %s" % (lhs, e)] if isinstance(e, str) else e[:-1] + ["%s = %s" % (lhs, e[-1])] for e in mk(n)])

kind("sobj", "[]" + LEAF, coll_obj("[]" + LEAF, lambda n: [
    "[]%s{}" % LEAF, "[]%s{%s}" % (LEAF, leafval(n + "0")), "[]%s{%s, %s}" % (LEAF, leafval(n + "0"), leafval(n + "1"))]), "nested")
kind("spobj", "[]*" + LEAF, coll_obj("", lambda n: [
    "[]*%s{}" % LEAF, "[]*%s{nil}" % LEAF,
    ["v := %s" % leafval(n + "1"), "[]*%s{nil, &v}" % LEAF],
    ["v := %s" % leafval(n + "0"), "w := %s" % leafval(n + "1"), "[]*%s{&v, &w}" % LEAF]]), "nested")
kind("sppobj", "[]**" + LEAF, coll_obj("", lambda n: [
    "[]**%s{nil}" % LEAF,
    ["var z *%s" % LEAF, "v := %s" % leafval(n + "1"), "p := &v", "[]**%s{&z, &p}" % LEAF]]), "nested")
kind("a2obj", "[2]" + LEAF, lambda lhs, n: ["%s = [2]%s{%s, %s}" % (lhs, LEAF, leafval(n + "0"), leafval(n + "1"))], "nested")
kind("a1pobj", "[1]*" + LEAF, lambda lhs, n: ['if vndBool("%s.set") {' % n, "\tv := %s" % leafval(n + "0"), "\t%s = [1]*%s{&v}" % (lhs, LEAF), "}"], "nested")
kind("pa2obj", "*[2]" + LEAF, lambda lhs, n: ['if vndBool("%s.set") {' % n, "\tv := [2]%s{%s, %s}" % (LEAF, leafval(n + "0"), leafval(n + "1")), "\t%s = &v" % lhs, "}"], "nested")
kind("msobj", "map[string]" + LEAF, coll_obj("", lambda n: [
    "map[string]%s{}" % LEAF, "map[string]%s{\"k\": %s}" % (LEAF, leafval(n + "0"))]), "nested")
kind("mspobj", "map[string]*" + LEAF, coll_obj("", lambda n: [
    "map[string]*%s{}" % LEAF, "map[string]*%s{\"k\": nil}" % LEAF,
    ["v := %s" % leafval(n + "0"), "map[string]*%s{\"k\": &v}" % LEAF]]), "nested")
kind("miobj", "map[int]" + LEAF, coll_obj("", lambda n: ["map[int]%s{-3: %s}" % (LEAF, leafval(n + "0"))]), "nested")
kind("mbobj", "map[bool]*" + LEAF, coll_obj("", lambda n: [["v := %s" % leafval(n + "0"), "map[bool]*%s{true: &v}" % LEAF]]), "nested")
kind("mnobj", "map[vGStr]" + LEAF, coll_obj("", lambda n: ["map[vGStr]%s{\"nk\": %s}" % (LEAF, leafval(n + "0"))]), "nested")
kind("psobj", "*[]" + LEAF, lambda lhs, n: choice(n, 3, [
    ["v := []%s{}" % LEAF, "%s = &v" % lhs], ["v := []%s{%s}" % (LEAF, leafval(n + "0")), "%s = &v" % lhs]]), "nested")
kind("pmobj", "*map[string]" + LEAF, lambda lhs, n: choice(n, 3, [
    ["var v map[string]%s" % LEAF, "%s = &v" % lhs], ["v := map[string]%s{\"k\": %s}" % (LEAF, leafval(n + "0")), "%s = &v" % lhs]]), "nested")
# collections of collections of objects: the statement names "a slice, array or map of them" -- one level;
# deeper containers are in the catalogue for totality (C13) and for "nothing else is validated twice / out of order"
kind("ssobj", "[][]" + LEAF, coll_obj("", lambda n: ["[][]%s{{%s}}" % (LEAF, leafval(n + "0"))]), "nested2")
kind("smobj", "[]map[string]" + LEAF, coll_obj("", lambda n: ["[]map[string]%s{{\"k\": %s}}" % (LEAF, leafval(n + "0"))]), "nested2")
kind("msobjs", "map[string][]" + LEAF, coll_obj("", lambda n: ["map[string][]%s{\"k\": {%s}}" % (LEAF, leafval(n + "0"))]), "nested2")
kind("iobj", "interface{}", lambda lhs, n: choice(n, 4, [
    ["%s = %s" % (lhs, leafval(n))], ["v := %s" % leafval(n), "%s = &v" % lhs],
    ["%s = []%s{%s}" % (lhs, LEAF, leafval(n + "0"))]]), "nested2")

# time -------------------------------------------------------------------------------------------------------
kind("time", "time.Time", lambda lhs, n: ['if vndBool("%s.set") {' % n, "\t%s = time.Unix(5, 0)" % lhs, "}"], "time")
kind("ptime", "*time.Time", lambda lhs, n: ['if vndBool("%s.set") {' % n, "\tt := time.Unix(5, 0)", "\t%s = &t" % lhs, "}"], "time")
kind("stime", "[]time.Time", lambda lhs, n: choice(n, 3, [["%s = []time.Time{}" % lhs], ["%s = []time.Time{time.Unix(5, 0)}" % lhs]]), "time")

# ---- rule lists ------------------------------------------------------------------------------------------
RULES = {
    "r1": "r1",
    "req_r1": "required,r1",
    "r1_req": "r1,required",
    "req": "required",
    "reqmsg_r1": "required|need it,r1",
    "exist": "exist",
    "exist_r1": "exist,r1",
    "r1_exist": "r1,exist",
    "r1_nope_r2": "r1,nope,r2",
    "r1_r1": "r1,,r1",
}

# which (kind group, rule list) combinations go to which property family
PLAN = [
    # property, kind groups, rule lists, runner
    ("C02", "scalar ptrscalar coll iface odd time", ["r1_nope_r2", "r1_r1"], "vRunG"),
    ("C03", "scalar ptrscalar coll iface odd time nested nested2", ["req_r1", "r1_req", "reqmsg_r1"], "vRunG"),
    ("C04", "nested nested2 time iface", ["exist", "exist_r1", "r1_exist", "req", "r1"], "vRunGNested"),
]

HEADER = '''//go:build verif

// Code generated by /verif/gen_shapes.py. DO NOT EDIT.

package valid

import (
	"fmt"
	"time"
)

var _ = fmt.Sprint

type vGLeaf struct {
	N string `valid:"r1"`
	K int    `valid:"r2"`
	u string `valid:"r3"`
}

type (
	vGStr  string
	vGInt  int32
	vGBool bool
	vGErr  string
)

func (e vGErr) Error() string { return string(e) }

type vGStringer struct{ S string }

func (s vGStringer) String() string { return s.S }

// vGNoNaN: NaN elements are not equal to themselves under reflect.DeepEqual (the value comparison of the
// harness); NaN leaves are covered by the hand-written float harnesses
func vGNoNaN(f float64) float64 {
	vAssume(f == f)
	return f
}

func vRunG(tag string, src interface{}) {
	vULog = nil
	vRun(tag, src)
}

func vRunGNested(tag string, src interface{}) {
	vULog = nil
	vRunNested(tag, src, false)
}
'''


def camel(s):
    return "".join(p.capitalize() for p in s.split("_"))


def main():
    out = [HEADER]
    types_done = set()
    nh = 0
    for prop, groups, rules, runner in PLAN:
        gs = set(groups.split())
        for kname, k in KINDS.items():
            if not (k["groups"] & gs):
                continue
            for rname in rules:
                tname = "vG%s%s" % (camel(kname), camel(rname))
                if tname not in types_done:
                    types_done.add(tname)
                    out.append("type %s struct {\n\tA string `valid:\"r2\"`\n\tF %s `valid:\"%s\"`\n\tZ string `valid:\"r3\"`\n}\n" % (tname, k["gotype"], RULES[rname]))
                body = ['o := &%s{A: vStr("A"), Z: vStr("Z")}' % tname]
                body += k["fill"]("o.F", "F")
                body.append('%s("%s gen %s `%s`", o)' % (runner, prop, k["gotype"].replace('"', "'"), RULES[rname]))
                out.append("func H_%s_gen_%s_%s() {\n\t%s\n}\n" % (prop, kname, rname, "\n\t".join(body)))
                nh += 1
    # ---- Var carrier (C03): every kind of group var, with required before / after r1
    for kname, k in KINDS.items():
        if "var" not in k["groups"]:
            continue
        for rname, rl in (("req_r1", ['"required,r1"']), ("r1_req", ['"r1"', '"required"'])):
            body = ["var x %s" % k["gotype"]] + k["fill"]("x", "x")
            body.append('vRunVar("C03 gen Var(%s) %s", x, %s)' % (k["gotype"], rname, ", ".join(rl)))
            out.append("func H_C03_genvar_%s_%s() {\n\t%s\n}\n" % (kname, rname, "\n\t".join(body)))
            nh += 1
    # ---- Map carrier (C03): map[string]<kind>, present / missing key
    for kname, k in KINDS.items():
        if "mapval" not in k["groups"] or kname == "iface":
            continue
        body = ["var x %s" % k["gotype"]] + k["fill"]("x", "x")
        body += ['m := map[string]%s{}' % k["gotype"], 'if vndBool("present") {', '\tm["k"] = x', '}',
                 'if vndBool("other") {', '\tm["j"] = x', '}',
                 'vRunMap("C03 gen Map(map[string]%s)", m, NewRule().Set("k", "required,r1").Set("j", "r2"))' % k["gotype"]]
        out.append("func H_C03_genmap_%s() {\n\t%s\n}\n" % (kname, "\n\t".join(body)))
        nh += 1
    # ---- C20: the dumper over a cross product of element kinds x containers ------------------------------
    J_ELEMS = {
        "string": ("string", 'vJSONText($N, 2)'), "bool": ("bool", "vndBool($N)"),
        "int": ("int", "vPickInt($N)"), "int8": ("int8", "[]int8{0, -128, 127}[vndChoice($N, 3)]"),
        "int16": ("int16", "[]int16{0, -32768, 32767}[vndChoice($N, 3)]"),
        "int32": ("int32", "[]int32{0, -2147483648, 2147483647}[vndChoice($N, 3)]"),
        "int64": ("int64", "[]int64{0, -9223372036854775808, 9223372036854775807}[vndChoice($N, 3)]"),
        "uint": ("uint", "[]uint{0, 1, 18446744073709551615}[vndChoice($N, 3)]"),
        "uint16": ("uint16", "[]uint16{0, 1, 65535}[vndChoice($N, 3)]"),
        "uint32": ("uint32", "[]uint32{0, 1, 4294967295}[vndChoice($N, 3)]"),
        "uint64": ("uint64", "[]uint64{0, 9223372036854775808, 18446744073709551615}[vndChoice($N, 3)]"),
        "float64": ("float64", "[]float64{0, 1.5, -2.25, 1234.5678}[vndChoice($N, 4)]"),
        "float32": ("float32", "[]float32{0, 0.1, -3.75, 16777216}[vndChoice($N, 4)]"),
        "nstr": ("vGStr", "vGStr(vJSONText($N, 1))"), "nint": ("vGInt", "vGInt(vPickInt($N))"),
        "obj": ("vJLeaf", "vJLeaf{N: vJSONText($N+\".N\", 1), K: vPickInt($N+\".K\")}"),
        "empty": ("vJEmpty", "vJEmpty{}"),
    }
    def jx(ek, n):
        return J_ELEMS[ek][1].replace("$N", '"%s"' % n)
    def jt(ek):
        return J_ELEMS[ek][0]
    J_CONT = {}
    J_CONT["direct"] = (lambda t: t, lambda ek, lhs, n: ["%s = %s" % (lhs, jx(ek, n))], None)
    J_CONT["slice"] = (lambda t: "[]" + t, lambda ek, lhs, n: choice(n, 4, [
        ["%s = []%s{}" % (lhs, jt(ek))], ["%s = []%s{%s}" % (lhs, jt(ek), jx(ek, n + "0"))],
        ["%s = []%s{%s, %s}" % (lhs, jt(ek), jx(ek, n + "0"), jx(ek, n + "1"))]]), None)
    J_CONT["arr2"] = (lambda t: "[2]" + t, lambda ek, lhs, n: ["%s = [2]%s{%s, %s}" % (lhs, jt(ek), jx(ek, n + "0"), jx(ek, n + "1"))], None)
    J_CONT["arr0"] = (lambda t: "[0]" + t, lambda ek, lhs, n: [], None)
    J_CONT["mapstr"] = (lambda t: "map[string]" + t, lambda ek, lhs, n: choice(n, 3, [
        ["%s = map[string]%s{}" % (lhs, jt(ek))], ["%s = map[string]%s{vJSONText(\"%s.k\", 1): %s}" % (lhs, jt(ek), n, jx(ek, n + "0"))]]), None)
    J_CONT["mapint"] = (lambda t: "map[int]" + t, lambda ek, lhs, n: choice(n, 2, [
        ["%s = map[int]%s{vPickInt(\"%s.k\"): %s}" % (lhs, jt(ek), n, jx(ek, n + "0"))]]), None)
    J_CONT["mapu8"] = (lambda t: "map[uint8]" + t, lambda ek, lhs, n: choice(n, 2, [
        ["%s = map[uint8]%s{255: %s}" % (lhs, jt(ek), jx(ek, n + "0"))]]), None)
    J_CONT["mapnstr"] = (lambda t: "map[vGStr]" + t, lambda ek, lhs, n: choice(n, 2, [
        ["%s = map[vGStr]%s{\"nk\": %s}" % (lhs, jt(ek), jx(ek, n + "0"))]]), None)
    J_CONT["sslice"] = (lambda t: "[][]" + t, lambda ek, lhs, n: choice(n, 3, [
        ["%s = [][]%s{nil, {}}" % (lhs, jt(ek))], ["%s = [][]%s{{%s}, {%s, %s}}" % (lhs, jt(ek), jx(ek, n + "0"), jx(ek, n + "1"), jx(ek, n + "2"))]]), {"int", "string", "obj", "bool"})
    J_CONT["smap"] = (lambda t: "[]map[string]" + t, lambda ek, lhs, n: choice(n, 3, [
        ["%s = []map[string]%s{nil, {}}" % (lhs, jt(ek))], ["%s = []map[string]%s{{\"k\": %s}}" % (lhs, jt(ek), jx(ek, n + "0"))]]), {"int", "string", "obj", "bool"})
    J_CONT["mslice"] = (lambda t: "map[string][]" + t, lambda ek, lhs, n: choice(n, 3, [
        ["%s = map[string][]%s{\"k\": nil}" % (lhs, jt(ek))], ["%s = map[string][]%s{\"k\": {%s, %s}}" % (lhs, jt(ek), jx(ek, n + "0"), jx(ek, n + "1"))]]), {"int", "string", "obj", "bool"})
    J_CONT["mmap"] = (lambda t: "map[string]map[string]" + t, lambda ek, lhs, n: choice(n, 3, [
        ["%s = map[string]map[string]%s{\"k\": nil}" % (lhs, jt(ek))], ["%s = map[string]map[string]%s{\"k\": {\"j\": %s}}" % (lhs, jt(ek), jx(ek, n + "0"))]]), {"int", "string", "obj"})
    J_CONT["sarr"] = (lambda t: "[][2]" + t, lambda ek, lhs, n: choice(n, 2, [
        ["%s = [][2]%s{{%s, %s}}" % (lhs, jt(ek), jx(ek, n + "0"), jx(ek, n + "1"))]]), {"int", "string", "bool"})
    # pointers: structs only (pointers to non-struct values are outside the property's domain)
    def ptr_fill(ek, lhs, n):
        return ['if vndBool("%s.set") {' % n, "\tpv := %s" % jx(ek, n), "\t%s = &pv" % lhs, "}"]
    J_CONT["ptr"] = (lambda t: "*" + t, ptr_fill, {"obj", "empty"})
    J_CONT["pptr"] = (lambda t: "**" + t, lambda ek, lhs, n: choice(n, 3, [
        ["var p *%s" % jt(ek), "%s = &p" % lhs], ["pv := %s" % jx(ek, n), "p := &pv", "%s = &p" % lhs]]), {"obj", "empty"})
    J_CONT["sptr"] = (lambda t: "[]*" + t, lambda ek, lhs, n: choice(n, 3, [
        ["%s = []*%s{nil}" % (lhs, jt(ek))], ["pv := %s" % jx(ek, n + "0"), "%s = []*%s{&pv, nil}" % (lhs, jt(ek))]]), {"obj", "empty"})
    J_CONT["mptr"] = (lambda t: "map[string]*" + t, lambda ek, lhs, n: choice(n, 3, [
        ["%s = map[string]*%s{\"k\": nil}" % (lhs, jt(ek))], ["pv := %s" % jx(ek, n + "0"), "%s = map[string]*%s{\"k\": &pv}" % (lhs, jt(ek))]]), {"obj", "empty"})
    J_CONT["a2ptr"] = (lambda t: "[2]*" + t, lambda ek, lhs, n: choice(n, 2, [
        ["pv := %s" % jx(ek, n + "0"), "%s = [2]*%s{nil, &pv}" % (lhs, jt(ek))]]), {"obj"})
    nj = 0
    for cname, (tyf, fillf, only) in J_CONT.items():
        for ek in J_ELEMS:
            if only is not None and ek not in only:
                continue
            if ek == "uint8" or (cname in ("slice", "arr2", "arr0", "sslice") and ek == "uint8"):
                continue
            # three positions: alone, between two exported fields, after an unexported field and before the end
            for pos, decl, init in (
                ("mid", "\tA string\n\tF %s\n\tZ int\n", 'A: vJSONText("A", 1), Z: vPickInt("Z")'),
                ("alone", "\tF %s\n", ""),
                ("hid", "\ta int\n\tF %s\n\tz string\n", 'a: 1, z: "z"'),
            ):
                if pos != "mid" and cname in ("mapu8", "mapnstr", "sarr", "a2ptr", "arr0", "mmap"):
                    continue
                tname = "vGJ%s%s%s" % (camel(cname), camel(ek), camel(pos))
                out.append("type %s struct {\n%s}\n" % (tname, decl % tyf(jt(ek))))
                body = ["o := &%s{%s}" % (tname, init)] + fillf(ek, "o.F", "F")
                body.append('vC20Check("gen %s %s", o)' % (tyf(jt(ek)).replace('"', "'"), pos))
                out.append("func H_C20_gen_%s_%s_%s() {\n\t%s\n}\n" % (cname, ek, pos, "\n\t".join(body)))
                nj += 1
    nh += nj
    # ---- C13: every kind as the top-level input of every entry point (no panic) ----------------------------
    for kname, k in KINDS.items():
        if kname == "dur":
            continue  # rendering a symbolic time.Duration runs Duration.String from source: out of reach, and not a shape question
        body = ["var x %s" % k["gotype"]] + k["fill"]("x", "x")
        body += ['rm := NewRule().Set("k", "required,phone").Set("j,N", "exist,to=1~2,nope")',
                 'switch vndChoice("entry", 6) {',
                 'case 0:', '\t_ = Struct(x)', 'case 1:', '\t_ = Struct(&x, rm)',
                 'case 2:', '\t_ = Var(x, "required,to=1~2,exist,nope,phone")',
                 'case 3:', '\t_ = Map(x, rm)', 'case 4:', '\t_ = Map(&x, rm)',
                 'case 5:', '\t_ = Url(x, rm)', '}', 'vReach("end")']
        out.append("func H_C13_gen_%s() {\n\t%s\n}\n" % (kname, "\n\t".join(body)))
        nh += 1
    src = "\n".join(out)
    old = open(OUT).read() if os.path.exists(OUT) else None
    if old != src:
        open(OUT, "w").write(src)
    print("gen_shapes: %d harnesses, %d struct types" % (nh, len(types_done)))


if __name__ == "__main__":
    main()
