package main

// Harness runtime API (vnd*, vAssume, vAssert, ...) as seen by the executor.
// The same functions have native bodies in harness/*/zz_verif_rt.go, used
// when a counterexample is replayed against the real build.

import (
	"encoding/hex"
	"fmt"
	"go/types"
	"math"
	"os"
	"strconv"
	"strings"
)

type inputRec struct {
	name  string
	kind  string // "int","uint","bool","f32","f64","bytes","const"
	terms []*Term
	konst string
}

type Event struct {
	Kind string
	Args []Value
}

func (in *Interp) event(kind string, args ...Value) {
	in.events = append(in.events, Event{Kind: kind, Args: args})
}

func (in *Interp) addInput(r inputRec) {
	if _, dup := in.inputIdx[r.name]; dup {
		panic(engineErr("duplicate nondet input name " + r.name))
	}
	in.inputIdx[r.name] = len(in.inputs)
	in.inputs = append(in.inputs, r)
}

func (in *Interp) renderInputs(m Model) map[string]string {
	out := map[string]string{}
	for _, r := range in.inputs {
		switch r.kind {
		case "const":
			out[r.name] = r.konst
		case "int":
			v, _ := m.Eval(r.terms[0])
			out[r.name] = strconv.FormatInt(sext(r.terms[0].Sort.W, v.U), 10)
		case "uint":
			v, _ := m.Eval(r.terms[0])
			out[r.name] = strconv.FormatUint(v.U, 10)
		case "bool":
			v, _ := m.Eval(r.terms[0])
			out[r.name] = strconv.FormatBool(v.U != 0)
		case "f64":
			v, ok := m[r.terms[0].Name]
			_ = ok
			out[r.name] = fmt.Sprintf("f64:%016x", math.Float64bits(v.F))
		case "f32":
			v := m[r.terms[0].Name]
			out[r.name] = fmt.Sprintf("f32:%08x", math.Float32bits(float32(v.F)))
		case "bytes":
			b := make([]byte, len(r.terms))
			for i, t := range r.terms {
				v, _ := m.Eval(t)
				b[i] = byte(v.U)
			}
			out[r.name] = "hex:" + hex.EncodeToString(b)
		}
	}
	return out
}

// realisableModel returns a model of the path condition whose stub results agree with the real
// functions on the model's own inputs; ok=false if the path condition turns out infeasible.
func (in *Interp) realisableModel() (Model, bool) {
	e := in.ex
	for round := 0; round < 64; round++ {
		m := e.ensureModel()
		if m != nil {
			// self-check: the model must satisfy every conjunct of the path condition
			for _, c := range e.pc {
				if ok, known := m.EvalBool(c); known && !ok {
					e.StaleModels++
					if os.Getenv("GOSYM_DEBUG_MODEL") != "" {
						fmt.Fprintf(os.Stderr, "STALE MODEL in %s: pc conjunct false under the cached model\n", in.harness)
					}
					e.modelOK = false
					m = e.ensureModel()
					break
				}
			}
		}
		if m == nil {
			res, _ := e.solver.Check(nil, false)
			return nil, res != "unsat"
		}
		facts := in.refineStubs(m)
		if len(facts) == 0 {
			return m, true
		}
		for _, f := range facts {
			e.assumeSoft(f)
		}
		e.StubRefinements += len(facts)
		e.modelOK = false
	}
	e.Inconclusive = append(e.Inconclusive, "counterexample rests on stub results the real function does not produce (64 refinements exhausted) in "+in.harness)
	panic(pathEnd{"stub-unrealisable"})
}

func (in *Interp) recordFinding(kind, label, detail string) {
	m, feasible := in.realisableModel()
	if !feasible {
		panic(pathEnd{"infeasible"})
	}
	f := Finding{Harness: in.harness, Kind: kind, Label: label, Detail: detail, Choices: in.ex.trail(), PathCond: in.ex.pcString(), Threads: in.th != nil}
	if m != nil {
		f.Values = in.renderInputs(m)
	} else {
		f.Values = map[string]string{"!nomodel": "1"}
	}
	// dedup per (harness, kind, label): keep at most 3
	n := 0
	for _, g := range in.ex.Findings {
		if g.Harness == f.Harness && g.Kind == f.Kind && g.Label == f.Label {
			n++
		}
	}
	if n < 3 {
		in.ex.Findings = append(in.ex.Findings, f)
	}
}

// vAssert: obligation pc => c.
func (in *Interp) vAssert(c Bool, label string) {
	e := in.ex
	e.Obligations++
	if c.S == nil {
		if c.C {
			e.Discharged++
			e.Trivial++
			return
		}
		in.recordFinding("assert", label, "assertion is false on this path")
		panic(pathEnd{"assert-failed"})
	}
	neg := Not(c.S)
	{
		res, m := e.check(neg)
		for round := 0; res == "sat" && m != nil && round < 64; round++ {
			facts := in.refineStubs(m)
			if len(facts) == 0 {
				break
			}
			for _, f := range facts {
				e.assumeSoft(f)
			}
			e.StubRefinements += len(facts)
			res, m = e.check(neg)
		}
		switch res {
		case "unsat":
			e.Discharged++
			return
		case "sat":
			saved, savedOK := e.model, e.modelOK
			e.model, e.modelOK = m, m != nil
			in.recordFinding("assert", label, "")
			e.model, e.modelOK = saved, savedOK
		default:
			e.Inconclusive = append(e.Inconclusive, "solver unknown on assertion "+label+" in "+in.harness)
			return
		}
	}
	// continue the path under the assumption that the assertion holds
	e.assume(c.S)
}

func (in *Interp) freshName(name string) string { return name }

func init() {
	reg := func(name string, f intrinsicFn) { harnessAPI[name] = f }
	mkIntFn := func(k types.BasicKind) intrinsicFn {
		return func(in *Interp, fr *frame, a []Value) Value {
			name := strArg(a[0]).mustConcrete()
			t := Var(name, BV(kindWidth(k)))
			kind := "uint"
			if kindSigned(k) {
				kind = "int"
			}
			in.addInput(inputRec{name: name, kind: kind, terms: []*Term{t}})
			return Int{K: k, S: t}
		}
	}
	reg("vndInt", mkIntFn(types.Int))
	reg("vndInt8", mkIntFn(types.Int8))
	reg("vndInt16", mkIntFn(types.Int16))
	reg("vndInt32", mkIntFn(types.Int32))
	reg("vndInt64", mkIntFn(types.Int64))
	reg("vndUint", mkIntFn(types.Uint))
	reg("vndUint8", mkIntFn(types.Uint8))
	reg("vndUint16", mkIntFn(types.Uint16))
	reg("vndUint32", mkIntFn(types.Uint32))
	reg("vndUint64", mkIntFn(types.Uint64))
	reg("vndByte", mkIntFn(types.Uint8))
	reg("vndBool", func(in *Interp, fr *frame, a []Value) Value {
		name := strArg(a[0]).mustConcrete()
		t := Var(name, BoolSort)
		in.addInput(inputRec{name: name, kind: "bool", terms: []*Term{t}})
		return Bool{S: t}
	})
	reg("vndFloat64", func(in *Interp, fr *frame, a []Value) Value {
		name := strArg(a[0]).mustConcrete()
		t := Var(name, FP64)
		in.addInput(inputRec{name: name, kind: "f64", terms: []*Term{t}})
		return Float{K: types.Float64, S: t}
	})
	reg("vndFloat32", func(in *Interp, fr *frame, a []Value) Value {
		name := strArg(a[0]).mustConcrete()
		t := Var(name, FP32)
		in.addInput(inputRec{name: name, kind: "f32", terms: []*Term{t}})
		return Float{K: types.Float32, S: t}
	})
	mkBytes := func(in *Interp, name string, n int) Str {
		ts := make([]*Term, n)
		bs := make([]SByte, n)
		for i := 0; i < n; i++ {
			ts[i] = Var(fmt.Sprintf("%s[%d]", name, i), BV8)
			bs[i] = SByte{S: ts[i]}
		}
		in.addInput(inputRec{name: name, kind: "bytes", terms: ts})
		return strOfBytes(bs)
	}
	reg("vndString", func(in *Interp, fr *frame, a []Value) Value {
		name := strArg(a[0]).mustConcrete()
		max := asInt(a[1])
		n := in.ex.choose("vndString:"+name, make([]*Term, max+1))
		return mkBytes(in, name, n)
	})
	reg("vndStringN", func(in *Interp, fr *frame, a []Value) Value {
		return mkBytes(in, strArg(a[0]).mustConcrete(), asInt(a[1]))
	})
	reg("vndLen", func(in *Interp, fr *frame, a []Value) Value {
		name := strArg(a[0]).mustConcrete()
		n := in.ex.choose("vndLen:"+name, make([]*Term, asInt(a[1])+1))
		in.addInput(inputRec{name: name, kind: "const", konst: strconv.Itoa(n)})
		return goInt(n)
	})
	reg("vndChoice", func(in *Interp, fr *frame, a []Value) Value {
		name := strArg(a[0]).mustConcrete()
		n := in.ex.choose("vndChoice:"+name, make([]*Term, asInt(a[1])))
		in.addInput(inputRec{name: name, kind: "const", konst: strconv.Itoa(n)})
		return goInt(n)
	})
	reg("vAssume", func(in *Interp, fr *frame, a []Value) Value {
		in.ex.assume(a[0].(Bool).Term())
		return nil
	})
	reg("vAssert", func(in *Interp, fr *frame, a []Value) Value {
		in.vAssert(a[0].(Bool), strArg(a[1]).mustConcrete())
		return nil
	})
	reg("vReach", func(in *Interp, fr *frame, a []Value) Value {
		in.ex.Reached[in.harness+":"+strArg(a[0]).mustConcrete()]++
		return nil
	})
	reg("vAnd", func(in *Interp, fr *frame, a []Value) Value {
		return symBool(And(a[0].(Bool).Term(), a[1].(Bool).Term()))
	})
	reg("vOr", func(in *Interp, fr *frame, a []Value) Value {
		return symBool(Or(a[0].(Bool).Term(), a[1].(Bool).Term()))
	})
	reg("vNot", func(in *Interp, fr *frame, a []Value) Value { return symBool(Not(a[0].(Bool).Term())) })
	reg("vImplies", func(in *Interp, fr *frame, a []Value) Value {
		return symBool(Implies(a[0].(Bool).Term(), a[1].(Bool).Term()))
	})
	reg("vIteInt", func(in *Interp, fr *frame, a []Value) Value {
		c := a[0].(Bool)
		x, y := a[1].(Int), a[2].(Int)
		if c.S == nil {
			if c.C {
				return x
			}
			return y
		}
		return symInt(x.K, Ite(c.S, x.Term(), y.Term()))
	})
	reg("vItoa", func(in *Interp, fr *frame, a []Value) Value { return in.itoa(a[0].(Int)) })
	reg("vValidUTF8", func(in *Interp, fr *frame, a []Value) Value {
		s := strArg(a[0])
		return symBool(validUTF8Term(s.bytes()))
	})
	reg("vConcretize", func(in *Interp, fr *frame, a []Value) Value {
		// vConcretize(x, lo, hi): fork x over [lo,hi]
		v, ok := in.concInt(a[0].(Int), asInt(a[1]), asInt(a[2]))
		if !ok {
			panic(pathEnd{"assume-false"})
		}
		return mkInt(a[0].(Int).K, int64(v))
	})
	reg("vNoPanic", func(in *Interp, fr *frame, a []Value) Value {
		ok, _ := in.callCatch(fr, a[0])
		return mkBool(ok)
	})
	reg("vPanicMsg", func(in *Interp, fr *frame, a []Value) Value {
		_, msg := in.callCatch(fr, a[0])
		return mkStr(msg)
	})
	reg("vSummarise", func(in *Interp, fr *frame, a []Value) Value {
		in.summar[strArg(a[0]).mustConcrete()] = true
		return nil
	})
	reg("vTrace", func(in *Interp, fr *frame, a []Value) Value {
		in.trace = a[0].(Bool).C
		return nil
	})
	reg("vPoolMode", func(in *Interp, fr *frame, a []Value) Value {
		in.poolMode = strArg(a[0]).mustConcrete()
		return nil
	})
	reg("vFloatCmpInt", func(in *Interp, fr *frame, a []Value) Value {
		// vFloatCmpInt(f float64, n int) int: exact mathematical comparison (-1,0,1); NaN => 2.
		// Requires |n| <= 2^53 (then float64(n) is exact and the float64 comparison is the
		// mathematical one); the requirement is enforced as an assumption here.
		f := a[0].(Float)
		n := a[1].(Int)
		lim := uint64(1) << 53
		in.ex.assume(And(BVSle(BVC(64, -lim), n.Term()), BVSle(n.Term(), BVC(64, lim))))
		ft := f.Term()
		nt := FPFromBV(64, n.Term(), true)
		lt := FPLt(ft, nt)
		eq := FPEq(ft, nt)
		nan := FPIsNaN(ft)
		return symInt(types.Int, Ite(nan, BVC(64, 2), Ite(lt, BVC(64, ^uint64(0)), Ite(eq, BVC(64, 0), BVC(64, 1)))))
	})
	reg("vNativeStress", func(in *Interp, fr *frame, a []Value) Value { return nil })
	reg("vSameJSON", func(in *Interp, fr *frame, a []Value) Value { return in.strEq(strArg(a[0]), strArg(a[1])) })
	reg("vIsNaN", func(in *Interp, fr *frame, a []Value) Value { return symBool(FPIsNaN(a[0].(Float).Term())) })
	reg("vIsInf", func(in *Interp, fr *frame, a []Value) Value { return symBool(FPIsInf(a[0].(Float).Term())) })
}

func FPToFP128(a *Term) *Term {
	return mk("fp.to_fp", FP128, a)
}

var harnessAPI = map[string]intrinsicFn{}

// callCatch runs a func value; ok=false if it ended in a target panic.
func (in *Interp) callCatch(fr *frame, fn Value) (ok bool, msg string) {
	savedDepth := in.depth
	defer func() {
		if r := recover(); r != nil {
			tp, is := r.(targetPanic)
			if !is {
				panic(r)
			}
			in.depth = savedDepth
			ok = false
			msg = in.panicText(fr, tp)
			in.lastPanic = &tp
		}
	}()
	in.call(fr, 0, fn, nil)
	return true, ""
}

func (in *Interp) panicText(fr *frame, tp targetPanic) string {
	s := tp.kind
	if itf, ok := tp.v.(Iface); ok && itf.T != nil {
		func() {
			defer func() { recover() }()
			if types.Implements(itf.T, errorIface) {
				s += ": " + in.errorText(fr, itf).Debug()
			} else if str, isS := itf.V.(Str); isS {
				s += ": " + str.Debug()
			}
		}()
	}
	if tp.pos != "" {
		s += " @" + tp.pos
	}
	return strings.TrimSpace(s)
}
