package main

import (
	"encoding/json"
	"flag"
	"fmt"
	"go/ast"
	"go/types"
	"os"
	"path/filepath"
	"regexp"
	"runtime/debug"
	"runtime/pprof"
	"sort"
	"strings"
	"time"

	"golang.org/x/tools/go/packages"
	"golang.org/x/tools/go/ssa"
	"golang.org/x/tools/go/ssa/ssautil"
)

const repoMod = "gitee.com/xuesongtao/protoc-go-valid"

type World struct {
	prog  *ssa.Program
	pkgs  map[string]*ssa.Package // by import path
	ppkgs map[string]*packages.Package
	repo  map[*ssa.Package]bool
}

func isRepoPath(p string) bool { return p == repoMod || strings.HasPrefix(p, repoMod+"/") }

func loadWorld(repoDir string, patterns []string, overlayDir string, tests bool) (*World, error) {
	overlay := map[string][]byte{}
	if overlayDir != "" {
		// overlayDir/<pkgdir>/*.go -> repoDir/<pkgdir>/zz_verif_<name>
		err := filepath.Walk(overlayDir, func(path string, info os.FileInfo, err error) error {
			if err != nil || info.IsDir() || !strings.HasSuffix(path, ".go") {
				return err
			}
			rel, _ := filepath.Rel(overlayDir, path)
			// harness files the driver found not to compile against this tree (white-box files after an
			// internal rename) are left out: VERIF_SKIPFILES=<pkgdir>/<file.go>,...
			for _, skip := range strings.Split(os.Getenv("VERIF_SKIPFILES"), ",") {
				if skip != "" && skip == filepath.ToSlash(rel) {
					return nil
				}
			}
			dir := filepath.Dir(rel)
			if dir == "root" {
				dir = "."
			}
			dst := filepath.Join(repoDir, dir, "zz_verif_"+filepath.Base(rel))
			b, err := os.ReadFile(path)
			if err != nil {
				return err
			}
			overlay[dst] = b
			return nil
		})
		if err != nil {
			return nil, err
		}
	}
	cfg := &packages.Config{
		Mode:       packages.LoadAllSyntax,
		Dir:        repoDir,
		Tests:      tests,
		Overlay:    overlay,
		BuildFlags: []string{"-tags=verif"},
		Env:        append(os.Environ(), "GOFLAGS=-mod=mod", "GOPROXY=off", "GOSUMDB=off", "GOTOOLCHAIN=local"),
	}
	pkgs, err := packages.Load(cfg, patterns...)
	if err != nil {
		return nil, err
	}
	nerr := 0
	packages.Visit(pkgs, nil, func(p *packages.Package) {
		for _, e := range p.Errors {
			if isRepoPath(p.PkgPath) {
				fmt.Fprintln(os.Stderr, "LOAD ERROR:", e)
				nerr++
			}
		}
	})
	if nerr > 0 {
		return nil, fmt.Errorf("%d load errors", nerr)
	}
	prog, _ := ssautil.AllPackages(pkgs, ssa.InstantiateGenerics|ssa.SanityCheckFunctions*0)
	prog.Build()
	w := &World{prog: prog, pkgs: map[string]*ssa.Package{}, ppkgs: map[string]*packages.Package{}, repo: map[*ssa.Package]bool{}}
	for _, p := range pkgs {
		sp := prog.Package(p.Types)
		if sp == nil {
			continue
		}
		key := p.PkgPath
		if strings.HasSuffix(p.ID, ".test]") && !strings.HasSuffix(p.PkgPath, "_test") {
			key = p.PkgPath + "#test"
		}
		if strings.HasSuffix(p.ID, ".test") {
			continue
		}
		w.pkgs[key] = sp
		w.ppkgs[key] = p
	}
	for _, sp := range prog.AllPackages() {
		if isRepoPath(sp.Pkg.Path()) {
			w.repo[sp] = true
		}
	}
	// markers
	if rp := prog.ImportedPackage("reflect"); rp != nil {
		rtypeMarker = types.NewPointer(rp.Type("rtype").Type())
	} else {
		rtypeMarker = types.NewPointer(types.NewNamed(types.NewTypeName(0, nil, "rtype", nil), types.NewStruct(nil, nil), nil))
	}
	fileInfoMarker = types.NewNamed(types.NewTypeName(0, nil, "fakeFileInfo", nil), types.NewStruct(nil, nil), nil)
	return w, nil
}

type Stats struct {
	funcs  map[string]int
	stubs  map[string]int
	instrs int64
}

func (w *World) newInterp(ex *Explorer, st *Stats) *Interp {
	in := &Interp{
		prog: w.prog, globals: map[*ssa.Global]*Value{}, ex: ex,
		maxSteps: 3000000,
		pools:    map[*Value]*poolState{}, onces: map[*Value]bool{}, posTerms: map[*Term]ropePos{},
		inputIdx: map[string]int{}, summar: map[string]bool{}, ufCalls: map[string][]ufCall{},
		funcsEntered: st.funcs, stubsUsed: st.stubs, world: w, poolMode: "lifo",
		initialised: map[*ssa.Package]bool{},
	}
	return in
}

// initRepo runs the package initialisers of the repo packages reachable from pkg.
func (in *Interp) initPackage(p *ssa.Package) {
	if in.initialised[p] {
		return
	}
	in.initialised[p] = true
	// dependencies first (repo packages only)
	for _, imp := range p.Pkg.Imports() {
		if sp := in.prog.Package(imp); sp != nil && in.world.repo[sp] {
			in.initPackage(sp)
		}
	}
	for _, m := range p.Members {
		if g, ok := m.(*ssa.Global); ok {
			v := zero(deref(g.Type()))
			in.globals[g] = &v
		}
	}
	if strings.HasSuffix(p.Pkg.Path(), "/log") {
		return // logging package: bodies are stubbed out
	}
	in.callSSA(nil, 0, p.Func("init"), nil, nil)
}

type RunResult struct {
	Harness      string         `json:"harness"`
	Paths        int            `json:"paths"`
	PathEnds     map[string]int `json:"path_ends"`
	Obligations  int            `json:"obligations"`
	Discharged   int            `json:"discharged"`
	Trivial      int            `json:"trivial"`
	Branches     int            `json:"branches"`
	Queries      int            `json:"queries"`
	SolverMs     int64          `json:"solver_ms"`
	WallMs       int64          `json:"wall_ms"`
	Findings     []Finding      `json:"findings"`
	Inconclusive []string       `json:"inconclusive"`
	Reached      map[string]int `json:"reached"`
	Instrs       int64          `json:"instrs"`
	Sample       *Finding       `json:"sample,omitempty"`
	Samples      []Finding      `json:"samples,omitempty"`
}

// runHarness explores all paths of one harness function.
func (w *World) runHarness(pkg *ssa.Package, name string, solver *Solver, st *Stats, maxPaths int, deadline time.Time) *RunResult {
	fn := pkg.Func(name)
	res := &RunResult{Harness: name}
	if fn == nil {
		res.Inconclusive = append(res.Inconclusive, "no such harness function")
		return res
	}
	ex := NewExplorer(solver)
	q0, t0 := solver.Queries, solver.Time
	start := time.Now()
	first := true
	for first || ex.next() {
		first = false
		if ex.Paths >= maxPaths {
			ex.Inconclusive = append(ex.Inconclusive, fmt.Sprintf("path limit %d reached", maxPaths))
			break
		}
		if time.Now().After(deadline) {
			ex.Inconclusive = append(ex.Inconclusive, "time limit reached")
			break
		}
		ex.beginRun()
		ex.Paths++
		in := w.newInterp(ex, st)
		in.harness = name
		end := in.runPath(pkg, fn)
		ex.PathsEnded[end]++
		st.instrs += in.instrCount
		if end == "ok" && len(in.inputs) > 0 && (res.Sample == nil || (ex.Paths&(ex.Paths-1)) == 0) && len(res.Samples) < 8 {
			// sample paths (the 1st, 2nd, 4th, 8th ... explored): their models are replayed natively by the
			// driver and must pass there too (conformance of the encoding on passing paths)
			func() {
				defer func() {
					if r := recover(); r != nil {
						if _, isEnd := r.(pathEnd); !isEnd {
							panic(r)
						}
						// no realisable model within the refinement budget: this path is simply not sampled
						if n := len(ex.Inconclusive); n > 0 && strings.HasPrefix(ex.Inconclusive[n-1], "counterexample rests on stub results") {
							ex.Inconclusive = ex.Inconclusive[:n-1]
						}
					}
				}()
				if m, feasible := in.realisableModel(); feasible && m != nil {
					f := Finding{Harness: name, Kind: "sample-path", Values: in.renderInputs(m), PathCond: ex.pcString(), Threads: in.th != nil}
					if res.Sample == nil {
						res.Sample = &f
					}
					res.Samples = append(res.Samples, f)
				}
			}()
		}
	}
	res.Paths = ex.Paths
	res.PathEnds = ex.PathsEnded
	res.Obligations = ex.Obligations
	res.Discharged = ex.Discharged
	res.Trivial = ex.Trivial
	res.Branches = ex.Branches
	res.Queries = solver.Queries - q0
	res.SolverMs = (solver.Time - t0).Milliseconds()
	res.WallMs = time.Since(start).Milliseconds()
	res.Findings = ex.Findings
	res.Inconclusive = dedupStrings(ex.Inconclusive)
	res.Reached = ex.Reached
	res.Instrs = st.instrs
	return res
}

func dedupStrings(ss []string) []string {
	seen := map[string]bool{}
	var out []string
	for _, s := range ss {
		if !seen[s] {
			seen[s] = true
			out = append(out, s)
		}
	}
	return out
}

// runPath executes one path; returns how it ended.
func (in *Interp) runPath(pkg *ssa.Package, fn *ssa.Function) (end string) {
	defer func() {
		if in.th != nil {
			in.th.shutdown() // goroutines the program started and never joined
		}
	}()
	defer func() {
		if r := recover(); r != nil {
			switch x := r.(type) {
			case pathEnd:
				end = x.reason
				if strings.HasPrefix(x.reason, "unwind") {
					in.ex.Inconclusive = append(in.ex.Inconclusive, x.reason)
				}
			case targetPanic:
				// uncaught panic escaping the harness
				msg := in.panicText(nil, x)
				in.recordFinding("panic", "uncaught-panic", msg)
				end = "panic"
			case engineErr:
				in.ex.Inconclusive = append(in.ex.Inconclusive, "engine: "+string(x)+" @"+in.posStr(in.curPos))
				end = "engine-error"
			default:
				in.ex.Inconclusive = append(in.ex.Inconclusive, fmt.Sprintf("engine crash: %v @%s\n%s", r, in.posStr(in.curPos), trimStack(debug.Stack())))
				end = "engine-crash"
			}
		}
	}()
	in.initPackage(pkg)
	in.callSSA(nil, 0, fn, nil, nil)
	return "ok"
}

func trimStack(b []byte) string {
	lines := strings.Split(string(b), "\n")
	var out []string
	for _, l := range lines {
		if strings.Contains(l, "gosym") || strings.Contains(l, "main.") {
			out = append(out, strings.TrimSpace(l))
		}
		if len(out) > 14 {
			break
		}
	}
	return strings.Join(out, " | ")
}

func main() {
	if len(os.Args) < 2 {
		fmt.Fprintln(os.Stderr, "usage: gosym selftest|run|list ...")
		os.Exit(2)
	}
	switch os.Args[1] {
	case "selftest":
		os.Exit(cmdSelftest(os.Args[2:]))
	case "run":
		os.Exit(cmdRun(os.Args[2:]))
	case "list":
		os.Exit(cmdList(os.Args[2:]))
	}
	fmt.Fprintln(os.Stderr, "unknown command")
	os.Exit(2)
}

func cmdList(args []string) int {
	fs := flag.NewFlagSet("list", flag.ExitOnError)
	repo := fs.String("repo", "/repo", "")
	overlay := fs.String("harness", "/verif/harness", "")
	pkgPat := fs.String("pkg", "./valid", "")
	fs.Parse(args)
	w, err := loadWorld(*repo, []string{*pkgPat}, *overlay, false)
	if err != nil {
		fmt.Fprintln(os.Stderr, err)
		return 2
	}
	for _, n := range w.harnessNames(*pkgPat, ".*") {
		fmt.Println(n)
	}
	return 0
}

func (w *World) mainPkg(pat string) *ssa.Package {
	for path, sp := range w.pkgs {
		if strings.HasSuffix(path, "#test") {
			continue
		}
		suffix := strings.TrimPrefix(pat, ".")
		if path == repoMod+suffix || (pat == "." && path == repoMod) {
			return sp
		}
	}
	return nil
}

func (w *World) harnessNames(pat, re string) []string {
	sp := w.mainPkg(pat)
	if sp == nil {
		return nil
	}
	rx := regexp.MustCompile("^(" + re + ")$")
	var out []string
	for name, m := range sp.Members {
		if _, ok := m.(*ssa.Function); ok && strings.HasPrefix(name, "H_") && rx.MatchString(name) {
			out = append(out, name)
		}
	}
	sort.Strings(out)
	return out
}

func cmdRun(args []string) int {
	fs := flag.NewFlagSet("run", flag.ExitOnError)
	repo := fs.String("repo", "/repo", "")
	overlay := fs.String("harness", "/verif/harness", "")
	pkgPat := fs.String("pkg", "./valid", "")
	re := fs.String("run", ".*", "harness name regexp")
	out := fs.String("out", "", "json output")
	solverKind := fs.String("solver", "z3", "")
	timeoutMs := fs.Int("qtimeout", 30000, "per-query timeout ms")
	maxPaths := fs.Int("maxpaths", 200000, "")
	harnessSecs := fs.Int("hsecs", 120, "per-harness wall limit")
	shard := fs.Int("shard", 0, "")
	nshards := fs.Int("nshards", 1, "")
	verbose := fs.Bool("v", false, "")
	cpuprof := fs.String("cpuprofile", "", "")
	hardReset := fs.Bool("hardreset", false, "use (reset) between paths instead of pop/push")
	fs.Parse(args)
	if *cpuprof != "" {
		f, _ := os.Create(*cpuprof)
		pprof.StartCPUProfile(f)
		defer pprof.StopCPUProfile()
	}
	t0 := time.Now()
	w, err := loadWorld(*repo, []string{*pkgPat}, *overlay, false)
	if err != nil {
		fmt.Fprintln(os.Stderr, "load:", err)
		return 2
	}
	loadMs := time.Since(t0).Milliseconds()
	names := w.harnessNames(*pkgPat, *re)
	solver, err := NewSolver(*solverKind, *timeoutMs)
	if err != nil {
		fmt.Fprintln(os.Stderr, "solver:", err)
		return 2
	}
	defer solver.Close()
	solver.hardReset = *hardReset
	st := &Stats{funcs: map[string]int{}, stubs: map[string]int{}}
	var results []*RunResult
	sp := w.mainPkg(*pkgPat)
	for i, n := range names {
		if i%*nshards != *shard {
			continue
		}
		r := w.runHarness(sp, n, solver, st, *maxPaths, time.Now().Add(time.Duration(*harnessSecs)*time.Second))
		results = append(results, r)
		if *verbose {
			fmt.Fprintf(os.Stderr, "%-40s paths=%d oblig=%d/%d findings=%d inconcl=%d q=%d %dms\n", n, r.Paths, r.Discharged, r.Obligations, len(r.Findings), len(r.Inconclusive), r.Queries, r.WallMs)
			for _, f := range r.Findings {
				fmt.Fprintf(os.Stderr, "    FINDING %s %s %s %v\n", f.Kind, f.Label, f.Detail, f.Values)
			}
			for _, s := range r.Inconclusive {
				fmt.Fprintf(os.Stderr, "    INCONCLUSIVE %s\n", s)
			}
		}
	}
	// function instruction counts
	funcs := map[string]int{}
	for name := range st.funcs {
		funcs[name] = st.funcs[name]
	}
	summary := map[string]interface{}{
		"results": results, "load_ms": loadMs, "funcs_entered": funcs, "stubs_used": st.stubs,
		"solver": solver.name, "instrs": st.instrs, "func_sizes": w.funcSizes(st.funcs),
	}
	b, _ := json.MarshalIndent(summary, "", " ")
	if *out != "" {
		os.WriteFile(*out, b, 0644)
	} else {
		os.Stdout.Write(b)
	}
	return 0
}

func (w *World) funcSizes(entered map[string]int) map[string]int {
	out := map[string]int{}
	for fn := range ssautil.AllFunctions(w.prog) {
		if _, ok := entered[fn.String()]; ok {
			n := 0
			for _, b := range fn.Blocks {
				n += len(b.Instrs)
			}
			out[fn.String()] = n
		}
	}
	return out
}

// ---- selftest: run the repo's Example functions through the interpreter ----

func cmdSelftest(args []string) int {
	fs := flag.NewFlagSet("selftest", flag.ExitOnError)
	repo := fs.String("repo", "/repo", "")
	re := fs.String("run", ".*", "")
	verbose := fs.Bool("v", false, "")
	fs.Parse(args)
	w, err := loadWorld(*repo, []string{"./valid"}, "", true)
	if err != nil {
		fmt.Fprintln(os.Stderr, "load:", err)
		return 2
	}
	sp := w.pkgs[repoMod+"/valid#test"]
	pp := w.ppkgs[repoMod+"/valid#test"]
	if sp == nil {
		fmt.Fprintln(os.Stderr, "no test package")
		return 2
	}
	want := map[string]string{}
	for _, f := range pp.Syntax {
		for _, d := range f.Decls {
			fd, ok := d.(*ast.FuncDecl)
			if !ok || !strings.HasPrefix(fd.Name.Name, "Example") {
				continue
			}
			// last comment group inside the body starting with "Output:"
			for _, cg := range f.Comments {
				if cg.Pos() > fd.Body.Lbrace && cg.End() < fd.Body.Rbrace {
					t := cg.Text()
					if strings.HasPrefix(strings.TrimSpace(t), "Output:") {
						want[fd.Name.Name] = strings.TrimSpace(strings.TrimPrefix(strings.TrimSpace(t), "Output:"))
					}
				}
			}
		}
	}
	solver, err := NewSolver("z3", 10000)
	if err != nil {
		fmt.Fprintln(os.Stderr, err)
		return 2
	}
	defer solver.Close()
	rx := regexp.MustCompile(*re)
	var names []string
	for n := range want {
		if rx.MatchString(n) {
			names = append(names, n)
		}
	}
	sort.Strings(names)
	fail := 0
	st := &Stats{funcs: map[string]int{}, stubs: map[string]int{}}
	for _, n := range names {
		ex := NewExplorer(solver)
		ex.beginRun()
		in := w.newInterp(ex, st)
		in.harness = n
		end := in.runPath(sp, sp.Func(n))
		got, _ := in.output.Concrete()
		got = strings.TrimSpace(got)
		// compare line-wise trimmed
		norm := func(s string) string {
			ls := strings.Split(s, "\n")
			for i := range ls {
				ls[i] = strings.TrimSpace(ls[i])
			}
			return strings.Join(ls, "\n")
		}
		if end != "ok" || norm(got) != norm(want[n]) {
			fail++
			fmt.Printf("FAIL %s end=%s\n  got:  %q\n  want: %q\n", n, end, got, want[n])
			for _, s := range ex.Inconclusive {
				fmt.Println("   ", s)
			}
			for _, f := range ex.Findings {
				fmt.Println("   finding:", f.Kind, f.Label, f.Detail)
			}
		} else if *verbose {
			fmt.Printf("ok   %s\n", n)
		}
	}
	fmt.Printf("selftest: %d examples, %d failed\n", len(names), fail)
	if fail > 0 {
		return 1
	}
	return 0
}
