package main

// reflect intrinsics over the executor's value model, including the panic
// conditions the reflect package documents.

import (
	"fmt"
	"go/types"
	"reflect"
	"strings"
)

const (
	kInvalid = iota
	kBool
	kInt
	kInt8
	kInt16
	kInt32
	kInt64
	kUint
	kUint8
	kUint16
	kUint32
	kUint64
	kUintptr
	kFloat32
	kFloat64
	kComplex64
	kComplex128
	kArray
	kChan
	kFunc
	kInterface
	kMap
	kPointer
	kSlice
	kString
	kStruct
	kUnsafePointer
)

func reflectKind(t types.Type) int {
	if t == nil {
		return kInvalid
	}
	switch u := t.Underlying().(type) {
	case *types.Basic:
		switch u.Kind() {
		case types.Bool, types.UntypedBool:
			return kBool
		case types.Int, types.UntypedInt:
			return kInt
		case types.Int8:
			return kInt8
		case types.Int16:
			return kInt16
		case types.Int32, types.UntypedRune:
			return kInt32
		case types.Int64:
			return kInt64
		case types.Uint:
			return kUint
		case types.Uint8:
			return kUint8
		case types.Uint16:
			return kUint16
		case types.Uint32:
			return kUint32
		case types.Uint64:
			return kUint64
		case types.Uintptr:
			return kUintptr
		case types.Float32:
			return kFloat32
		case types.Float64, types.UntypedFloat:
			return kFloat64
		case types.Complex64:
			return kComplex64
		case types.Complex128:
			return kComplex128
		case types.String, types.UntypedString:
			return kString
		case types.UnsafePointer:
			return kUnsafePointer
		}
	case *types.Array:
		return kArray
	case *types.Chan:
		return kChan
	case *types.Signature:
		return kFunc
	case *types.Interface:
		return kInterface
	case *types.Map:
		return kMap
	case *types.Pointer:
		return kPointer
	case *types.Slice:
		return kSlice
	case *types.Struct:
		return kStruct
	}
	panic(engineErr(fmt.Sprintf("reflectKind: %v", t)))
}

var kindNames = []string{"invalid", "bool", "int", "int8", "int16", "int32", "int64", "uint", "uint8", "uint16", "uint32", "uint64", "uintptr", "float32", "float64", "complex64", "complex128", "array", "chan", "func", "interface", "map", "ptr", "slice", "string", "struct", "unsafe.Pointer"}

func kindVal(k int) Value { return Int{K: types.Uint, C: uint64(k)} }

var rtypeMarker types.Type // *reflect.rtype

func (in *Interp) rtypeIface(t types.Type) Value {
	if t == nil {
		return Iface{}
	}
	return Iface{T: rtypeMarker, V: RT{T: canonType(t)}}
}

func reflectTypeString(t types.Type) string {
	s := types.TypeString(t, func(p *types.Package) string { return p.Name() })
	s = strings.ReplaceAll(s, "interface{}", "interface {}")
	s = strings.ReplaceAll(s, "any", "interface {}")
	return s
}

func (in *Interp) rpanic(msg string) {
	in.tpanic("reflect", msg)
}

func valueErr(method string, k int) string {
	if k == kInvalid {
		return "reflect: call of " + method + " on zero Value"
	}
	return "reflect: call of " + method + " on " + kindNames[k] + " Value"
}

func (in *Interp) rvKind(v RV) int { return reflectKind(v.T) }

func rvValueOf(i Value) RV {
	itf, ok := i.(Iface)
	if !ok {
		panic(engineErr(fmt.Sprintf("reflect.ValueOf on %T", i)))
	}
	if itf.T == nil {
		return RV{}
	}
	return RV{T: itf.T, V: itf.V}
}

func (in *Interp) rvElem(v RV) RV {
	switch in.rvKind(v) {
	case kPointer:
		p, ok := v.get().(*Value)
		if !ok {
			if _, isN := v.get().(Native); isN {
				panic(engineErr("reflect Elem on native pointer"))
			}
			panic(engineErr(fmt.Sprintf("rvElem ptr holds %T", v.get())))
		}
		if p == nil {
			return RV{}
		}
		return RV{T: v.T.Underlying().(*types.Pointer).Elem(), Addr: p, RO: v.RO}
	case kInterface:
		itf := v.get().(Iface)
		if itf.T == nil {
			return RV{}
		}
		return RV{T: itf.T, V: itf.V, RO: v.RO}
	}
	in.rpanic(valueErr("reflect.Value.Elem", in.rvKind(v)))
	return RV{}
}

func (in *Interp) rvIsNil(v RV) Bool {
	switch in.rvKind(v) {
	case kPointer:
		switch p := v.get().(type) {
		case *Value:
			return mkBool(p == nil)
		case Native:
			return mkBool(p.V == nil)
		}
		return mkBool(false)
	case kMap:
		m, _ := v.get().(*Map)
		return mkBool(m == nil)
	case kSlice:
		s, _ := v.get().([]Value)
		return mkBool(s == nil)
	case kInterface:
		return mkBool(v.get().(Iface).T == nil)
	case kFunc:
		switch f := v.get().(type) {
		case nil:
			return mkBool(true)
		case *Closure:
			return mkBool(f == nil)
		default:
			_ = f
			return mkBool(isNilFunc(v.get()))
		}
	case kChan:
		return mkBool(v.get() == nil)
	case kUnsafePointer:
		return mkBool(v.get().(UnsafePtr).P == nil)
	}
	in.rpanic(valueErr("reflect.Value.IsNil", in.rvKind(v)))
	return Bool{}
}

func isNilFunc(v Value) bool {
	switch f := v.(type) {
	case nil:
		return true
	case *Closure:
		return f == nil
	case *NativeFn:
		return f == nil
	}
	if f, ok := v.(interface{ String() string }); ok {
		_ = f
	}
	return fmt.Sprintf("%v", v) == "<nil>"
}

// isZeroTerm: formula "value x of type t is the zero value".
func (in *Interp) isZeroTerm(t types.Type, x Value) *Term {
	switch reflectKind(t) {
	case kBool:
		return Not(x.(Bool).Term())
	case kInt, kInt8, kInt16, kInt32, kInt64, kUint, kUint8, kUint16, kUint32, kUint64, kUintptr:
		i := x.(Int)
		if i.S == nil {
			return BoolC(i.C == 0)
		}
		return Eq(i.S, BVC(kindWidth(i.K), 0))
	case kFloat32, kFloat64:
		f := x.(Float)
		if f.S == nil {
			return BoolC(f.C == 0)
		}
		return FPEq(f.S, FPC(floatW(f.K), 0))
	case kComplex64, kComplex128:
		return BoolC(x.(Complex).C == 0)
	case kString:
		s := x.(Str)
		if n, ok := s.concLen(); ok {
			return BoolC(n == 0)
		}
		return FalseT // atoms are non-empty
	case kArray:
		a := x.(Array)
		et := t.Underlying().(*types.Array).Elem()
		var conj []*Term
		for _, e := range a {
			conj = append(conj, in.isZeroTerm(et, e))
		}
		return And(conj...)
	case kStruct:
		if rv, ok := x.(RV); ok {
			return BoolC(rv.T == nil)
		}
		st := t.Underlying().(*types.Struct)
		s := x.(Struct)
		var conj []*Term
		for i, e := range s {
			if st.Field(i).Name() == "_" {
				continue
			}
			conj = append(conj, in.isZeroTerm(st.Field(i).Type(), e))
		}
		return And(conj...)
	case kPointer, kMap, kSlice, kInterface, kFunc, kChan, kUnsafePointer:
		return in.rvIsNil(RV{T: t, V: x}).Term()
	}
	panic(engineErr("isZeroTerm kind"))
}

func (in *Interp) rvIsZero(v RV) Bool {
	if v.T == nil {
		in.rpanic("reflect: call of reflect.Value.IsZero on zero Value")
	}
	return symBool(in.isZeroTerm(v.T, v.get()))
}

func (in *Interp) rvLen(v RV) Value {
	switch in.rvKind(v) {
	case kArray:
		return goInt(len(v.get().(Array)))
	case kSlice:
		s, _ := v.get().([]Value)
		return goInt(len(s))
	case kMap:
		m, _ := v.get().(*Map)
		return goInt(m.Len())
	case kString:
		return v.get().(Str).LenVal()
	case kPointer:
		if a, ok := v.T.Underlying().(*types.Pointer).Elem().Underlying().(*types.Array); ok {
			return goInt(int(a.Len()))
		}
	}
	in.rpanic(valueErr("reflect.Value.Len", in.rvKind(v)))
	return nil
}

func (in *Interp) rvIndex(v RV, idx Int) RV {
	switch in.rvKind(v) {
	case kSlice:
		s, _ := v.get().([]Value)
		i, ok := in.concInt(idx, 0, len(s)-1)
		if !ok {
			in.rpanic("reflect: slice index out of range")
		}
		return RV{T: v.T.Underlying().(*types.Slice).Elem(), Addr: &s[i], RO: v.RO}
	case kArray:
		a := v.get().(Array)
		i, ok := in.concInt(idx, 0, len(a)-1)
		if !ok {
			in.rpanic("reflect: array index out of range")
		}
		et := v.T.Underlying().(*types.Array).Elem()
		if v.Addr != nil {
			return RV{T: et, Addr: &a[i], RO: v.RO}
		}
		return RV{T: et, V: a[i], RO: v.RO}
	case kString:
		bs := v.get().(Str).bytes()
		i, ok := in.concInt(idx, 0, len(bs)-1)
		if !ok {
			in.rpanic("reflect: string index out of range")
		}
		return RV{T: types.Typ[types.Uint8], V: bs[i].Val(), RO: v.RO}
	}
	in.rpanic(valueErr("reflect.Value.Index", in.rvKind(v)))
	return RV{}
}

func (in *Interp) rvField(v RV, i int) RV {
	if in.rvKind(v) != kStruct {
		in.rpanic(valueErr("reflect.Value.Field", in.rvKind(v)))
	}
	st := v.T.Underlying().(*types.Struct)
	if i < 0 || i >= st.NumFields() {
		in.rpanic("reflect: Field index out of range")
	}
	f := st.Field(i)
	ro := v.RO || !f.Exported()
	if rv, ok := v.get().(RV); ok {
		_ = rv
		panic(engineErr("Field() of reflect.Value struct"))
	}
	s := v.get().(Struct)
	if v.Addr != nil {
		return RV{T: f.Type(), Addr: &s[i], RO: ro}
	}
	return RV{T: f.Type(), V: s[i], RO: ro}
}

func (in *Interp) rvInterface(v RV) Value {
	if v.T == nil {
		in.rpanic("reflect: call of reflect.Value.Interface on zero Value")
	}
	if v.RO {
		in.rpanic("reflect.Value.Interface: cannot return value obtained from unexported field or method")
	}
	if in.rvKind(v) == kInterface {
		itf := v.get().(Iface)
		return itf
	}
	return Iface{T: canonType(v.T), V: copyVal(v.get())}
}

func (in *Interp) rvString(v RV) Value {
	k := in.rvKind(v)
	if k == kString {
		return v.get().(Str)
	}
	if k == kInvalid {
		return mkStr("<invalid Value>")
	}
	return mkStr("<" + reflectTypeString(v.T) + " Value>")
}

func (in *Interp) rtypeMethod(name string, rt RT, args []Value) Value {
	t := rt.T
	switch name {
	case "Kind":
		return kindVal(reflectKind(t))
	case "Name":
		switch tt := t.(type) {
		case *types.Named:
			return mkStr(tt.Obj().Name())
		case *types.Basic:
			return mkStr(tt.Name())
		case *types.Alias:
			return in.rtypeMethod(name, RT{T: types.Unalias(tt)}, args)
		}
		return mkStr("")
	case "String":
		return mkStr(reflectTypeString(t))
	case "PkgPath":
		if n, ok := t.(*types.Named); ok && n.Obj().Pkg() != nil {
			return mkStr(n.Obj().Pkg().Path())
		}
		return mkStr("")
	case "Elem":
		switch u := t.Underlying().(type) {
		case *types.Pointer:
			return in.rtypeIface(u.Elem())
		case *types.Slice:
			return in.rtypeIface(u.Elem())
		case *types.Array:
			return in.rtypeIface(u.Elem())
		case *types.Map:
			return in.rtypeIface(u.Elem())
		case *types.Chan:
			return in.rtypeIface(u.Elem())
		}
		in.rpanic("reflect: Elem of invalid type " + reflectTypeString(t))
	case "Key":
		if m, ok := t.Underlying().(*types.Map); ok {
			return in.rtypeIface(m.Key())
		}
		in.rpanic("reflect: Key of non-map type " + reflectTypeString(t))
	case "Len":
		if a, ok := t.Underlying().(*types.Array); ok {
			return goInt(int(a.Len()))
		}
		in.rpanic("reflect: Len of non-array type " + reflectTypeString(t))
	case "NumField":
		if s, ok := t.Underlying().(*types.Struct); ok {
			return goInt(s.NumFields())
		}
		in.rpanic("reflect: NumField of non-struct type " + reflectTypeString(t))
	case "Field":
		s, ok := t.Underlying().(*types.Struct)
		if !ok {
			in.rpanic("reflect: Field of non-struct type " + reflectTypeString(t))
		}
		i, okc := in.concInt(args[0].(Int), 0, s.NumFields()-1)
		if !okc {
			in.rpanic("reflect: Field index out of bounds")
		}
		f := s.Field(i)
		pkgPath := ""
		if !f.Exported() && f.Pkg() != nil {
			pkgPath = f.Pkg().Path()
		}
		// reflect.StructField{Name, PkgPath, Type, Tag, Offset, Index, Anonymous}
		return Struct{
			mkStr(f.Name()), mkStr(pkgPath), in.rtypeIface(f.Type()), mkStr(s.Tag(i)),
			Int{K: types.Uintptr, C: uint64(i * 8)}, []Value{goInt(i)}, mkBool(f.Embedded()),
		}
	case "Comparable":
		return mkBool(types.Comparable(t))
	case "ConvertibleTo", "AssignableTo", "Implements":
		itf, ok := args[0].(Iface)
		if !ok || itf.T == nil {
			in.rpanic("reflect: nil type passed to Type." + name)
		}
		u := itf.V.(RT).T
		switch name {
		case "ConvertibleTo":
			return mkBool(types.ConvertibleTo(t, u))
		case "AssignableTo":
			return mkBool(types.AssignableTo(t, u))
		}
		if iface, ok := u.Underlying().(*types.Interface); ok {
			return mkBool(types.Implements(t, iface))
		}
		in.rpanic("reflect: non-interface type passed to Type.Implements")
	case "NumMethod":
		return goInt(types.NewMethodSet(t).Len())
	}
	panic(engineErr("UNSUPPORTED reflect.Type method " + name))
}

func (in *Interp) deepEqual(t types.Type, x, y Value) *Term {
	switch reflectKind(t) {
	case kSlice:
		a, _ := x.([]Value)
		b, _ := y.([]Value)
		if (a == nil) != (b == nil) || len(a) != len(b) {
			return FalseT
		}
		et := t.Underlying().(*types.Slice).Elem()
		var conj []*Term
		for i := range a {
			conj = append(conj, in.deepEqual(et, a[i], b[i]))
		}
		return And(conj...)
	case kArray:
		a, b := x.(Array), y.(Array)
		et := t.Underlying().(*types.Array).Elem()
		var conj []*Term
		for i := range a {
			conj = append(conj, in.deepEqual(et, a[i], b[i]))
		}
		return And(conj...)
	case kStruct:
		if ra, ok := x.(RV); ok {
			rb := y.(RV)
			// reflect.Value structs: equal only if same typ/ptr/flag; we know
			// identity only for the invalid Value and same-address values.
			if ra.T == nil || rb.T == nil {
				return BoolC(ra.T == nil && rb.T == nil)
			}
			if ra.Addr != nil && ra.Addr == rb.Addr {
				return TrueT
			}
			return FalseT
		}
		st := t.Underlying().(*types.Struct)
		a, b := x.(Struct), y.(Struct)
		var conj []*Term
		for i := range a {
			conj = append(conj, in.deepEqual(st.Field(i).Type(), a[i], b[i]))
		}
		return And(conj...)
	case kInterface:
		a, b := x.(Iface), y.(Iface)
		if a.T == nil || b.T == nil {
			return BoolC(a.T == nil && b.T == nil)
		}
		if !types.Identical(a.T, b.T) {
			return FalseT
		}
		return in.deepEqual(a.T, a.V, b.V)
	case kPointer:
		a, _ := x.(*Value)
		b, _ := y.(*Value)
		if a == b {
			return TrueT
		}
		if a == nil || b == nil {
			return FalseT
		}
		return in.deepEqual(t.Underlying().(*types.Pointer).Elem(), *a, *b)
	case kMap:
		a, _ := x.(*Map)
		b, _ := y.(*Map)
		if (a == nil) != (b == nil) || a.Len() != b.Len() {
			return FalseT
		}
		if a == b {
			return TrueT
		}
		mt := t.Underlying().(*types.Map)
		var conj []*Term
		for _, e := range a.live() {
			f := in.mapFind(b, e.k)
			if f == nil {
				return FalseT
			}
			conj = append(conj, in.deepEqual(mt.Elem(), e.v, f.v))
		}
		return And(conj...)
	case kFunc:
		return BoolC(isNilFunc(x) && isNilFunc(y))
	}
	return in.equals(t, x, y).Term()
}

func init() {
	reg := func(name string, f func(in *Interp, fr *frame, a []Value) Value) { intrinsics[name] = f }
	reg("reflect.TypeOf", func(in *Interp, fr *frame, a []Value) Value {
		itf := a[0].(Iface)
		if itf.T == nil {
			return Iface{}
		}
		if _, isRT := itf.V.(RT); isRT {
			panic(engineErr("TypeOf(reflect.Type)"))
		}
		return in.rtypeIface(itf.T)
	})
	reg("reflect.ValueOf", func(in *Interp, fr *frame, a []Value) Value { return rvValueOf(a[0]) })
	reg("reflect.Indirect", func(in *Interp, fr *frame, a []Value) Value {
		v := a[0].(RV)
		if in.rvKind(v) != kPointer {
			return v
		}
		return in.rvElem(v)
	})
	reg("reflect.DeepEqual", func(in *Interp, fr *frame, a []Value) Value {
		x, y := a[0].(Iface), a[1].(Iface)
		if x.T == nil || y.T == nil {
			return mkBool(x.T == nil && y.T == nil)
		}
		if !types.Identical(x.T, y.T) {
			return mkBool(false)
		}
		return symBool(in.deepEqual(x.T, x.V, y.V))
	})
	reg("(reflect.Value).Kind", func(in *Interp, fr *frame, a []Value) Value { return kindVal(in.rvKind(a[0].(RV))) })
	reg("(reflect.Value).IsValid", func(in *Interp, fr *frame, a []Value) Value { return mkBool(a[0].(RV).T != nil) })
	reg("(reflect.Value).Type", func(in *Interp, fr *frame, a []Value) Value {
		v := a[0].(RV)
		if v.T == nil {
			in.rpanic("reflect: call of reflect.Value.Type on zero Value")
		}
		return in.rtypeIface(v.T)
	})
	reg("(reflect.Value).Elem", func(in *Interp, fr *frame, a []Value) Value { return in.rvElem(a[0].(RV)) })
	reg("(reflect.Value).IsNil", func(in *Interp, fr *frame, a []Value) Value { return in.rvIsNil(a[0].(RV)) })
	reg("(reflect.Value).IsZero", func(in *Interp, fr *frame, a []Value) Value { return in.rvIsZero(a[0].(RV)) })
	reg("(reflect.Value).Len", func(in *Interp, fr *frame, a []Value) Value { return in.rvLen(a[0].(RV)) })
	reg("(reflect.Value).Index", func(in *Interp, fr *frame, a []Value) Value { return in.rvIndex(a[0].(RV), a[1].(Int)) })
	reg("(reflect.Value).Field", func(in *Interp, fr *frame, a []Value) Value {
		i, ok := in.concInt(a[1].(Int), 0, 1<<20)
		if !ok {
			in.rpanic("reflect: Field index out of range")
		}
		return in.rvField(a[0].(RV), i)
	})
	reg("(reflect.Value).NumField", func(in *Interp, fr *frame, a []Value) Value {
		v := a[0].(RV)
		if in.rvKind(v) != kStruct {
			in.rpanic(valueErr("reflect.Value.NumField", in.rvKind(v)))
		}
		return goInt(v.T.Underlying().(*types.Struct).NumFields())
	})
	reg("(reflect.Value).Int", func(in *Interp, fr *frame, a []Value) Value {
		v := a[0].(RV)
		switch in.rvKind(v) {
		case kInt, kInt8, kInt16, kInt32, kInt64:
			return in.convInt(types.Int64, v.get().(Int))
		}
		in.rpanic(valueErr("reflect.Value.Int", in.rvKind(v)))
		return nil
	})
	reg("(reflect.Value).Uint", func(in *Interp, fr *frame, a []Value) Value {
		v := a[0].(RV)
		switch in.rvKind(v) {
		case kUint, kUint8, kUint16, kUint32, kUint64, kUintptr:
			return in.convInt(types.Uint64, v.get().(Int))
		}
		in.rpanic(valueErr("reflect.Value.Uint", in.rvKind(v)))
		return nil
	})
	reg("(reflect.Value).Float", func(in *Interp, fr *frame, a []Value) Value {
		v := a[0].(RV)
		switch in.rvKind(v) {
		case kFloat32, kFloat64:
			f := v.get().(Float)
			if f.S != nil {
				return symFloat(types.Float64, FPToFP(64, f.S))
			}
			return Float{K: types.Float64, C: f.C}
		}
		in.rpanic(valueErr("reflect.Value.Float", in.rvKind(v)))
		return nil
	})
	reg("(reflect.Value).Bool", func(in *Interp, fr *frame, a []Value) Value {
		v := a[0].(RV)
		if in.rvKind(v) != kBool {
			in.rpanic(valueErr("reflect.Value.Bool", in.rvKind(v)))
		}
		return v.get().(Bool)
	})
	reg("(reflect.Value).Bytes", func(in *Interp, fr *frame, a []Value) Value {
		// the underlying []byte of a byte slice (arrays of bytes must be addressable: not needed by the repo, rejected)
		v := a[0].(RV)
		if in.rvKind(v) == kSlice {
			if sl, ok := v.T.Underlying().(*types.Slice); ok {
				if b, ok := sl.Elem().Underlying().(*types.Basic); ok && b.Kind() == types.Uint8 {
					return v.get()
				}
			}
			in.rpanic("reflect.Value.Bytes of non-byte slice")
		}
		if in.rvKind(v) == kArray {
			panic(engineErr("reflect.Value.Bytes on an array: not modelled"))
		}
		in.rpanic(valueErr("reflect.Value.Bytes", in.rvKind(v)))
		return nil
	})
	reg("(reflect.Value).String", func(in *Interp, fr *frame, a []Value) Value { return in.rvString(a[0].(RV)) })
	reg("(reflect.Value).Interface", func(in *Interp, fr *frame, a []Value) Value { return in.rvInterface(a[0].(RV)) })
	reg("(reflect.Value).CanInterface", func(in *Interp, fr *frame, a []Value) Value {
		v := a[0].(RV)
		if v.T == nil {
			in.rpanic("reflect: call of reflect.Value.CanInterface on zero Value")
		}
		return mkBool(!v.RO)
	})
	reg("(reflect.Value).CanAddr", func(in *Interp, fr *frame, a []Value) Value { return mkBool(a[0].(RV).Addr != nil) })
	reg("(reflect.Value).MapRange", func(in *Interp, fr *frame, a []Value) Value {
		v := a[0].(RV)
		if in.rvKind(v) != kMap {
			in.rpanic(valueErr("reflect.Value.MapRange", in.rvKind(v)))
		}
		m, _ := v.get().(*Map)
		var box Value = &MapIterV{m: m, mt: v.T.Underlying().(*types.Map), pos: 0, cur: -1}
		return &box
	})
	iterOf := func(v Value) *MapIterV { return (*(v.(*Value))).(*MapIterV) }
	reg("(*reflect.MapIter).Next", func(in *Interp, fr *frame, a []Value) Value {
		it := iterOf(a[0])
		if it.m == nil {
			return mkBool(false)
		}
		for it.pos < len(it.m.entries) {
			e := it.m.entries[it.pos]
			it.pos++
			if !e.deleted {
				it.cur = it.pos - 1
				return mkBool(true)
			}
		}
		it.cur = -1
		return mkBool(false)
	})
	reg("(*reflect.MapIter).Key", func(in *Interp, fr *frame, a []Value) Value {
		it := iterOf(a[0])
		if it.cur < 0 {
			in.rpanic("MapIter.Key called before Next")
		}
		return RV{T: it.mt.Key(), V: it.m.entries[it.cur].k}
	})
	reg("(*reflect.MapIter).Value", func(in *Interp, fr *frame, a []Value) Value {
		it := iterOf(a[0])
		if it.cur < 0 {
			in.rpanic("MapIter.Value called before Next")
		}
		return RV{T: it.mt.Elem(), V: copyVal(it.m.entries[it.cur].v)}
	})
	reg("(reflect.Value).MapKeys", func(in *Interp, fr *frame, a []Value) Value {
		v := a[0].(RV)
		if in.rvKind(v) != kMap {
			in.rpanic(valueErr("reflect.Value.MapKeys", in.rvKind(v)))
		}
		m, _ := v.get().(*Map)
		var out []Value
		for _, e := range m.live() {
			out = append(out, RV{T: v.T.Underlying().(*types.Map).Key(), V: e.k})
		}
		return out
	})
	reg("(reflect.Value).MapIndex", func(in *Interp, fr *frame, a []Value) Value {
		v := a[0].(RV)
		if in.rvKind(v) != kMap {
			in.rpanic(valueErr("reflect.Value.MapIndex", in.rvKind(v)))
		}
		m, _ := v.get().(*Map)
		e := in.mapFind(m, a[1].(RV).get())
		if e == nil {
			return RV{}
		}
		return RV{T: v.T.Underlying().(*types.Map).Elem(), V: copyVal(e.v)}
	})
	// ---- additions: constructing and mutating values through reflection ----
	rtOf := func(in *Interp, v Value) types.Type {
		itf, ok := v.(Iface)
		if !ok || itf.T == nil {
			in.rpanic("reflect: nil Type")
		}
		return itf.V.(RT).T
	}
	reg("reflect.Zero", func(in *Interp, fr *frame, a []Value) Value {
		t := rtOf(in, a[0])
		return RV{T: t, V: zero(t)}
	})
	reg("reflect.New", func(in *Interp, fr *frame, a []Value) Value {
		t := rtOf(in, a[0])
		cell := new(Value)
		*cell = zero(t)
		return RV{T: types.NewPointer(t), V: cell}
	})
	reg("reflect.MakeMapWithSize", func(in *Interp, fr *frame, a []Value) Value {
		t := rtOf(in, a[0])
		mt, ok := t.Underlying().(*types.Map)
		if !ok {
			in.rpanic("reflect.MakeMapWithSize of non-map type")
		}
		return RV{T: t, V: newMap(mt.Key())}
	})
	reg("reflect.MakeMap", func(in *Interp, fr *frame, a []Value) Value {
		t := rtOf(in, a[0])
		mt, ok := t.Underlying().(*types.Map)
		if !ok {
			in.rpanic("reflect.MakeMap of non-map type")
		}
		return RV{T: t, V: newMap(mt.Key())}
	})
	reg("(reflect.Value).SetMapIndex", func(in *Interp, fr *frame, a []Value) Value {
		v := a[0].(RV)
		if in.rvKind(v) != kMap {
			in.rpanic(valueErr("reflect.Value.SetMapIndex", in.rvKind(v)))
		}
		if v.RO {
			in.rpanic("reflect: reflect.Value.SetMapIndex using value obtained using unexported field")
		}
		m, _ := v.get().(*Map)
		k := a[1].(RV)
		e := a[2].(RV)
		if e.T == nil {
			in.mapDelete(m, k.get())
			return nil
		}
		if m == nil {
			in.tpanic("nil-map", "assignment to entry in nil map")
		}
		val := copyVal(e.get())
		if _, isI := v.T.Underlying().(*types.Map).Elem().Underlying().(*types.Interface); isI {
			if _, already := val.(Iface); !already {
				val = Iface{T: canonType(e.T), V: val}
			}
		}
		in.mapSet(m, k.get(), val)
		return nil
	})
	reg("(reflect.Value).Convert", func(in *Interp, fr *frame, a []Value) Value {
		v := a[0].(RV)
		t := rtOf(in, a[1])
		if v.T == nil || !types.ConvertibleTo(v.T, t) {
			in.rpanic("reflect.Value.Convert: value of type " + reflectTypeString(v.T) + " cannot be converted to type " + reflectTypeString(t))
		}
		if types.Identical(v.T.Underlying(), t.Underlying()) {
			return RV{T: t, V: copyVal(v.get()), RO: v.RO}
		}
		if _, isI := t.Underlying().(*types.Interface); isI {
			return RV{T: t, V: Iface{T: canonType(v.T), V: copyVal(v.get())}, RO: v.RO}
		}
		panic(engineErr("reflect.Value.Convert between different underlying types"))
	})
	reg("(reflect.Value).FieldByIndex", func(in *Interp, fr *frame, a []Value) Value {
		v := a[0].(RV)
		idx := a[1].([]Value)
		for n, iv := range idx {
			i := asInt(iv)
			if n > 0 && in.rvKind(v) == kPointer {
				if st, ok := v.T.Underlying().(*types.Pointer).Elem().Underlying().(*types.Struct); ok && st != nil {
					p, _ := v.get().(*Value)
					if p == nil {
						in.rpanic("reflect: indirection through nil pointer to embedded struct")
					}
					v = RV{T: v.T.Underlying().(*types.Pointer).Elem(), Addr: p, RO: v.RO}
				}
			}
			v = in.rvField(v, i)
		}
		return v
	})
	reg("reflect.VisibleFields", func(in *Interp, fr *frame, a []Value) Value {
		t := rtOf(in, a[0])
		st, ok := t.Underlying().(*types.Struct)
		if !ok {
			in.rpanic("reflect.VisibleFields of non-struct type")
		}
		// breadth-first over embedded structs, shallower names hide deeper ones (as reflect.VisibleFields):
		// a plain depth-ordered walk keeping every field whose name is not hidden at a shallower depth
		type ent struct {
			f     *types.Var
			tag   string
			index []int
		}
		var all []ent
		var walk func(st *types.Struct, prefix []int, seen map[*types.Struct]bool)
		walk = func(st *types.Struct, prefix []int, seen map[*types.Struct]bool) {
			if seen[st] {
				return
			}
			seen[st] = true
			for i := 0; i < st.NumFields(); i++ {
				f := st.Field(i)
				idx := append(append([]int{}, prefix...), i)
				all = append(all, ent{f, st.Tag(i), idx})
				if f.Embedded() {
					ft := f.Type()
					if p, isP := ft.Underlying().(*types.Pointer); isP {
						ft = p.Elem()
					}
					if est, isS := ft.Underlying().(*types.Struct); isS {
						walk(est, idx, seen)
					}
				}
			}
			delete(seen, st)
		}
		walk(st, nil, map[*types.Struct]bool{})
		// hide names that occur at a shallower depth (or several times at the same depth)
		best := map[string]int{}
		count := map[string]int{}
		for _, e := range all {
			d, ok := best[e.f.Name()]
			if !ok || len(e.index) < d {
				best[e.f.Name()] = len(e.index)
				count[e.f.Name()] = 1
			} else if len(e.index) == d {
				count[e.f.Name()]++
			}
		}
		var out []Value
		for _, e := range all {
			if len(e.index) != best[e.f.Name()] || count[e.f.Name()] > 1 {
				continue
			}
			pkgPath := ""
			if !e.f.Exported() && e.f.Pkg() != nil {
				pkgPath = e.f.Pkg().Path()
			}
			var idx []Value
			for _, i := range e.index {
				idx = append(idx, goInt(i))
			}
			out = append(out, Struct{mkStr(e.f.Name()), mkStr(pkgPath), in.rtypeIface(e.f.Type()), mkStr(e.tag),
				Int{K: types.Uintptr, C: uint64(e.index[len(e.index)-1] * 8)}, idx, mkBool(e.f.Embedded())})
		}
		return out
	})
	reg("(*reflect.MapIter).Reset", func(in *Interp, fr *frame, a []Value) Value {
		it := iterOf(a[0])
		v := a[1].(RV)
		if v.T == nil {
			it.m, it.pos, it.cur = nil, 0, -1
			return nil
		}
		m, _ := v.get().(*Map)
		it.m, it.mt, it.pos, it.cur = m, v.T.Underlying().(*types.Map), 0, -1
		return nil
	})
	setIter := func(in *Interp, a []Value, key bool) Value {
		v := a[0].(RV)
		if v.Addr == nil {
			in.rpanic("reflect: reflect.Value.SetIterKey/SetIterValue using unaddressable value")
		}
		it := iterOf(a[1])
		if it.cur < 0 {
			in.rpanic("reflect: Value.SetIterKey/SetIterValue called before Next")
		}
		e := it.m.entries[it.cur]
		src := e.v
		if key {
			src = e.k
		}
		in.onWrite(v.Addr)
		assignInPlace(v.Addr, src)
		return nil
	}
	reg("(reflect.Value).SetIterKey", func(in *Interp, fr *frame, a []Value) Value { return setIter(in, a, true) })
	reg("(reflect.Value).SetIterValue", func(in *Interp, fr *frame, a []Value) Value { return setIter(in, a, false) })
	reg("(reflect.Value).Set", func(in *Interp, fr *frame, a []Value) Value {
		v := a[0].(RV)
		if v.Addr == nil || v.RO {
			in.rpanic("reflect: reflect.Value.Set using unaddressable value")
		}
		x := a[1].(RV)
		val := copyVal(x.get())
		if _, isI := v.T.Underlying().(*types.Interface); isI {
			if _, already := val.(Iface); !already {
				val = Iface{T: canonType(x.T), V: val}
			}
		}
		in.onWrite(v.Addr)
		assignInPlace(v.Addr, val)
		return nil
	})
	reg("(reflect.StructTag).Get", func(in *Interp, fr *frame, a []Value) Value {
		tag := a[0].(Str).mustConcrete()
		key := a[1].(Str).mustConcrete()
		return mkStr(reflect.StructTag(tag).Get(key))
	})
	reg("(reflect.StructTag).Lookup", func(in *Interp, fr *frame, a []Value) Value {
		tag := a[0].(Str).mustConcrete()
		key := a[1].(Str).mustConcrete()
		v, ok := reflect.StructTag(tag).Lookup(key)
		return Tuple{mkStr(v), mkBool(ok)}
	})
	reg("(reflect.Kind).String", func(in *Interp, fr *frame, a []Value) Value {
		k := asInt(a[0])
		if k >= 0 && k < len(kindNames) {
			return mkStr(kindNames[k])
		}
		return mkStr(fmt.Sprintf("kind%d", k))
	})
}
