package main

// Models of sync.Map, sync/atomic and pointer identity (reflect.Value.Pointer): changes to the
// code under test routinely introduce small caches and guards built from these.

import (
	"fmt"
	"go/token"
	"go/types"
)

const tokenADD = token.ADD

// ptrID gives every heap cell a stable small identity within one path (the numeric value of a pointer).
func (in *Interp) ptrID(p Value) uint64 {
	if in.ptrIDs == nil {
		in.ptrIDs = map[interface{}]uint64{}
	}
	var key interface{}
	switch x := p.(type) {
	case *Value:
		if x == nil {
			return 0
		}
		// an aggregate and its first field / first element share their address (offset 0): descend to the
		// first leaf cell so that &s, &s.f0 and &s.f0[0] get the same numeric value, as in memory
		for {
			var first *Value
			switch agg := (*x).(type) {
			case Struct:
				if len(agg) > 0 {
					first = &agg[0]
				}
			case Array:
				if len(agg) > 0 {
					first = &agg[0]
				}
			}
			if first == nil {
				break
			}
			x = first
		}
		key = x
	case *Map:
		if x == nil {
			return 0
		}
		key = x
	case []Value:
		if len(x) == 0 {
			if cap(x) == 0 {
				return 0
			}
			x = x[:1]
		}
		key = &x[0]
	case UnsafePtr:
		return in.ptrID(x.P)
	case nil:
		return 0
	default:
		key = fmt.Sprintf("%p", p)
	}
	if id, ok := in.ptrIDs[key]; ok {
		return id
	}
	id := uint64(0xc000000000) + uint64(len(in.ptrIDs)+1)*64
	in.ptrIDs[key] = id
	return id
}

// syncMapOf returns the model map behind a *sync.Map cell.
func (in *Interp) syncMapOf(v Value) *Map {
	p, ok := v.(*Value)
	if !ok || p == nil {
		in.tpanic("nil-deref", "nil *sync.Map")
	}
	if in.syncMaps == nil {
		in.syncMaps = map[*Value]*Map{}
	}
	m := in.syncMaps[p]
	if m == nil {
		m = newMap(types.NewInterfaceType(nil, nil))
		in.syncMaps[p] = m
	}
	return m
}

func init() {
	reg := func(name string, f intrinsicFn) { intrinsics[name] = f }
	ifaceT := types.NewInterfaceType(nil, nil)
	_ = ifaceT

	// ---- reflect pointer identity ----
	ptrOf := func(in *Interp, v RV) Value {
		switch in.rvKind(v) {
		case kPointer, kMap, kSlice, kUnsafePointer, kFunc, kChan:
			return Int{K: types.Uintptr, C: in.ptrID(v.get())}
		}
		in.rpanic(valueErr("reflect.Value.Pointer", in.rvKind(v)))
		return nil
	}
	reg("(reflect.Value).Pointer", func(in *Interp, fr *frame, a []Value) Value { return ptrOf(in, a[0].(RV)) })
	reg("(reflect.Value).UnsafePointer", func(in *Interp, fr *frame, a []Value) Value {
		v := a[0].(RV)
		ptrOf(in, v)
		return UnsafePtr{P: v.get()}
	})
	reg("(reflect.Value).UnsafeAddr", func(in *Interp, fr *frame, a []Value) Value {
		v := a[0].(RV)
		if v.Addr == nil {
			in.rpanic("reflect.Value.UnsafeAddr of unaddressable value")
		}
		return Int{K: types.Uintptr, C: in.ptrID(v.Addr)}
	})
	reg("(reflect.Value).Addr", func(in *Interp, fr *frame, a []Value) Value {
		v := a[0].(RV)
		if v.Addr == nil {
			in.rpanic("reflect.Value.Addr of unaddressable value")
		}
		return RV{T: types.NewPointer(v.T), V: v.Addr, RO: v.RO}
	})

	// ---- sync.Map: a thread-safe map; modelled as one cell (reads/writes go through the race monitor) ----
	reg("(*sync.Map).Load", func(in *Interp, fr *frame, a []Value) Value {
		m := in.syncMapOf(a[0])
		if e := in.mapFind(m, a[1]); e != nil {
			return Tuple{copyVal(e.v), mkBool(true)}
		}
		return Tuple{Iface{}, mkBool(false)}
	})
	reg("(*sync.Map).Store", func(in *Interp, fr *frame, a []Value) Value {
		in.mapSet(in.syncMapOf(a[0]), a[1], copyVal(a[2]))
		return nil
	})
	reg("(*sync.Map).LoadOrStore", func(in *Interp, fr *frame, a []Value) Value {
		m := in.syncMapOf(a[0])
		if e := in.mapFind(m, a[1]); e != nil {
			return Tuple{copyVal(e.v), mkBool(true)}
		}
		in.mapSet(m, a[1], copyVal(a[2]))
		return Tuple{a[2], mkBool(false)}
	})
	reg("(*sync.Map).LoadAndDelete", func(in *Interp, fr *frame, a []Value) Value {
		m := in.syncMapOf(a[0])
		if e := in.mapFind(m, a[1]); e != nil {
			v := copyVal(e.v)
			in.mapDelete(m, a[1])
			return Tuple{v, mkBool(true)}
		}
		return Tuple{Iface{}, mkBool(false)}
	})
	reg("(*sync.Map).Delete", func(in *Interp, fr *frame, a []Value) Value {
		in.mapDelete(in.syncMapOf(a[0]), a[1])
		return nil
	})
	reg("(*sync.Map).Range", func(in *Interp, fr *frame, a []Value) Value {
		m := in.syncMapOf(a[0])
		for _, e := range m.live() {
			r := in.call(fr, 0, a[1], []Value{e.k, copyVal(e.v)})
			if b, ok := r.(Bool); ok && b.S == nil && !b.C {
				break
			}
		}
		return nil
	})

	// ---- sync/atomic on plain cells: sequentially consistent; in thread mode every operation is a
	// scheduling point and an acquire-release edge through its cell ----
	for _, k := range []struct {
		name string
		kind types.BasicKind
	}{{"Int32", types.Int32}, {"Int64", types.Int64}, {"Uint32", types.Uint32}, {"Uint64", types.Uint64}, {"Uintptr", types.Uintptr}} {
		k := k
		reg("sync/atomic.Load"+k.name, func(in *Interp, fr *frame, a []Value) Value {
			in.syncPoint("atomic", a[0].(*Value))
			return *(a[0].(*Value))
		})
		reg("sync/atomic.Store"+k.name, func(in *Interp, fr *frame, a []Value) Value {
			in.syncPoint("atomic", a[0].(*Value))
			*(a[0].(*Value)) = a[1]
			return nil
		})
		reg("sync/atomic.Add"+k.name, func(in *Interp, fr *frame, a []Value) Value {
			p := a[0].(*Value)
			in.syncPoint("atomic", p)
			r := in.intBinop(tokenADD, (*p).(Int), a[1].(Int))
			*p = r
			return r
		})
		reg("sync/atomic.Swap"+k.name, func(in *Interp, fr *frame, a []Value) Value {
			p := a[0].(*Value)
			in.syncPoint("atomic", p)
			old := *p
			*p = a[1]
			return old
		})
		reg("sync/atomic.CompareAndSwap"+k.name, func(in *Interp, fr *frame, a []Value) Value {
			p := a[0].(*Value)
			in.syncPoint("atomic", p)
			if in.brVal(in.equals(types.Typ[k.kind], *p, a[1])) {
				*p = a[2]
				return mkBool(true)
			}
			return mkBool(false)
		})
	}
	// ---- atomic.Value: the interface value lives in the struct's only field; Load / Store / Swap are
	// scheduling points and acquire-release edges through that cell (the real code casts through unsafe) ----
	avCell := func(in *Interp, v Value) *Value {
		p, ok := v.(*Value)
		if !ok || p == nil {
			in.tpanic("nil-deref", "nil *atomic.Value")
		}
		st, ok := (*p).(Struct)
		if !ok || len(st) == 0 {
			panic(engineErr("atomic.Value: unexpected representation"))
		}
		return &st[0]
	}
	avNil := func(v Value) bool {
		i, ok := v.(Iface)
		return v == nil || (ok && i.T == nil)
	}
	reg("(*sync/atomic.Value).Load", func(in *Interp, fr *frame, a []Value) Value {
		c := avCell(in, a[0])
		in.syncPoint("atomic", c)
		if *c == nil {
			return Iface{}
		}
		return *c
	})
	reg("(*sync/atomic.Value).Store", func(in *Interp, fr *frame, a []Value) Value {
		c := avCell(in, a[0])
		if avNil(a[1]) {
			in.tpanic("panic", "sync/atomic: store of nil value into Value")
		}
		in.syncPoint("atomic", c)
		if old, ok := (*c).(Iface); ok && old.T != nil && !types.Identical(old.T, a[1].(Iface).T) {
			in.tpanic("panic", "sync/atomic: store of inconsistently typed value into Value")
		}
		*c = a[1]
		return nil
	})
	reg("(*sync/atomic.Value).Swap", func(in *Interp, fr *frame, a []Value) Value {
		c := avCell(in, a[0])
		if avNil(a[1]) {
			in.tpanic("panic", "sync/atomic: swap of nil value into Value")
		}
		in.syncPoint("atomic", c)
		old := *c
		if old == nil {
			old = Iface{}
		}
		*c = a[1]
		return old
	})
	reg("sync/atomic.LoadPointer", func(in *Interp, fr *frame, a []Value) Value {
		in.syncPoint("atomic", a[0].(*Value))
		return *(a[0].(*Value))
	})
	reg("sync/atomic.StorePointer", func(in *Interp, fr *frame, a []Value) Value {
		in.syncPoint("atomic", a[0].(*Value))
		*(a[0].(*Value)) = a[1]
		return nil
	})
}
