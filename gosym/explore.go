package main

// Path exploration by re-execution: a path is a sequence of decisions; the
// harness is re-run from scratch with a decision prefix and explores the
// first untaken feasible alternative at the deepest open decision.

import (
	"fmt"
	"os"
	"sort"
	"strings"
)

type pendingAlt struct {
	idx   int
	model Model
}

type decision struct {
	taken      int
	takenModel Model
	pending    []pendingAlt
	label      string
}

type Finding struct {
	Harness  string            `json:"harness"`
	Kind     string            `json:"kind"` // "assert", "panic", "race", "deadlock"
	Label    string            `json:"label"`
	Detail   string            `json:"detail"`
	Values   map[string]string `json:"values"`  // input name -> rendered value (replay)
	Choices  []int             `json:"choices"` // decision trail
	PathCond string            `json:"pc,omitempty"`
	Threads  bool              `json:"threads,omitempty"` // found in thread mode (needs an interleaving)
}

type Explorer struct {
	solver    *Solver
	stack     []*decision
	depth     int
	replayLen int
	pc        []*Term
	model     Model
	modelOK   bool

	// statistics
	Paths        int
	PathsEnded   map[string]int
	Obligations  int
	Discharged   int
	Trivial      int
	Branches     int
	ModelHits    int
	Inconclusive []string
	Findings     []Finding
	Reached      map[string]int

	maxPaths int

	dom             map[string]*byteDom
	DomDecided      int
	StubRefinements int
	StaleModels     int
}

func NewExplorer(s *Solver) *Explorer {
	return &Explorer{solver: s, PathsEnded: map[string]int{}, Reached: map[string]int{}, maxPaths: 2000000}
}

func (e *Explorer) beginRun() {
	e.depth = 0
	e.pc = e.pc[:0]
	e.model = Model{}
	// empty pc: any assignment works (missing vars evaluate as 0) -- but only when no decision prefix
	// is replayed: while a prefix is replayed the model is unknown until its last decision restores it
	e.modelOK = e.replayLen == 0
	e.dom = nil
	e.solver.Reset()
}

// next prepares the next path; false when exploration is complete.
func (e *Explorer) next() bool {
	for len(e.stack) > 0 {
		d := e.stack[len(e.stack)-1]
		if len(d.pending) > 0 {
			alt := d.pending[0]
			d.pending = d.pending[1:]
			d.taken = alt.idx
			d.takenModel = alt.model
			e.replayLen = len(e.stack)
			return true
		}
		e.stack = e.stack[:len(e.stack)-1]
	}
	return false
}

func (e *Explorer) addPC(c *Term) {
	if c == nil || c.IsTrue() {
		return
	}
	e.pc = append(e.pc, c)
	e.domAdd(c)
	e.solver.Assert(c)
}

func (e *Explorer) evalModel(c *Term) (bool, bool) {
	if !e.modelOK || e.model == nil {
		return false, false
	}
	return e.model.EvalBool(c)
}

// check asks whether pc ∧ c is satisfiable.
func (e *Explorer) check(c *Term) (string, Model) {
	if c.IsFalse() {
		return "unsat", nil
	}
	if res, m, ok := e.domCheck(c); ok {
		return res, m
	}
	return e.solver.Check(c, true)
}

// choose picks one of the alternatives. conds[i]==nil means unconstrained.
func (e *Explorer) choose(label string, conds []*Term) int {
	if e.depth < e.replayLen {
		d := e.stack[e.depth]
		idx := d.taken
		if idx < len(conds) && conds[idx] != nil {
			e.addPC(conds[idx])
		}
		if e.depth == e.replayLen-1 {
			if d.takenModel != nil {
				if os.Getenv("GOSYM_DEBUG_MODEL") != "" && idx < len(conds) && conds[idx] != nil {
					ok, known := d.takenModel.EvalBool(conds[idx])
					fmt.Fprintf(os.Stderr, "REPLAY decision %q idx=%d: cond under takenModel = %v (known %v), model size %d\n", label, idx, ok, known, len(d.takenModel))
				}
				e.model, e.modelOK = d.takenModel, true
			} else {
				e.modelOK = false
			}
		}
		e.depth++
		return idx
	}
	e.Branches++
	type feas struct {
		idx   int
		model Model
		keep  bool // satisfied by current model
	}
	var fs []feas
	for i, c := range conds {
		if c == nil || c.IsTrue() {
			fs = append(fs, feas{idx: i, model: e.model, keep: e.modelOK})
			continue
		}
		if c.IsFalse() {
			continue
		}
		if v, ok := e.evalModel(c); ok && v {
			e.ModelHits++
			fs = append(fs, feas{idx: i, model: e.model, keep: true})
			continue
		}
		res, m := e.check(c)
		switch res {
		case "sat":
			fs = append(fs, feas{idx: i, model: m})
		case "unknown":
			e.Inconclusive = append(e.Inconclusive, "unknown feasibility at "+label)
			fs = append(fs, feas{idx: i, model: nil})
		}
	}
	if len(fs) == 0 {
		panic(pathEnd{"infeasible"})
	}
	// prefer the alternative satisfied by the current model first
	sort.SliceStable(fs, func(a, b int) bool { return fs[a].keep && !fs[b].keep })
	d := &decision{taken: fs[0].idx, label: label}
	for _, f := range fs[1:] {
		d.pending = append(d.pending, pendingAlt{idx: f.idx, model: f.model})
	}
	e.stack = append(e.stack[:e.depth], d)
	e.depth++
	if c := conds[fs[0].idx]; c != nil {
		e.addPC(c)
	}
	if fs[0].model != nil {
		e.model, e.modelOK = fs[0].model, true
	} else {
		e.modelOK = false
	}
	return fs[0].idx
}

// br forks on a boolean term; returns the side taken.
func (e *Explorer) br(label string, c *Term) bool {
	if c.IsTrue() {
		return true
	}
	if c.IsFalse() {
		return false
	}
	return e.choose(label, []*Term{c, Not(c)}) == 0
}

func (e *Explorer) assume(c *Term) {
	if c.IsTrue() {
		return
	}
	if c.IsFalse() {
		panic(pathEnd{"assume-false"})
	}
	if v, ok := e.evalModel(c); ok && v {
		e.addPC(c)
		return
	}
	res, m := e.check(c)
	switch res {
	case "unsat":
		panic(pathEnd{"assume-false"})
	case "sat":
		e.model, e.modelOK = m, m != nil
	default:
		e.modelOK = false
	}
	e.addPC(c)
}

// ensureModel returns a model of the current pc.
func (e *Explorer) ensureModel() Model {
	if e.modelOK && e.model != nil {
		return e.model
	}
	res, m := e.solver.Check(nil, true)
	if res == "sat" {
		e.model, e.modelOK = m, true
		return m
	}
	return nil
}

func (e *Explorer) trail() []int {
	out := make([]int, e.depth)
	for i := 0; i < e.depth; i++ {
		out[i] = e.stack[i].taken
	}
	return out
}

func (e *Explorer) pcString() string {
	var parts []string
	for _, c := range e.pc {
		s := c.SMT()
		if len(s) > 200 {
			s = s[:200] + "..."
		}
		parts = append(parts, s)
	}
	if len(parts) > 12 {
		parts = append(parts[:12], fmt.Sprintf("... (%d more)", len(parts)-12))
	}
	return strings.Join(parts, " ∧ ")
}
