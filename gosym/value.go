package main

// Value model of the executor. Concrete and symbolic scalars share one
// representation (a nil *Term means concrete).

import (
	"fmt"
	"go/types"
	"math"
	"strings"

	"golang.org/x/tools/go/ssa"
	"golang.org/x/tools/go/types/typeutil"
)

type Value interface{}

// Int is any integer kind (incl. uintptr). C holds the value sign- or
// zero-extended to 64 bits; S (if non-nil) is a term of sort BV(width).
type Int struct {
	K types.BasicKind
	C uint64
	S *Term
}

type Bool struct {
	C bool
	S *Term
}

type Float struct {
	K types.BasicKind // Float32 / Float64
	C float64
	S *Term
}

type Complex struct{ C complex128 }

// Struct and Array have value semantics (copied by load/store).
type Struct []Value
type Array []Value

// Tuple is a multi-value result.
type Tuple []Value

// Iface is an interface value; T==nil is the nil interface.
type Iface struct {
	T types.Type
	V Value
}

type Closure struct {
	Fn  *ssa.Function
	Env []Value
}

// Native wraps a host Go object (compiled *regexp.Regexp, *ast.File ...).
type Native struct{ V interface{} }

// NativeFn is a host-implemented function value.
type NativeFn struct {
	Name string
	F    func(fr *frame, args []Value) Value
}

// UnsafePtr is unsafe.Pointer holding the original pointer.
type UnsafePtr struct{ P Value }

// Slice is represented as a Go []Value (aliasing and capacity come for free).
// A pointer is *Value. A nil pointer is (*Value)(nil).

// RV models reflect.Value.
type RV struct {
	T    types.Type // nil => invalid (zero Value)
	V    Value
	Addr *Value // non-nil => addressable; current value is *Addr
	RO   bool   // obtained via unexported field
}

func (r RV) get() Value {
	if r.Addr != nil {
		return *r.Addr
	}
	return r.V
}

// RT models the dynamic value behind reflect.Type.
type RT struct{ T types.Type }

// MapIterV models *reflect.MapIter
type MapIterV struct {
	m   *Map
	mt  *types.Map
	pos int
	cur int
}

// ---- type helpers ----

var typeCanon typeutil.Map

func canonType(t types.Type) types.Type {
	if t == nil {
		return nil
	}
	if c := typeCanon.At(t); c != nil {
		return c.(types.Type)
	}
	typeCanon.Set(t, t)
	return t
}

func basicKind(t types.Type) (types.BasicKind, bool) {
	if b, ok := t.Underlying().(*types.Basic); ok {
		return b.Kind(), true
	}
	return 0, false
}

func kindWidth(k types.BasicKind) int {
	switch k {
	case types.Int8, types.Uint8:
		return 8
	case types.Int16, types.Uint16:
		return 16
	case types.Int32, types.Uint32:
		return 32
	case types.Int, types.Int64, types.Uint, types.Uint64, types.Uintptr, types.UntypedInt, types.UntypedRune:
		return 64
	}
	panic(fmt.Sprintf("kindWidth: not an integer kind %v", k))
}

func kindSigned(k types.BasicKind) bool {
	switch k {
	case types.Int8, types.Int16, types.Int32, types.Int, types.Int64, types.UntypedInt, types.UntypedRune:
		return true
	}
	return false
}

func isIntKind(k types.BasicKind) bool {
	switch k {
	case types.Int8, types.Int16, types.Int32, types.Int, types.Int64,
		types.Uint8, types.Uint16, types.Uint32, types.Uint, types.Uint64, types.Uintptr,
		types.UntypedInt, types.UntypedRune:
		return true
	}
	return false
}

func isFloatKind(k types.BasicKind) bool {
	return k == types.Float32 || k == types.Float64 || k == types.UntypedFloat
}

// normInt truncates/extends v to kind k's canonical 64-bit form.
func normInt(k types.BasicKind, v uint64) uint64 {
	w := kindWidth(k)
	if w == 64 {
		return v
	}
	v &= mask(w)
	if kindSigned(k) {
		return uint64(sext(w, v))
	}
	return v
}

func mkInt(k types.BasicKind, v int64) Int   { return Int{K: k, C: normInt(k, uint64(v))} }
func mkUint(k types.BasicKind, v uint64) Int { return Int{K: k, C: normInt(k, v)} }
func goInt(v int) Int                        { return Int{K: types.Int, C: uint64(int64(v))} }
func symInt(k types.BasicKind, t *Term) Int {
	if t.IsConst() {
		return mkUint(k, t.Val)
	}
	return Int{K: k, S: t}
}

func (i Int) IsSym() bool { return i.S != nil }
func (i Int) Term() *Term {
	if i.S != nil {
		return i.S
	}
	return BVC(kindWidth(i.K), i.C)
}
func (i Int) Signed() int64 { return int64(i.C) }

func mkBool(b bool) Bool { return Bool{C: b} }
func symBool(t *Term) Bool {
	if t.IsConst() {
		return Bool{C: t.Val != 0}
	}
	return Bool{S: t}
}
func (b Bool) Term() *Term {
	if b.S != nil {
		return b.S
	}
	return BoolC(b.C)
}

func floatW(k types.BasicKind) int {
	if k == types.Float32 {
		return 32
	}
	return 64
}
func symFloat(k types.BasicKind, t *Term) Float {
	if t.IsConst() {
		return Float{K: k, C: t.F}
	}
	return Float{K: k, S: t}
}
func (f Float) Term() *Term {
	if f.S != nil {
		return f.S
	}
	return FPC(floatW(f.K), f.C)
}

// asInt extracts a concrete Go int from a value (panics on symbolic).
func asInt(v Value) int {
	i, ok := v.(Int)
	if !ok {
		panic(fmt.Sprintf("asInt: %T", v))
	}
	if i.S != nil {
		panic(engineErr("asInt on symbolic value"))
	}
	return int(int64(i.C))
}

// zero returns the zero value of type t.
func zero(t types.Type) Value {
	switch tt := t.(type) {
	case *types.Named:
		if isReflectValueType(tt) {
			return RV{}
		}
		return zero(tt.Underlying())
	case *types.Alias:
		return zero(types.Unalias(tt))
	case *types.Basic:
		k := tt.Kind()
		switch {
		case k == types.Bool || k == types.UntypedBool:
			return Bool{}
		case isIntKind(k):
			return Int{K: k}
		case isFloatKind(k):
			if k == types.UntypedFloat {
				k = types.Float64
			}
			return Float{K: k}
		case k == types.String || k == types.UntypedString:
			return Str{}
		case k == types.UnsafePointer:
			return UnsafePtr{}
		case k == types.UntypedNil:
			return nil
		case k == types.Complex64 || k == types.Complex128:
			return Complex{}
		}
		panic(fmt.Sprintf("zero: basic %v", tt))
	case *types.Pointer:
		return (*Value)(nil)
	case *types.Slice:
		return []Value(nil)
	case *types.Array:
		a := make(Array, tt.Len())
		for i := range a {
			a[i] = zero(tt.Elem())
		}
		return a
	case *types.Struct:
		s := make(Struct, tt.NumFields())
		for i := range s {
			s[i] = zero(tt.Field(i).Type())
		}
		return s
	case *types.Map:
		return (*Map)(nil)
	case *types.Interface:
		return Iface{}
	case *types.Signature:
		return (*ssa.Function)(nil)
	case *types.Chan:
		return nil
	case *types.Tuple:
		if tt.Len() == 1 {
			return zero(tt.At(0).Type())
		}
		s := make(Tuple, tt.Len())
		for i := range s {
			s[i] = zero(tt.At(i).Type())
		}
		return s
	case *types.TypeParam:
		panic("zero of type param")
	}
	panic(fmt.Sprintf("zero: unhandled type %T %v", t, t))
}

func isNamed(t types.Type, pkg, name string) bool {
	n, ok := t.(*types.Named)
	if !ok {
		return false
	}
	o := n.Obj()
	return o.Name() == name && o.Pkg() != nil && o.Pkg().Path() == pkg
}

func isReflectValueType(t types.Type) bool { return isNamed(t, "reflect", "Value") }

// copyVal makes a copy with value semantics for aggregates.
func copyVal(v Value) Value {
	switch v := v.(type) {
	case Struct:
		c := make(Struct, len(v))
		for i, x := range v {
			c[i] = copyVal(x)
		}
		return c
	case Array:
		c := make(Array, len(v))
		for i, x := range v {
			c[i] = copyVal(x)
		}
		return c
	}
	return v
}

// ---- Map ----

type mapEntry struct {
	k, v    Value
	deleted bool
}

type Map struct {
	kt      types.Type
	entries []*mapEntry
	idx     map[string]int // concrete key hash -> entry index
	n       int
}

var nanKeys int

func newMap(kt types.Type) *Map { return &Map{kt: kt, idx: map[string]int{}} }

func (m *Map) Len() int {
	if m == nil {
		return 0
	}
	return m.n
}

// hashKey returns a canonical string for a fully concrete key; ok=false if it
// contains symbolic parts.
func hashKey(v Value) (string, bool) {
	switch v := v.(type) {
	case Int:
		if v.S != nil {
			return "", false
		}
		return fmt.Sprintf("i%d:%d", v.K, v.C), true
	case Bool:
		if v.S != nil {
			return "", false
		}
		return fmt.Sprintf("b%v", v.C), true
	case Float:
		if v.S != nil {
			return "", false
		}
		if v.C != v.C { // NaN is never equal to itself: every NaN key is a new entry and no lookup finds it
			nanKeys++
			return fmt.Sprintf("fNaN#%d", nanKeys), true
		}
		if v.C == 0 { // +0 and -0 are the same key
			return "f0", true
		}
		return fmt.Sprintf("f%v", math.Float64bits(v.C)), true
	case Str:
		s, ok := v.Concrete()
		if !ok {
			return "", false
		}
		return "s" + s, true
	case *Value:
		return fmt.Sprintf("p%p", v), true
	case Iface:
		if v.T == nil {
			return "nil", true
		}
		h, ok := hashKey(v.V)
		return "I" + typeKey(v.T) + "/" + h, ok
	case RT:
		return "T" + typeKey(v.T), true
	case Struct:
		var sb strings.Builder
		sb.WriteString("{")
		for _, f := range v {
			h, ok := hashKey(f)
			if !ok {
				return "", false
			}
			sb.WriteString(h)
			sb.WriteString(",")
		}
		return sb.String(), true
	case Array:
		var sb strings.Builder
		sb.WriteString("[")
		for _, f := range v {
			h, ok := hashKey(f)
			if !ok {
				return "", false
			}
			sb.WriteString(h)
			sb.WriteString(",")
		}
		return sb.String(), true
	case Native:
		return fmt.Sprintf("n%p", v.V), true
	case nil:
		return "nil", true
	case *Map:
		return fmt.Sprintf("m%p", v), true
	}
	panic(engineErr(fmt.Sprintf("hashKey: unhashable %T", v)))
}

func typeKey(t types.Type) string {
	t = canonType(t)
	return fmt.Sprintf("%p", t) + t.String()
}

// mapLookup finds the entry for key k; may fork on symbolic equality.
func (in *Interp) mapFind(m *Map, k Value) *mapEntry {
	if m == nil {
		return nil
	}
	in.onMapRead(m)
	if h, ok := hashKey(k); ok {
		// concrete key: fast path for concrete entries, symbolic scan for others
		if i, ok := m.idx[h]; ok {
			return m.entries[i]
		}
		for _, e := range m.entries {
			if e.deleted {
				continue
			}
			if _, c := hashKey(e.k); c {
				continue
			}
			if in.brVal(in.equals(m.kt, e.k, k)) {
				return e
			}
		}
		return nil
	}
	for _, e := range m.entries {
		if e.deleted {
			continue
		}
		if in.brVal(in.equals(m.kt, e.k, k)) {
			return e
		}
	}
	return nil
}

func (in *Interp) mapSet(m *Map, k, v Value) {
	if m == nil {
		panic(targetPanic{v: mkStrIface("assignment to entry in nil map"), kind: "nil-map"})
	}
	in.onMapWrite(m)
	if e := in.mapFind(m, k); e != nil {
		e.v = v
		return
	}
	e := &mapEntry{k: k, v: v}
	m.entries = append(m.entries, e)
	if h, ok := hashKey(k); ok {
		m.idx[h] = len(m.entries) - 1
	}
	m.n++
}

func (in *Interp) mapDelete(m *Map, k Value) {
	if m == nil {
		return
	}
	in.onMapWrite(m)
	if e := in.mapFind(m, k); e != nil {
		e.deleted = true
		if h, ok := hashKey(e.k); ok {
			delete(m.idx, h)
		}
		m.n--
	}
}

// live returns the live entries in insertion order.
func (m *Map) live() []*mapEntry {
	if m == nil {
		return nil
	}
	var out []*mapEntry
	for _, e := range m.entries {
		if !e.deleted {
			out = append(out, e)
		}
	}
	return out
}

// ---- engine errors and target panics ----

type engineErr string

type targetPanic struct {
	v    Value // the panic value (an Iface)
	kind string
	pos  string
}

type pathEnd struct{ reason string }

func mkStrIface(s string) Value { return Iface{T: types.Typ[types.String], V: mkStr(s)} }

func describe(v Value) string {
	switch v := v.(type) {
	case Int:
		if v.S != nil {
			return "sym:" + v.S.SMT()
		}
		if kindSigned(v.K) {
			return fmt.Sprint(int64(v.C))
		}
		return fmt.Sprint(v.C)
	case Bool:
		if v.S != nil {
			return "sym:" + v.S.SMT()
		}
		return fmt.Sprint(v.C)
	case Float:
		if v.S != nil {
			return "symf"
		}
		return fmt.Sprint(v.C)
	case Str:
		return v.Debug()
	case Iface:
		if v.T == nil {
			return "<nil>"
		}
		return "iface(" + v.T.String() + ":" + describe(v.V) + ")"
	case *Value:
		if v == nil {
			return "nilptr"
		}
		return fmt.Sprintf("&%p", v)
	case Struct:
		parts := []string{}
		for _, f := range v {
			parts = append(parts, describe(f))
		}
		return "{" + strings.Join(parts, ",") + "}"
	case []Value:
		parts := []string{}
		for _, f := range v {
			parts = append(parts, describe(f))
		}
		return "[" + strings.Join(parts, ",") + "]"
	case nil:
		return "nil"
	}
	return fmt.Sprintf("%T", v)
}
