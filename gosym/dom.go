package main

// Value-set pre-filter for symbolic bytes. Every BV8 variable carries the set
// of values still allowed by the *unary* constraints of the path condition.
// While a variable occurs in unary constraints only, the feasibility of one
// more unary constraint on it is decided exactly by set intersection (the
// other variables are independent of it and the path condition is known to be
// satisfiable), so no solver call is needed. A variable that occurs in any
// other constraint is marked entangled and always goes to the solver. The
// solver still receives every constraint and discharges every assertion that
// is not of this trivial shape.

import "math/bits"

type byteDom struct {
	set       [4]uint64
	entangled bool
}

const domMaxTermSize = 96

func (e *Explorer) domOf(name string) *byteDom {
	if e.dom == nil {
		e.dom = map[string]*byteDom{}
	}
	d := e.dom[name]
	if d == nil {
		d = &byteDom{set: [4]uint64{^uint64(0), ^uint64(0), ^uint64(0), ^uint64(0)}}
		e.dom[name] = d
	}
	return d
}

// singleByteVar returns the only variable of t if it is a BV8 variable and t is small.
func singleByteVar(t *Term) *Term {
	if t.size > domMaxTermSize {
		return nil
	}
	var found *Term
	ok := true
	seen := map[*Term]bool{}
	var walk func(x *Term)
	walk = func(x *Term) {
		if !ok || seen[x] {
			return
		}
		seen[x] = true
		if x.Op == "var" {
			if found == nil {
				found = x
			} else if found.Name != x.Name {
				ok = false
			}
			return
		}
		for _, a := range x.Args {
			walk(a)
		}
	}
	walk(t)
	if !ok || found == nil || found.Sort != BV8 {
		return nil
	}
	return found
}

func truthTable(c *Term, v *Term) (tbl [4]uint64, ok bool) {
	m := Model{}
	for x := 0; x < 256; x++ {
		m[v.Name] = MVal{U: uint64(x)}
		b, okb := m.EvalBool(c)
		if !okb {
			return tbl, false
		}
		if b {
			tbl[x>>6] |= 1 << uint(x&63)
		}
	}
	return tbl, true
}

func flattenAnd(c *Term, out []*Term) []*Term {
	if c.Op == "and" {
		for _, a := range c.Args {
			out = flattenAnd(a, out)
		}
		return out
	}
	return append(out, c)
}

// domAdd records constraint c (already part of the path condition).
func (e *Explorer) domAdd(c *Term) {
	for _, k := range flattenAnd(c, nil) {
		if k.IsTrue() {
			continue
		}
		if v := singleByteVar(k); v != nil {
			if tbl, ok := truthTable(k, v); ok {
				d := e.domOf(v.Name)
				for i := range d.set {
					d.set[i] &= tbl[i]
				}
				continue
			}
		}
		vs := map[string]*Term{}
		k.Vars(vs)
		for name, t := range vs {
			if t.Sort == BV8 {
				e.domOf(name).entangled = true
			}
		}
	}
}

// domCheck decides pc ∧ c when c is a unary constraint on a non-entangled byte.
// decided=false means the solver must be asked.
func (e *Explorer) domCheck(c *Term) (res string, model Model, decided bool) {
	v := singleByteVar(c)
	if v == nil {
		return "", nil, false
	}
	d := e.domOf(v.Name)
	if d.entangled {
		return "", nil, false
	}
	tbl, ok := truthTable(c, v)
	if !ok {
		return "", nil, false
	}
	first := -1
	for i := range tbl {
		if x := tbl[i] & d.set[i]; x != 0 {
			first = i*64 + bits.TrailingZeros64(x)
			break
		}
	}
	e.DomDecided++
	if first < 0 {
		return "unsat", nil, true
	}
	if e.modelOK && e.model != nil {
		m := make(Model, len(e.model)+1)
		for k, val := range e.model {
			m[k] = val
		}
		m[v.Name] = MVal{U: uint64(first)}
		return "sat", m, true
	}
	return "sat", nil, true
}
