package main

// Solver: one long-lived `z3 -in` (or cvc5 --incremental) process per worker.

import (
	"bufio"
	"fmt"
	"io"
	"math"
	"os"
	"os/exec"
	"strings"
	"time"
)

type Solver struct {
	name      string
	cmd       *exec.Cmd
	in        io.WriteCloser
	w         *bufio.Writer
	out       *bufio.Reader
	decl      map[string]*Term
	declOrd   []string
	Queries   int
	Sat       int
	Unsat     int
	Unknown   int
	Time      time.Duration
	log       io.Writer
	timeout   int // ms
	dead      bool
	inited    bool
	hardReset bool
	resets    int
}

func NewSolver(kind string, timeoutMs int) (*Solver, error) {
	var cmd *exec.Cmd
	switch kind {
	case "z3", "":
		cmd = exec.Command("/usr/bin/z3", "-in")
		kind = "z3"
	case "z3-new":
		cmd = exec.Command("z3-new", "-in")
	case "cvc5":
		cmd = exec.Command("cvc5", "--incremental", "--produce-models", "--fp-exp", fmt.Sprintf("--tlimit-per=%d", timeoutMs))
	default:
		return nil, fmt.Errorf("unknown solver %q", kind)
	}
	in, err := cmd.StdinPipe()
	if err != nil {
		return nil, err
	}
	out, err := cmd.StdoutPipe()
	if err != nil {
		return nil, err
	}
	cmd.Stderr = os.Stderr
	if err := cmd.Start(); err != nil {
		return nil, err
	}
	s := &Solver{name: kind, cmd: cmd, in: in, w: bufio.NewWriterSize(in, 1<<16), out: bufio.NewReaderSize(out, 1<<16), timeout: timeoutMs}
	if f := os.Getenv("GOSYM_SMTLOG"); f != "" {
		lf, _ := os.OpenFile(f, os.O_CREATE|os.O_WRONLY|os.O_APPEND, 0644)
		s.log = lf
	}
	s.Reset()
	return s, nil
}

func (s *Solver) send(line string) {
	if s.log != nil {
		fmt.Fprintln(s.log, line)
	}
	if _, err := s.w.WriteString(line); err != nil {
		s.dead = true
	}
	s.w.WriteByte('\n')
}

func (s *Solver) flush() {
	if err := s.w.Flush(); err != nil {
		s.dead = true
	}
}

func (s *Solver) Close() {
	s.send("(exit)")
	s.flush()
	s.in.Close()
	done := make(chan struct{})
	go func() { s.cmd.Wait(); close(done) }()
	select {
	case <-done:
	case <-time.After(2 * time.Second):
		s.cmd.Process.Kill()
	}
}

// Reset clears all assertions and declarations.
func (s *Solver) Reset() {
	s.resets++
	if s.inited && !s.hardReset && s.resets%256 != 0 {
		// cheap reset: drop the outermost scope (declarations included)
		s.send("(pop 1)")
		s.send("(push 1)")
	} else {
		s.send("(reset)")
		s.send("(set-option :print-success false)")
		s.send("(set-option :produce-models true)")
		if s.name != "cvc5" {
			s.send(fmt.Sprintf("(set-option :timeout %d)", s.timeout))
		} else {
			s.send("(set-logic ALL)")
		}
		s.send("(push 1)")
		s.inited = true
	}
	s.decl = map[string]*Term{}
	s.declOrd = nil
}

func (s *Solver) declare(t *Term) {
	vs := map[string]*Term{}
	t.Vars(vs)
	for _, k := range sortedKeys(vs) {
		if _, ok := s.decl[k]; ok {
			continue
		}
		v := vs[k]
		s.decl[k] = v
		s.declOrd = append(s.declOrd, k)
		s.send(fmt.Sprintf("(declare-const %s %s)", smtName(k), v.Sort))
	}
}

func (s *Solver) Assert(t *Term) {
	if t.IsTrue() {
		return
	}
	s.declare(t)
	s.send("(assert " + t.SMT() + ")")
}

func (s *Solver) Push() { s.send("(push 1)") }
func (s *Solver) Pop()  { s.send("(pop 1)") }

// readSexp reads one complete s-expression or atom line from solver output.
func (s *Solver) readSexp() (string, error) {
	var sb strings.Builder
	depth := 0
	started := false
	inBar := false
	inStr := false
	for {
		c, err := s.out.ReadByte()
		if err != nil {
			s.dead = true
			return sb.String(), err
		}
		if !started {
			if c == ' ' || c == '\n' || c == '\r' || c == '\t' {
				continue
			}
			started = true
		}
		sb.WriteByte(c)
		if inBar {
			if c == '|' {
				inBar = false
			}
			continue
		}
		if inStr {
			if c == '"' {
				inStr = false
			}
			continue
		}
		switch c {
		case '|':
			inBar = true
		case '"':
			inStr = true
		case '(':
			depth++
		case ')':
			depth--
			if depth == 0 {
				return sb.String(), nil
			}
		case '\n':
			if depth == 0 {
				return strings.TrimSpace(sb.String()), nil
			}
		}
	}
}

// CheckSat with an extra assumption (pushed and popped). Returns "sat","unsat","unknown".
// If sat and wantModel, model holds values for all declared vars.
func (s *Solver) Check(extra *Term, wantModel bool) (string, Model) {
	start := time.Now()
	defer func() { s.Time += time.Since(start) }()
	s.Queries++
	if s.dead {
		s.Unknown++
		return "unknown", nil
	}
	if extra != nil {
		s.declare(extra)
		s.Push()
		s.send("(assert " + extra.SMT() + ")")
	}
	s.send("(check-sat)")
	s.flush()
	res, err := s.readSexp()
	for err == nil && strings.HasPrefix(res, "(error") {
		fmt.Fprintln(os.Stderr, "SOLVER ERROR:", res)
		res = "unknown"
		break
	}
	if err != nil {
		res = "unknown"
	}
	var model Model
	switch res {
	case "sat":
		s.Sat++
		if wantModel {
			model = s.getModel()
		}
	case "unsat":
		s.Unsat++
	default:
		res = "unknown"
		s.Unknown++
	}
	if extra != nil {
		s.Pop()
	}
	return res, model
}

func (s *Solver) getModel() Model {
	m := Model{}
	if len(s.declOrd) == 0 {
		return m
	}
	var sb strings.Builder
	sb.WriteString("(get-value (")
	for _, k := range s.declOrd {
		sb.WriteString(smtName(k))
		sb.WriteByte(' ')
	}
	sb.WriteString("))")
	s.send(sb.String())
	s.flush()
	out, err := s.readSexp()
	if err != nil || strings.HasPrefix(out, "(error") {
		fmt.Fprintln(os.Stderr, "SOLVER get-value error:", out)
		return nil
	}
	sx, _ := parseSexp(out)
	if sx == nil {
		return nil
	}
	for _, pair := range sx.list {
		if len(pair.list) != 2 {
			continue
		}
		name := pair.list[0].atom
		name = strings.Trim(name, "|")
		v := s.decl[name]
		if v == nil {
			continue
		}
		mv, ok := parseModelVal(pair.list[1], v.Sort)
		if ok {
			m[name] = mv
		}
	}
	return m
}

type sexp struct {
	atom string
	list []*sexp
	isL  bool
}

func parseSexp(s string) (*sexp, string) {
	s = strings.TrimLeft(s, " \n\t\r")
	if s == "" {
		return nil, ""
	}
	if s[0] == '(' {
		n := &sexp{isL: true}
		s = s[1:]
		for {
			s = strings.TrimLeft(s, " \n\t\r")
			if s == "" {
				return n, ""
			}
			if s[0] == ')' {
				return n, s[1:]
			}
			var c *sexp
			c, s = parseSexp(s)
			if c == nil {
				return n, s
			}
			n.list = append(n.list, c)
		}
	}
	if s[0] == '|' {
		j := strings.IndexByte(s[1:], '|')
		if j < 0 {
			return &sexp{atom: s}, ""
		}
		return &sexp{atom: s[:j+2]}, s[j+2:]
	}
	j := 0
	for j < len(s) && !strings.ContainsRune(" \n\t\r()", rune(s[j])) {
		j++
	}
	return &sexp{atom: s[:j]}, s[j:]
}

func (x *sexp) String() string {
	if !x.isL {
		return x.atom
	}
	parts := make([]string, len(x.list))
	for i, c := range x.list {
		parts[i] = c.String()
	}
	return "(" + strings.Join(parts, " ") + ")"
}

func parseModelVal(x *sexp, so Sort) (MVal, bool) {
	switch so.K {
	case SBool:
		return MVal{U: b2u(x.atom == "true")}, x.atom == "true" || x.atom == "false"
	case SBV:
		if !x.isL {
			v, ok := parseBVLit(x.atom)
			return MVal{U: v}, ok
		}
		// (_ bv123 8)
		if len(x.list) == 3 && x.list[0].atom == "_" && strings.HasPrefix(x.list[1].atom, "bv") {
			var v uint64
			fmt.Sscanf(x.list[1].atom[2:], "%d", &v)
			return MVal{U: v}, true
		}
	case SFP:
		if so.W > 64 {
			return MVal{}, false
		}
		if x.isL && len(x.list) == 4 && x.list[0].atom == "fp" {
			sg, ok1 := parseBVLit(x.list[1].atom)
			ex, ok2 := parseBVLit(x.list[2].atom)
			mn, ok3 := parseBVLit(x.list[3].atom)
			if !(ok1 && ok2 && ok3) {
				return MVal{}, false
			}
			if so.W == 64 {
				return MVal{F: math.Float64frombits(sg<<63 | ex<<52 | mn)}, true
			}
			return MVal{F: float64(math.Float32frombits(uint32(sg<<31 | ex<<23 | mn)))}, true
		}
		if x.isL && len(x.list) == 4 && x.list[0].atom == "_" {
			switch x.list[1].atom {
			case "+zero":
				return MVal{F: 0}, true
			case "-zero":
				return MVal{F: math.Copysign(0, -1)}, true
			case "+oo":
				return MVal{F: math.Inf(1)}, true
			case "-oo":
				return MVal{F: math.Inf(-1)}, true
			case "NaN":
				return MVal{F: math.NaN()}, true
			}
		}
	}
	return MVal{}, false
}
