package main

// Thread mode hooks. In sequential mode these are no-ops; threads.go is
// extended later with the scheduler and the happens-before race detector.

func (in *Interp) onRead(p *Value) {
	if in.th != nil {
		in.th.access(in, p, false)
	}
}
func (in *Interp) onWrite(p *Value) {
	if in.th != nil {
		in.th.access(in, p, true)
	}
}

func (in *Interp) lockOp(mu Value, op string) {
	if in.th != nil {
		in.th.lockOp(in, mu.(*Value), op)
		return
	}
	in.event("sync." + op)
}

func (in *Interp) syncPoint(what string) {
	if in.th != nil {
		in.th.syncPoint(in, what)
	}
}

func (in *Interp) onPoolPut(x Value) {}

func (in *Interp) spawn(fr *frame, fn Value, args []Value) {
	if in.th == nil {
		panic(engineErr("go statement outside thread mode"))
	}
	in.th.spawn(in, fr, fn, args)
}
