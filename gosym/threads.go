package main

// Thread mode (C10/C11). vGo(f) registers a goroutine of the harness; vJoin()
// runs them to completion under a scheduler that explores every interleaving
// at the granularity of synchronisation operations (Lock/Unlock/RLock/RUnlock,
// goroutine start and exit): at each such point the explorer forks over the
// enabled goroutines. Every heap access is checked against the Go memory
// model's happens-before relation with vector clocks (FastTrack style): two
// accesses to the same cell by different goroutines, at least one a write,
// not ordered by happens-before in the explored schedule, are a data race.
// Because a race-free program is sequentially consistent, switching only at
// synchronisation operations is then complete for results.
//
// Each goroutine of the program under test is a host goroutine; exactly one
// runs at a time (hand-off through channels), so the interpreter state needs no
// locking of its own.

import (
	"fmt"
	"os"
	"sort"
)

type vclock []int

func (c vclock) copy() vclock { return append(vclock(nil), c...) }
func (c vclock) join(o vclock) vclock {
	for len(c) < len(o) {
		c = append(c, 0)
	}
	for i, v := range o {
		if v > c[i] {
			c[i] = v
		}
	}
	return c
}
func (c vclock) get(i int) int {
	if i < len(c) {
		return c[i]
	}
	return 0
}

type access struct {
	tid, clk int
	pos      string
}

type cellMeta struct {
	w  access   // last write
	rs []access // reads since the last write (one per goroutine)
}

type muState struct {
	writer   int // goroutine id holding the write lock, -1 none
	pendingW int // goroutine id that has announced Lock and waits for the readers to leave, -1 none
	readers  map[int]int
	lw, lr   vclock // released by writers / by readers
}

type pendingOp struct {
	mu *Value
	op string
	wg *wgState
	ch *ChanV
}

// ChanV is a Go channel of the program under test (thread mode and sequential code).
type ChanV struct {
	cap    int
	buf    []chanItem
	closed bool
	crel   vclock // released by close
}

type chanItem struct {
	v   Value
	clk vclock
}

type wgState struct {
	n   int
	rel vclock
}

type gthread struct {
	id      int
	args    []Value
	fn      Value
	clock   vclock
	wake    chan struct{}
	started bool
	done    bool
	pending *pendingOp
	label   string
}

type threadKilled struct{}

type threadState struct {
	in        *Interp
	threads   []*gthread // index 0 = the harness's main goroutine
	cur       int
	running   bool // inside vJoin
	mainCh    chan struct{}
	abort     interface{} // panic value raised inside a goroutine
	killed    bool
	mus       map[*Value]*muState
	cells     map[*Value]*cellMeta
	maps      map[*Map]*cellMeta
	poolRel   map[*Value]vclock
	races     map[string]bool
	Switches  int
	tryResult bool
	boundSet  bool
	wgs       map[*Value]*wgState
	fr0       *frame
	atomRel   map[*Value]vclock // release clocks of cells accessed with sync/atomic
	last      int               // goroutine that ran last (for the preemption bound)
	preempts  int               // preemptive switches so far
	bound     int               // -1: unbounded; n: at most n preemptive switches, then run to completion
}

func (in *Interp) threadMode() *threadState {
	if in.th == nil {
		main := &gthread{id: 0, clock: vclock{1}, started: true}
		in.th = &threadState{in: in, threads: []*gthread{main}, mainCh: make(chan struct{}), mus: map[*Value]*muState{},
			cells: map[*Value]*cellMeta{}, maps: map[*Map]*cellMeta{}, poolRel: map[*Value]vclock{}, races: map[string]bool{}, atomRel: map[*Value]vclock{}, bound: -1}
	}
	return in.th
}

func (t *threadState) curThread() *gthread { return t.threads[t.cur] }

func (t *threadState) tick() {
	g := t.curThread()
	for len(g.clock) <= g.id {
		g.clock = append(g.clock, 0)
	}
	g.clock[g.id]++
}

// ---- access checks ----

func (t *threadState) raceFound(kind string, a access, pos string) {
	key := kind + "|" + a.pos + "|" + pos
	if t.races[key] {
		return
	}
	t.races[key] = true
	if os.Getenv("GOSYM_DEBUG_RACE") != "" {
		fmt.Fprintf(os.Stderr, "RACE %s prev=%+v cur=%d clock=%v poolRel=%d\n", kind, a, t.cur, t.curThread().clock, len(t.poolRel))
	}
	t.in.recordFinding("race", "C10 no data race", fmt.Sprintf("%s: %s (goroutine %d) and %s (goroutine %d) are not ordered by happens-before", kind, a.pos, a.tid, pos, t.cur))
}

func (t *threadState) check(m *cellMeta, write bool) {
	g := t.curThread()
	pos := t.in.posStr(t.in.curPos)
	if m.w.tid != g.id && m.w.clk > g.clock.get(m.w.tid) && m.w.clk > 0 {
		if write {
			t.raceFound("write/write", m.w, pos)
		} else {
			t.raceFound("write/read", m.w, pos)
		}
	}
	if write {
		for _, r := range m.rs {
			if r.tid != g.id && r.clk > g.clock.get(r.tid) {
				t.raceFound("read/write", r, pos)
			}
		}
		m.w = access{tid: g.id, clk: g.clock.get(g.id), pos: pos}
		m.rs = m.rs[:0]
		return
	}
	for i := range m.rs {
		if m.rs[i].tid == g.id {
			m.rs[i] = access{tid: g.id, clk: g.clock.get(g.id), pos: pos}
			return
		}
	}
	m.rs = append(m.rs, access{tid: g.id, clk: g.clock.get(g.id), pos: pos})
}

func (t *threadState) access(in *Interp, p *Value, write bool) {
	if p == nil {
		return
	}
	m := t.cells[p]
	if m == nil {
		m = &cellMeta{}
		t.cells[p] = m
	}
	t.check(m, write)
}

func (t *threadState) mapAccess(mp *Map, write bool) {
	if mp == nil {
		return
	}
	m := t.maps[mp]
	if m == nil {
		m = &cellMeta{}
		t.maps[mp] = m
	}
	t.check(m, write)
}

// ---- scheduling ----

// yield hands control back to the scheduler (vJoin in the main goroutine) and waits to be resumed.
func (t *threadState) yield(g *gthread) {
	t.mainCh <- struct{}{}
	<-g.wake
	if t.killed {
		panic(threadKilled{})
	}
}

func (t *threadState) enabled(g *gthread) bool {
	if g.done {
		return false
	}
	if g.pending == nil {
		return true
	}
	switch g.pending.op {
	case "join":
		for _, o := range t.threads[1:] {
			if !o.done {
				return false
			}
		}
		return true
	case "wgwait":
		return g.pending.wg.n == 0
	case "send":
		ch := g.pending.ch
		if ch.closed || len(ch.buf) < ch.cap {
			return true
		}
		if ch.cap == 0 && len(ch.buf) == 0 { // rendezvous: a receiver must be waiting
			for _, o := range t.threads {
				if o != g && !o.done && o.pending != nil && o.pending.op == "recv" && o.pending.ch == ch {
					return true
				}
			}
		}
		return false
	case "recv":
		ch := g.pending.ch
		return len(ch.buf) > 0 || ch.closed
	}
	if g.pending.mu == nil {
		return true
	}
	mu := t.muOf(g.pending.mu)
	switch g.pending.op {
	case "Lock":
		// sync.RWMutex.Lock first takes the writers' mutex and announces itself (always possible when no
		// other writer holds or waits), then waits for the active readers to leave
		return mu.writer < 0 && mu.pendingW < 0
	case "LockWait":
		return len(mu.readers) == 0
	case "RLock":
		// a reader arriving while a writer holds the lock or has announced itself blocks (writer
		// preference: this is what makes recursive read locking deadlock-prone)
		return mu.writer < 0 && mu.pendingW < 0
	}
	return true
}

func (t *threadState) muOf(p *Value) *muState {
	m := t.mus[p]
	if m == nil {
		m = &muState{writer: -1, pendingW: -1, readers: map[int]int{}}
		t.mus[p] = m
	}
	return m
}

func (t *threadState) lockOp(in *Interp, mu *Value, op string) {
	g := t.curThread()
	t.schedPoint(in, &pendingOp{mu: mu, op: op}) // scheduling point before every synchronisation operation
	m := t.muOf(mu)
	switch op {
	case "TryLock":
		if m.writer < 0 && m.pendingW < 0 && len(m.readers) == 0 {
			m.writer = g.id
			g.clock = g.clock.join(m.lw).join(m.lr)
			t.tryResult = true
		} else {
			t.tryResult = false
		}
	case "TryRLock":
		if m.writer < 0 && m.pendingW < 0 {
			m.readers[g.id]++
			g.clock = g.clock.join(m.lw)
			t.tryResult = true
		} else {
			t.tryResult = false
		}
	case "Lock":
		if m.writer >= 0 || m.pendingW >= 0 || (len(m.readers) > 0 && !t.live()) {
			if !t.live() {
				in.recordFinding("deadlock", "C10 no deadlock", "Lock on a mutex that is already held, outside any goroutine")
				panic(pathEnd{"deadlock"})
			}
			panic(engineErr("scheduler resumed a goroutine whose Lock is not enabled"))
		}
		if len(m.readers) > 0 {
			// announced; new readers are held back until this writer has had the lock
			m.pendingW = g.id
			t.schedPoint(in, &pendingOp{mu: mu, op: "LockWait"})
			m.pendingW = -1
		}
		m.writer = g.id
		g.clock = g.clock.join(m.lw).join(m.lr)
	case "RLock":
		if m.writer >= 0 || m.pendingW >= 0 {
			if !t.live() {
				in.recordFinding("deadlock", "C10 no deadlock", "RLock on a mutex that is write-locked, outside any goroutine")
				panic(pathEnd{"deadlock"})
			}
			panic(engineErr("scheduler resumed a goroutine whose RLock is not enabled"))
		}
		m.readers[g.id]++
		g.clock = g.clock.join(m.lw)
	case "Unlock":
		if m.writer != g.id {
			in.tpanic("explicit", "fatal error: sync: Unlock of unlocked RWMutex")
		}
		m.writer = -1
		m.lw = g.clock.copy()
		t.tick()
	case "RUnlock":
		if m.readers[g.id] == 0 {
			in.tpanic("explicit", "fatal error: sync: RUnlock of unlocked RWMutex")
		}
		m.readers[g.id]--
		if m.readers[g.id] == 0 {
			delete(m.readers, g.id)
		}
		m.lr = m.lr.join(g.clock)
		t.tick()
	}
}

// syncPoint: a non-blocking synchronising operation (sync/atomic, sync.Map): a scheduling point, and an
// acquire-release edge through the cell it operates on.
func (t *threadState) syncPoint(in *Interp, what string, cell *Value) {
	g := t.curThread()
	t.schedPoint(in, &pendingOp{op: what})
	if cell != nil && t.running {
		if c, ok := t.atomRel[cell]; ok {
			g.clock = g.clock.join(c)
		}
		t.atomRel[cell] = g.clock.copy()
		t.tick()
	}
}

// pool hand-off: Put(x) happens before the Get that returns x
func (t *threadState) poolPut(x Value) {
	if itf, ok := x.(Iface); ok {
		if p, ok := itf.V.(*Value); ok && p != nil {
			t.poolRel[p] = t.curThread().clock.copy()
			t.tick()
		}
	}
}

func (t *threadState) poolGet(x Value) {
	if itf, ok := x.(Iface); ok {
		if p, ok := itf.V.(*Value); ok && p != nil {
			if c, ok := t.poolRel[p]; ok {
				g := t.curThread()
				g.clock = g.clock.join(c)
			}
		}
	}
}

// spawn: a go statement of the program under test. The new goroutine is schedulable from the next
// scheduling point of any goroutine on; everything the spawner did so far happens before it.
func (t *threadState) spawn(in *Interp, fr *frame, fn Value, a []Value) {
	cur := t.curThread()
	g := &gthread{id: len(t.threads), fn: fn, args: a, wake: make(chan struct{})}
	g.clock = cur.clock.copy()
	for len(g.clock) <= g.id {
		g.clock = append(g.clock, 0)
	}
	g.clock[g.id] = 1
	g.started = false
	g.label = "go"
	t.threads = append(t.threads, g)
	t.tick()
	if t.fr0 == nil {
		t.fr0 = fr
	}
	t.running = true
	if t.bound < 0 && !t.boundSet {
		// goroutines started by the program under test itself: schedules with at most two forks
		// (stated bound; harness goroutines registered with vGo are explored exhaustively)
		t.bound = 2
		in.stubsUsed["go statements of the program: schedules with at most 2 scheduling choices"]++
	}
	if aliasReadHook == nil {
		aliasReadHook = func(cells []Value) {
			for i := range cells {
				in.onRead(&cells[i])
			}
		}
	}
}

// live: some goroutine other than the main one has not finished.
func (t *threadState) live() bool {
	for _, g := range t.threads[1:] {
		if !g.done {
			return true
		}
	}
	return false
}

// schedPoint: the current goroutine is about to perform op. Other goroutines may run first; the call
// returns when this goroutine has been chosen and op is enabled. For the main goroutine the scheduler
// loop runs right here; the others hand control back to it.
func (t *threadState) schedPoint(in *Interp, op *pendingOp) {
	g := t.curThread()
	if g.id != 0 {
		if !t.running {
			return
		}
		g.pending = op
		t.yield(g)
		g.pending = nil
		return
	}
	if !t.running || (!t.live() && op.op != "join") {
		if !t.enabledOp(g, op) {
			in.recordFinding("deadlock", "C10 no deadlock", "the only goroutine blocks forever ("+op.op+")")
			panic(pathEnd{"deadlock"})
		}
		return
	}
	g.pending = op
	t.runLoop(in)
	g.pending = nil
}

func (t *threadState) enabledOp(g *gthread, op *pendingOp) bool {
	saved := g.pending
	g.pending = op
	ok := t.enabled(g)
	g.pending = saved
	return ok
}

// runLoop schedules goroutines until the main goroutine (whose pending operation is set) is chosen.
func (t *threadState) runLoop(in *Interp) {
	main := t.threads[0]
	for {
		var en []*gthread
		if t.enabled(main) {
			en = append(en, main)
		}
		for _, g := range t.threads[1:] {
			if !g.done && t.enabled(g) {
				en = append(en, g)
			}
		}
		if len(en) == 0 {
			in.recordFinding("deadlock", "C10 no deadlock", "all goroutines are blocked")
			panic(pathEnd{"deadlock"})
		}
		pick := 0
		if len(en) > 1 {
			lastIdx := -1
			for i, g := range en {
				if g.id == t.last {
					lastIdx = i
				}
			}
			if t.bound >= 0 && t.preempts >= t.bound {
				// budget used up: no more forks -- the running goroutine keeps running, and when it blocks
				// or ends the enabled goroutine with the lowest id that is not the main one goes next
				pick = lastIdx
				if pick < 0 {
					pick = 0
					if en[0] == main && len(en) > 1 {
						pick = 1
					}
				}
			} else {
				pick = in.ex.choose("schedule", make([]*Term, len(en)))
				t.Switches++
				// a bound set by a harness counts preemptive switches (leaving a goroutine that could go on);
				// the default bound for goroutines the program starts counts every scheduling choice
				if (lastIdx >= 0 && pick != lastIdx) || !t.boundSet {
					t.preempts++
				}
			}
		}
		g := en[pick]
		t.last = g.id
		if g == main {
			t.cur = 0
			return
		}
		t.cur = g.id
		if !g.started {
			g.started = true
			go t.runThread(in, t.fr0, g)
		} else {
			g.wake <- struct{}{}
		}
		<-t.mainCh
		t.cur = 0
		if t.abort != nil {
			a := t.abort
			t.abort = nil
			panic(a)
		}
	}
}

// ---- sync.WaitGroup ----

func (t *threadState) wgOf(p *Value) *wgState {
	if t.wgs == nil {
		t.wgs = map[*Value]*wgState{}
	}
	w := t.wgs[p]
	if w == nil {
		w = &wgState{}
		t.wgs[p] = w
	}
	return w
}

func (t *threadState) wgAdd(in *Interp, p *Value, n int) {
	w := t.wgOf(p)
	t.schedPoint(in, &pendingOp{op: "wgadd"})
	w.n += n
	if w.n < 0 {
		in.tpanic("explicit", "sync: negative WaitGroup counter")
	}
	if n < 0 { // Done: everything before it happens before the Wait that it releases
		w.rel = w.rel.join(t.curThread().clock)
		t.tick()
	}
}

func (t *threadState) wgWait(in *Interp, p *Value) {
	w := t.wgOf(p)
	t.schedPoint(in, &pendingOp{op: "wgwait", wg: w})
	g := t.curThread()
	g.clock = g.clock.join(w.rel)
}

// ---- channels ----

func (t *threadState) chanSend(in *Interp, ch *ChanV, v Value) {
	if ch == nil {
		t.schedPoint(in, &pendingOp{op: "recv", ch: &ChanV{}}) // a nil channel blocks forever
	}
	t.schedPoint(in, &pendingOp{op: "send", ch: ch})
	if ch.closed {
		in.tpanic("explicit", "send on closed channel")
	}
	g := t.curThread()
	ch.buf = append(ch.buf, chanItem{v: copyVal(v), clk: g.clock.copy()})
	t.tick()
}

func (t *threadState) chanRecv(in *Interp, ch *ChanV, zero Value) (Value, bool) {
	if ch == nil {
		t.schedPoint(in, &pendingOp{op: "recv", ch: &ChanV{}})
	}
	t.schedPoint(in, &pendingOp{op: "recv", ch: ch})
	g := t.curThread()
	if len(ch.buf) > 0 {
		it := ch.buf[0]
		ch.buf = ch.buf[1:]
		g.clock = g.clock.join(it.clk)
		return it.v, true
	}
	g.clock = g.clock.join(ch.crel)
	return zero, false
}

func (t *threadState) chanClose(in *Interp, ch *ChanV) {
	if ch == nil {
		in.tpanic("explicit", "close of nil channel")
	}
	t.schedPoint(in, &pendingOp{op: "close"})
	if ch.closed {
		in.tpanic("explicit", "close of closed channel")
	}
	ch.closed = true
	ch.crel = t.curThread().clock.copy()
	t.tick()
}

// vGo registers a goroutine; it starts running inside vJoin.
func (t *threadState) register(fn Value) {
	g := &gthread{id: len(t.threads), fn: fn, wake: make(chan struct{})}
	t.threads = append(t.threads, g)
}

// join runs all registered goroutines to completion, exploring the schedules.
func (t *threadState) join(in *Interp, fr *frame) {
	main := t.threads[0]
	for _, g := range t.threads[1:] {
		if !g.started && g.clock == nil {
			g.clock = main.clock.copy() // goroutine start: everything main did happens before
			for len(g.clock) <= g.id {
				g.clock = append(g.clock, 0)
			}
			g.clock[g.id] = 1
		}
	}
	t.tick()
	t.running = true
	t.fr0 = fr
	aliasReadHook = func(cells []Value) {
		for i := range cells {
			in.onRead(&cells[i])
		}
	}
	defer t.shutdown()
	main.pending = &pendingOp{op: "join"}
	t.runLoop(in)
	main.pending = nil
	// join: everything the goroutines did happens before what main does next
	for _, g := range t.threads[1:] {
		main.clock = main.clock.join(g.clock)
	}
	t.threads = t.threads[:1]
}

// shutdown releases the host goroutines of goroutines that did not finish (end of a path).
func (t *threadState) shutdown() {
	t.running = false
	aliasReadHook = nil
	t.killed = true
	for _, g := range t.threads[1:] {
		if g.started && !g.done {
			g.done = true
			g.wake <- struct{}{}
			<-t.mainCh
		}
	}
	t.killed = false
}

func (t *threadState) runThread(in *Interp, fr *frame, g *gthread) {
	defer func() {
		if r := recover(); r != nil {
			if _, k := r.(threadKilled); !k {
				t.abort = r
			}
		}
		g.done = true
		t.mainCh <- struct{}{}
	}()
	savedDepth := in.depth
	in.call(fr, 0, g.fn, g.args)
	in.depth = savedDepth
	t.tick()
}

func sortedInts(m map[int]int) []int {
	var ks []int
	for k := range m {
		ks = append(ks, k)
	}
	sort.Ints(ks)
	return ks
}

// ---- hooks used by the interpreter ----

func (in *Interp) onRead(p *Value) {
	if in.th != nil && in.th.running {
		in.th.access(in, p, false)
	}
}
func (in *Interp) onWrite(p *Value) {
	if in.th != nil && in.th.running {
		in.th.access(in, p, true)
	}
}
func (in *Interp) onMapRead(m *Map) {
	if in.th != nil && in.th.running {
		in.th.mapAccess(m, false)
	}
}
func (in *Interp) onMapWrite(m *Map) {
	if in.th != nil && in.th.running {
		in.th.mapAccess(m, true)
	}
}

func (in *Interp) lockOp(mu Value, op string) {
	if in.th != nil {
		in.th.lockOp(in, mu.(*Value), op)
		return
	}
	in.event("sync." + op)
}

func (in *Interp) syncPoint(what string, cell *Value) {
	if in.th != nil {
		in.th.syncPoint(in, what, cell)
	}
}

// tryLockOp: TryLock / TryRLock; outside thread mode the lock is always free.
func (in *Interp) tryLockOp(mu Value, op string) Value {
	if in.th != nil {
		in.th.lockOp(in, mu.(*Value), op)
		return mkBool(in.th.tryResult)
	}
	in.event("sync." + op)
	return mkBool(true)
}

func (in *Interp) onPoolPut(x Value) {
	if in.th != nil && in.th.running {
		in.th.poolPut(x)
	}
}

func (in *Interp) onPoolGet(x Value) {
	if in.th != nil && in.th.running {
		in.th.poolGet(x)
	}
}

func (in *Interp) spawn(fr *frame, fn Value, args []Value) {
	in.threadMode().spawn(in, fr, fn, args)
}

func (in *Interp) chanSend(ch Value, v Value) {
	c, _ := ch.(*ChanV)
	in.threadMode().chanSend(in, c, v)
}

func (in *Interp) chanRecv(ch Value, zero Value) (Value, bool) {
	c, _ := ch.(*ChanV)
	return in.threadMode().chanRecv(in, c, zero)
}

func (in *Interp) chanClose(ch Value) {
	c, _ := ch.(*ChanV)
	in.threadMode().chanClose(in, c)
}

func init() {
	harnessAPI["vGo"] = func(in *Interp, fr *frame, a []Value) Value {
		in.threadMode().register(a[0])
		return nil
	}
	harnessAPI["vSchedBound"] = func(in *Interp, fr *frame, a []Value) Value {
		t := in.threadMode()
		t.bound = asInt(a[0])
		t.boundSet = true
		t.preempts = 0
		return nil
	}
	harnessAPI["vJoin"] = func(in *Interp, fr *frame, a []Value) Value {
		in.threadMode().join(in, fr)
		return nil
	}
}
