package main

// Position-returning regexp operations on symbolic text: FindAllString,
// FindStringSubmatch, ReplaceAll. The matcher is a backtracking executor of
// Go's own compiled program (regexp/syntax.Prog) that tries threads in Go's
// priority order, so the first match found at the leftmost start is the
// leftmost-first match Go returns. Tests on symbolic bytes fork the path.
//
// The matcher works byte-wise. That is exact (also for invalid UTF-8, which Go
// decodes as U+FFFD of width 1) when every character class in the program is
// either a set of ASCII runes or contains every rune >= 0x80; programs with
// other classes are rejected (UNSUPPORTED), never approximated.

import (
	"fmt"
	"regexp"
	"regexp/syntax"
	"strconv"
)

type byteClass struct {
	ascii    [2]uint64 // ASCII members
	nonASCII bool      // all runes >= 0x80 are members
}

func (c *byteClass) has(b byte) bool {
	if b >= 0x80 {
		return c.nonASCII
	}
	return c.ascii[b>>6]&(1<<(b&63)) != 0
}

var byteClassCache = map[*syntax.Inst]*byteClass{}

func instByteClass(inst *syntax.Inst) *byteClass {
	if c, ok := byteClassCache[inst]; ok {
		return c
	}
	c := &byteClass{}
	add := func(lo, hi rune) {
		for r := lo; r <= hi && r < 0x80; r++ {
			c.ascii[r>>6] |= 1 << (uint(r) & 63)
		}
	}
	switch inst.Op {
	case syntax.InstRuneAny:
		add(0, 0x7f)
		c.nonASCII = true
	case syntax.InstRuneAnyNotNL:
		add(0, 0x7f)
		c.ascii['\n'>>6] &^= 1 << ('\n' & 63)
		c.nonASCII = true
	default:
		rs := inst.Rune
		if syntax.Flags(inst.Arg)&syntax.FoldCase != 0 {
			panic(engineErr("UNSUPPORTED case-folded class in positional regexp"))
		}
		if len(rs) == 1 {
			if rs[0] >= 0x80 {
				panic(engineErr("UNSUPPORTED non-ASCII literal in positional regexp"))
			}
			add(rs[0], rs[0])
		} else {
			covered := rune(0x80) // next non-ASCII rune that must be covered
			any := false
			for j := 0; j+1 < len(rs); j += 2 {
				lo, hi := rs[j], rs[j+1]
				add(lo, hi)
				if hi >= 0x80 {
					any = true
					if lo <= covered {
						if hi+1 > covered {
							covered = hi + 1
						}
					}
				}
			}
			if any {
				if covered <= 0x10FFFF {
					panic(engineErr("UNSUPPORTED class with partial non-ASCII coverage in positional regexp"))
				}
				c.nonASCII = true
			}
		}
	}
	byteClassCache[inst] = c
	return c
}

// byteMatches forks on whether b is in the class.
func (in *Interp) byteMatches(b SByte, c *byteClass) bool {
	if b.S == nil {
		return c.has(b.C)
	}
	// build the membership term from ranges
	var alts []*Term
	t := b.S
	start := -1
	emit := func(lo, hi int) {
		if lo == hi {
			alts = append(alts, Eq(t, BVC(8, uint64(lo))))
		} else {
			alts = append(alts, And(BVUle(BVC(8, uint64(lo)), t), BVUle(t, BVC(8, uint64(hi)))))
		}
	}
	for v := 0; v < 256; v++ {
		if c.has(byte(v)) {
			if start < 0 {
				start = v
			}
		} else if start >= 0 {
			emit(start, v-1)
			start = -1
		}
	}
	if start >= 0 {
		emit(start, 255)
	}
	return in.br(Or(alts...))
}

// matchFrom runs the program anchored at byte offset start; returns capture offsets of the
// highest-priority match, or nil.
func (in *Interp) matchFrom(prog *syntax.Prog, bs []SByte, start int) []int {
	ncap := prog.NumCap
	if ncap < 2 {
		ncap = 2
	}
	caps := make([]int, ncap)
	for i := range caps {
		caps[i] = -1
	}
	steps := 0
	var run func(pc, pos int, caps []int, visited map[[2]int]bool) []int
	run = func(pc, pos int, caps []int, visited map[[2]int]bool) []int {
		steps++
		if steps > 200000 {
			panic(pathEnd{"unwind: regexp backtracking step limit"})
		}
		for {
			inst := &prog.Inst[pc]
			switch inst.Op {
			case syntax.InstFail:
				return nil
			case syntax.InstMatch:
				out := append([]int(nil), caps...)
				out[0], out[1] = start, pos // the whole match is not a Capture instruction in syntax.Prog
				return out
			case syntax.InstNop:
				pc = int(inst.Out)
			case syntax.InstCapture:
				if int(inst.Arg) < len(caps) {
					nc := append([]int(nil), caps...)
					nc[inst.Arg] = pos
					caps = nc
				}
				pc = int(inst.Out)
			case syntax.InstEmptyWidth:
				op := syntax.EmptyOp(inst.Arg)
				ok := true
				if op&syntax.EmptyBeginText != 0 && pos != 0 {
					ok = false
				}
				if op&syntax.EmptyEndText != 0 && pos != len(bs) {
					ok = false
				}
				if op&syntax.EmptyBeginLine != 0 && pos != 0 {
					if !in.byteMatches(bs[pos-1], nlClass) {
						ok = false
					}
				}
				if op&syntax.EmptyEndLine != 0 && pos != len(bs) {
					if !in.byteMatches(bs[pos], nlClass) {
						ok = false
					}
				}
				if op&(syntax.EmptyWordBoundary|syntax.EmptyNoWordBoundary) != 0 {
					panic(engineErr("UNSUPPORTED word boundary in positional regexp"))
				}
				if !ok {
					return nil
				}
				pc = int(inst.Out)
			case syntax.InstAlt, syntax.InstAltMatch:
				key := [2]int{pc, pos}
				if visited[key] {
					return nil // empty-width loop
				}
				visited[key] = true
				if r := run(int(inst.Out), pos, caps, visited); r != nil {
					return r
				}
				pc = int(inst.Arg)
			default: // rune instructions
				if pos >= len(bs) {
					return nil
				}
				if !in.byteMatches(bs[pos], instByteClass(inst)) {
					return nil
				}
				pos++
				pc = int(inst.Out)
				visited = map[[2]int]bool{}
			}
		}
	}
	return run(prog.Start, start, caps, map[[2]int]bool{})
}

var nlClass = func() *byteClass {
	c := &byteClass{}
	c.ascii['\n'>>6] |= 1 << ('\n' & 63)
	return c
}()

// findAll returns the capture vectors of successive non-overlapping leftmost-first matches.
func (in *Interp) findAll(re *regexp.Regexp, bs []SByte, n int) [][]int {
	prog := progFor(re)
	var out [][]int
	pos := 0
	prevEnd := -1
	for pos <= len(bs) && (n < 0 || len(out) < n) {
		var m []int
		for st := pos; st <= len(bs); st++ {
			if m = in.matchFrom(prog, bs, st); m != nil {
				m[0] = st
				break
			}
			if prog.StartCond()&syntax.EmptyBeginText != 0 {
				break
			}
		}
		if m == nil {
			break
		}
		if m[1] == m[0] { // empty match
			if m[0] != prevEnd {
				out = append(out, m)
			}
			pos = m[1] + 1
		} else {
			out = append(out, m)
			pos = m[1]
		}
		prevEnd = m[1]
	}
	return out
}

func (in *Interp) regexFindAllString(re *regexp.Regexp, s Str, n int) Value {
	bs := s.bytes()
	ms := in.findAll(re, bs, n)
	if len(ms) == 0 {
		return []Value(nil)
	}
	out := make([]Value, len(ms))
	for i, m := range ms {
		out[i] = strOfBytes(bs[m[0]:m[1]])
	}
	return out
}

func (in *Interp) regexFindStringSubmatch(re *regexp.Regexp, s Str) Value {
	bs := s.bytes()
	ms := in.findAll(re, bs, 1)
	if len(ms) == 0 {
		return []Value(nil)
	}
	m := ms[0]
	out := make([]Value, len(m)/2)
	for i := range out {
		if m[2*i] >= 0 && m[2*i+1] >= 0 {
			out[i] = strOfBytes(bs[m[2*i]:m[2*i+1]])
		} else {
			out[i] = Str{}
		}
	}
	return out
}

// regexReplaceAll implements (*Regexp).ReplaceAll including the expansion of the replacement
// as a template ($name, ${name}, $1, $$), forking on symbolic bytes of the template.
func (in *Interp) regexReplaceAll(re *regexp.Regexp, src, repl Str) Str {
	bs := src.bytes()
	rb := repl.bytes()
	ms := in.findAll(re, bs, -1)
	var out []SByte
	last := 0
	for _, m := range ms {
		out = append(out, bs[last:m[0]]...)
		out = append(out, in.expandTemplate(re, rb, bs, m)...)
		last = m[1]
	}
	out = append(out, bs[last:]...)
	return strOfBytes(out)
}

func (in *Interp) isByte(b SByte, c byte) bool {
	if b.S == nil {
		return b.C == c
	}
	return in.br(Eq(b.S, BVC(8, uint64(c))))
}

var wordClass = func() *byteClass {
	c := &byteClass{}
	for _, r := range "0123456789abcdefghijklmnopqrstuvwxyzABCDEFGHIJKLMNOPQRSTUVWXYZ_" {
		c.ascii[r>>6] |= 1 << (uint(r) & 63)
	}
	return c
}()

var digitClass = func() *byteClass {
	c := &byteClass{}
	for _, r := range "0123456789" {
		c.ascii[r>>6] |= 1 << (uint(r) & 63)
	}
	return c
}()

// expandTemplate follows regexp.(*Regexp).expand.
func (in *Interp) expandTemplate(re *regexp.Regexp, tmpl []SByte, src []SByte, m []int) []SByte {
	var out []SByte
	i := 0
	for i < len(tmpl) {
		if !in.isByte(tmpl[i], '$') {
			out = append(out, tmpl[i])
			i++
			continue
		}
		// tmpl[i] == '$'
		if i+1 < len(tmpl) && in.isByte(tmpl[i+1], '$') {
			out = append(out, SByte{C: '$'})
			i += 2
			continue
		}
		// extract name
		rest := tmpl[i+1:]
		for _, b := range rest {
			if b.S == nil && b.C < 0x80 {
				continue
			}
			if b.S == nil || in.br(BVUle(BVC(8, 0x80), b.S)) {
				panic(engineErr("UNSUPPORTED non-ASCII text after '$' in a replacement template (Go accepts unicode letters in group names)"))
			}
		}
		var name []SByte
		consumed := 0
		ok := false
		if len(rest) > 0 && in.isByte(rest[0], '{') {
			j := 1
			for j < len(rest) && !in.isByte(rest[j], '}') {
				j++
			}
			if j < len(rest) { // found '}'
				name = rest[1:j]
				consumed = j + 1
				ok = len(name) > 0
				// name must consist of word characters
				for _, b := range name {
					if !in.byteMatches(b, wordClass) {
						ok = false
					}
				}
			}
		} else {
			j := 0
			for j < len(rest) && in.byteMatches(rest[j], wordClass) {
				j++
			}
			if j > 0 {
				name = rest[:j]
				consumed = j
				ok = true
			}
		}
		if !ok {
			// malformed: the '$' is copied literally
			out = append(out, SByte{C: '$'})
			i++
			continue
		}
		i += 1 + consumed
		// number or named group: the name bytes are now constrained to word characters; concretise them
		nb := make([]byte, len(name))
		for k, b := range name {
			if b.S == nil {
				nb[k] = b.C
				continue
			}
			// digits are concretised (group numbers); any other word character only makes the name a
			// (non-existent) group name
			if in.byteMatches(b, digitClass) {
				found := false
				for d := byte('0'); d <= '9'; d++ {
					if in.isByte(b, d) {
						nb[k] = d
						found = true
						break
					}
				}
				if !found {
					panic(pathEnd{"infeasible"})
				}
			} else {
				nb[k] = 'x'
			}
		}
		if len(re.SubexpNames()) > 1 {
			for _, gname := range re.SubexpNames() {
				if gname != "" {
					for _, b := range name {
						if b.S != nil {
							panic(engineErr("UNSUPPORTED symbolic template name with named groups"))
						}
					}
				}
			}
		}
		ns := string(nb)
		num := -1
		if n, err := strconv.Atoi(ns); err == nil && allDigits(ns) {
			num = n
		}
		if num >= 0 {
			if 2*num+1 < len(m) && m[2*num] >= 0 {
				out = append(out, src[m[2*num]:m[2*num+1]]...)
			}
		} else {
			for gi, gname := range re.SubexpNames() {
				if gname == ns && gname != "" && 2*gi+1 < len(m) && m[2*gi] >= 0 {
					out = append(out, src[m[2*gi]:m[2*gi+1]]...)
					break
				}
			}
		}
	}
	return out
}

func allDigits(s string) bool {
	for i := 0; i < len(s); i++ {
		if s[i] < '0' || s[i] > '9' {
			return false
		}
	}
	return s != ""
}

var _ = fmt.Sprintf
