package main
