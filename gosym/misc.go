package main


type threadState struct{}

func (t *threadState) access(in *Interp, p *Value, write bool)          {}
func (t *threadState) lockOp(in *Interp, mu *Value, op string)          {}
func (t *threadState) syncPoint(in *Interp, what string)                {}
func (t *threadState) spawn(in *Interp, fr *frame, fn Value, a []Value) {}


