package main

import (
	"regexp"
)

type threadState struct{}

func (t *threadState) access(in *Interp, p *Value, write bool)          {}
func (t *threadState) lockOp(in *Interp, mu *Value, op string)          {}
func (t *threadState) syncPoint(in *Interp, what string)                {}
func (t *threadState) spawn(in *Interp, fr *frame, fn Value, a []Value) {}

type symFS struct{}

func (f *symFS) stat(in *Interp, fr *frame, p Str) Value { panic(engineErr("symFS.stat")) }

func (in *Interp) regexFindAllString(re *regexp.Regexp, s Str, n int) Value {
	panic(engineErr("symbolic FindAllString not implemented"))
}
func (in *Interp) regexFindStringSubmatch(re *regexp.Regexp, s Str) Value {
	panic(engineErr("symbolic FindStringSubmatch not implemented"))
}
func (in *Interp) regexReplaceAll(re *regexp.Regexp, src, repl Str) Str {
	panic(engineErr("symbolic ReplaceAll not implemented"))
}
