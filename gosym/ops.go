package main

import (
	"fmt"
	"go/token"
	"go/types"
	"math"
	"unicode/utf8"

	"golang.org/x/tools/go/ssa"
)

func (in *Interp) unop(instr *ssa.UnOp, x Value) Value {
	switch instr.Op {
	case token.MUL: // load
		return in.load(deref(instr.X.Type()), x)
	case token.SUB:
		switch x := x.(type) {
		case Int:
			if x.S != nil {
				return symInt(x.K, BVNeg(x.S))
			}
			return mkUint(x.K, -x.C)
		case Float:
			if x.S != nil {
				return symFloat(x.K, FPNeg(x.S))
			}
			return Float{K: x.K, C: -x.C}
		}
	case token.NOT:
		b := x.(Bool)
		if b.S != nil {
			return symBool(Not(b.S))
		}
		return mkBool(!b.C)
	case token.XOR:
		i := x.(Int)
		if i.S != nil {
			return symInt(i.K, BVNot(i.S))
		}
		return mkUint(i.K, ^i.C)
	case token.ARROW:
		et := instr.X.Type().Underlying().(*types.Chan).Elem()
		v, ok := in.chanRecv(x, zero(et))
		if instr.CommaOk {
			return Tuple{v, mkBool(ok)}
		}
		return v
	}
	panic(engineErr(fmt.Sprintf("unop %v on %T", instr.Op, x)))
}

func (in *Interp) binop(op token.Token, t types.Type, x, y Value) Value {
	switch op {
	case token.EQL:
		return in.equals(t, x, y)
	case token.NEQ:
		b := in.equals(t, x, y)
		if b.S != nil {
			return symBool(Not(b.S))
		}
		return mkBool(!b.C)
	}
	switch x := x.(type) {
	case Int:
		return in.intBinop(op, x, y.(Int))
	case Float:
		return in.floatBinop(op, x, y.(Float))
	case Str:
		ys := y.(Str)
		switch op {
		case token.ADD:
			return strConcat(x, ys)
		case token.LSS, token.LEQ, token.GTR, token.GEQ:
			a, b := x.mustConcrete(), ys.mustConcrete()
			switch op {
			case token.LSS:
				return mkBool(a < b)
			case token.LEQ:
				return mkBool(a <= b)
			case token.GTR:
				return mkBool(a > b)
			default:
				return mkBool(a >= b)
			}
		}
	case Bool:
		// &,| on bools do not exist in Go; handled via control flow
	}
	panic(engineErr(fmt.Sprintf("binop %v on %T,%T", op, x, y)))
}

func (in *Interp) intBinop(op token.Token, x, y Int) Value {
	k := x.K
	w := kindWidth(k)
	signed := kindSigned(k)
	if op == token.SHL || op == token.SHR {
		return in.shift(op, x, y)
	}
	if x.S == nil && y.S == nil {
		a, b := x.C, y.C
		switch op {
		case token.ADD:
			return mkUint(k, a+b)
		case token.SUB:
			return mkUint(k, a-b)
		case token.MUL:
			return mkUint(k, a*b)
		case token.QUO:
			if b == 0 {
				in.tpanic("div-zero", "runtime error: integer divide by zero")
			}
			if signed {
				if int64(b) == -1 {
					return mkUint(k, -a)
				}
				return mkInt(k, int64(a)/int64(b))
			}
			return mkUint(k, a/b)
		case token.REM:
			if b == 0 {
				in.tpanic("div-zero", "runtime error: integer divide by zero")
			}
			if signed {
				if int64(b) == -1 {
					return mkInt(k, 0)
				}
				return mkInt(k, int64(a)%int64(b))
			}
			return mkUint(k, a%b)
		case token.AND:
			return mkUint(k, a&b)
		case token.OR:
			return mkUint(k, a|b)
		case token.XOR:
			return mkUint(k, a^b)
		case token.AND_NOT:
			return mkUint(k, a&^b)
		case token.LSS:
			if signed {
				return mkBool(int64(a) < int64(b))
			}
			return mkBool(a < b)
		case token.LEQ:
			if signed {
				return mkBool(int64(a) <= int64(b))
			}
			return mkBool(a <= b)
		case token.GTR:
			if signed {
				return mkBool(int64(a) > int64(b))
			}
			return mkBool(a > b)
		case token.GEQ:
			if signed {
				return mkBool(int64(a) >= int64(b))
			}
			return mkBool(a >= b)
		}
		panic(engineErr(fmt.Sprintf("int binop %v", op)))
	}
	a, b := x.Term(), y.Term()
	if a.Sort.W != w || b.Sort.W != w {
		panic(engineErr(fmt.Sprintf("int binop width mismatch %d %d %d", a.Sort.W, b.Sort.W, w)))
	}
	switch op {
	case token.ADD:
		r := symInt(k, BVAdd(a, b))
		in.trackPos(x, y, r)
		return r
	case token.SUB:
		return symInt(k, BVSub(a, b))
	case token.MUL:
		return symInt(k, BVMul(a, b))
	case token.QUO, token.REM:
		if in.br(Eq(b, BVC(w, 0))) {
			in.tpanic("div-zero", "runtime error: integer divide by zero")
		}
		o := "bvudiv"
		if op == token.REM {
			o = "bvurem"
		}
		if signed {
			o = "bvsdiv"
			if op == token.REM {
				o = "bvsrem"
			}
		}
		return symInt(k, bvBin(o, a, b))
	case token.AND:
		return symInt(k, BVAnd(a, b))
	case token.OR:
		return symInt(k, BVOr(a, b))
	case token.XOR:
		return symInt(k, BVXor(a, b))
	case token.AND_NOT:
		return symInt(k, BVAnd(a, BVNot(b)))
	case token.LSS:
		if signed {
			return symBool(BVSlt(a, b))
		}
		return symBool(BVUlt(a, b))
	case token.LEQ:
		if signed {
			return symBool(BVSle(a, b))
		}
		return symBool(BVUle(a, b))
	case token.GTR:
		if signed {
			return symBool(BVSlt(b, a))
		}
		return symBool(BVUlt(b, a))
	case token.GEQ:
		if signed {
			return symBool(BVSle(b, a))
		}
		return symBool(BVUle(b, a))
	}
	panic(engineErr(fmt.Sprintf("int binop %v", op)))
}

// trackPos keeps rope positions through "pos + const".
func (in *Interp) trackPos(x, y, r Int) {
	if r.S == nil {
		return
	}
	var base Int
	var d int
	if rp, ok := in.posTerms[x.S]; ok && x.S != nil && y.S == nil {
		base, d = x, int(int64(y.C))
		_ = base
		g := rp.s.segs[rp.seg]
		if g.A == nil && rp.off+d >= 0 && rp.off+d <= len(g.B) {
			in.posTerms[r.S] = ropePos{s: rp.s, seg: rp.seg, off: rp.off + d}
		}
	} else if rp, ok := in.posTerms[y.S]; ok && y.S != nil && x.S == nil {
		d = int(int64(x.C))
		g := rp.s.segs[rp.seg]
		if g.A == nil && rp.off+d >= 0 && rp.off+d <= len(g.B) {
			in.posTerms[r.S] = ropePos{s: rp.s, seg: rp.seg, off: rp.off + d}
		}
	}
}

func (in *Interp) shift(op token.Token, x, y Int) Value {
	k := x.K
	w := kindWidth(k)
	if y.S != nil {
		panic(engineErr("symbolic shift amount"))
	}
	if kindSigned(y.K) && int64(y.C) < 0 {
		in.tpanic("shift", "runtime error: negative shift amount")
	}
	n := y.C
	if x.S == nil {
		if op == token.SHL {
			if n >= 64 {
				return mkUint(k, 0)
			}
			return mkUint(k, x.C<<n)
		}
		if kindSigned(k) {
			if n >= 64 {
				n = 63
			}
			return mkInt(k, int64(x.C)>>n)
		}
		if n >= uint64(w) {
			return mkUint(k, 0)
		}
		return mkUint(k, (x.C&mask(w))>>n)
	}
	amt := BVC(w, n)
	if n >= uint64(w) {
		amt = BVC(w, uint64(w))
	}
	switch {
	case op == token.SHL:
		return symInt(k, bvBin("bvshl", x.S, amt))
	case kindSigned(k):
		return symInt(k, bvBin("bvashr", x.S, amt))
	default:
		return symInt(k, bvBin("bvlshr", x.S, amt))
	}
}

func (in *Interp) floatBinop(op token.Token, x, y Float) Value {
	k := x.K
	if x.S == nil && y.S == nil {
		a, b := x.C, y.C
		rnd := func(f float64) Value {
			if k == types.Float32 {
				f = float64(float32(f))
			}
			return Float{K: k, C: f}
		}
		switch op {
		case token.ADD:
			return rnd(a + b)
		case token.SUB:
			return rnd(a - b)
		case token.MUL:
			return rnd(a * b)
		case token.QUO:
			return rnd(a / b)
		case token.LSS:
			return mkBool(a < b)
		case token.LEQ:
			return mkBool(a <= b)
		case token.GTR:
			return mkBool(a > b)
		case token.GEQ:
			return mkBool(a >= b)
		}
	}
	a, b := x.Term(), y.Term()
	switch op {
	case token.ADD:
		return symFloat(k, FPBin("fp.add", a, b))
	case token.SUB:
		return symFloat(k, FPBin("fp.sub", a, b))
	case token.MUL:
		return symFloat(k, FPBin("fp.mul", a, b))
	case token.QUO:
		return symFloat(k, FPBin("fp.div", a, b))
	case token.LSS:
		return symBool(FPLt(a, b))
	case token.LEQ:
		return symBool(FPLeq(a, b))
	case token.GTR:
		return symBool(FPLt(b, a))
	case token.GEQ:
		return symBool(FPLeq(b, a))
	}
	panic(engineErr(fmt.Sprintf("float binop %v", op)))
}

// equals implements Go's == for type t; result may be symbolic.
func (in *Interp) equals(t types.Type, x, y Value) Bool {
	switch x := x.(type) {
	case Int:
		yi := y.(Int)
		if x.S == nil && yi.S == nil {
			return mkBool(x.C == yi.C)
		}
		return symBool(Eq(x.Term(), yi.Term()))
	case Bool:
		yb := y.(Bool)
		if x.S == nil && yb.S == nil {
			return mkBool(x.C == yb.C)
		}
		return symBool(Eq(x.Term(), yb.Term()))
	case Float:
		yf := y.(Float)
		if x.S == nil && yf.S == nil {
			return mkBool(x.C == yf.C)
		}
		return symBool(FPEq(x.Term(), yf.Term()))
	case Complex:
		return mkBool(x.C == y.(Complex).C)
	case Str:
		return in.strEq(x, y.(Str))
	case *Value:
		yp, ok := y.(*Value)
		if !ok {
			return mkBool(false)
		}
		return mkBool(x == yp)
	case Native:
		yn, ok := y.(Native)
		if !ok {
			if yp, isP := y.(*Value); isP && yp == nil {
				return mkBool(false)
			}
			return mkBool(false)
		}
		return mkBool(x.V == yn.V)
	case *Map:
		ym, _ := y.(*Map)
		return mkBool(x == ym)
	case []Value:
		// only comparable to nil
		ys, _ := y.([]Value)
		return mkBool(x == nil && ys == nil)
	case Iface:
		yi := y.(Iface)
		if x.T == nil || yi.T == nil {
			return mkBool(x.T == nil && yi.T == nil)
		}
		if !types.Identical(x.T, yi.T) {
			return mkBool(false)
		}
		if !types.Comparable(x.T) {
			in.tpanic("uncomparable", "runtime error: comparing uncomparable type "+x.T.String())
		}
		return in.equals(x.T, x.V, yi.V)
	case RT:
		yr, ok := y.(RT)
		if !ok {
			return mkBool(false)
		}
		return mkBool(types.Identical(x.T, yr.T))
	case Struct:
		ys := y.(Struct)
		st := t.Underlying().(*types.Struct)
		conj := []*Term{}
		for i := range x {
			if st.Field(i).Name() == "_" {
				continue
			}
			b := in.equals(st.Field(i).Type(), x[i], ys[i])
			if b.S == nil && !b.C {
				return mkBool(false)
			}
			conj = append(conj, b.Term())
		}
		return symBool(And(conj...))
	case Array:
		ya := y.(Array)
		et := t.Underlying().(*types.Array).Elem()
		conj := []*Term{}
		for i := range x {
			b := in.equals(et, x[i], ya[i])
			if b.S == nil && !b.C {
				return mkBool(false)
			}
			conj = append(conj, b.Term())
		}
		return symBool(And(conj...))
	case *ssa.Function:
		yf, _ := y.(*ssa.Function)
		return mkBool(x == yf)
	case *Closure:
		yc, _ := y.(*Closure)
		return mkBool(x == yc)
	case *NativeFn:
		yc, _ := y.(*NativeFn)
		return mkBool(x == yc)
	case UnsafePtr:
		yu := y.(UnsafePtr)
		return mkBool(x.P == yu.P)
	case RV:
		// reflect.Value compared as struct: identical only if same backing
		yr, ok := y.(RV)
		if !ok {
			return mkBool(false)
		}
		return mkBool(x.T == nil && yr.T == nil)
	case nil:
		return mkBool(y == nil)
	}
	panic(engineErr(fmt.Sprintf("equals: unhandled %T", x)))
}

func (in *Interp) typeAssert(instr *ssa.TypeAssert, itf Iface) Value {
	var v Value
	err := ""
	if idst, ok := instr.AssertedType.Underlying().(*types.Interface); ok {
		v = itf
		if itf.T == nil {
			err = "interface conversion: interface is nil, not " + instr.AssertedType.String()
		} else if _, isRT := itf.V.(RT); isRT {
			// reflect.Type implements only reflect.Type-like interfaces
			if idst.NumMethods() > 0 && !isNamed(instr.AssertedType, "reflect", "Type") {
				err = "interface conversion: *reflect.rtype does not implement " + instr.AssertedType.String()
			}
		} else if meth, _ := types.MissingMethod(itf.T, idst, true); meth != nil {
			err = fmt.Sprintf("interface conversion: %v is not %v: missing method %s", itf.T, idst, meth.Name())
		}
	} else if itf.T != nil && types.Identical(itf.T, instr.AssertedType) {
		v = copyVal(itf.V)
	} else {
		err = fmt.Sprintf("interface conversion: interface is %v, not %v", itf.T, instr.AssertedType)
	}
	if err != "" {
		if !instr.CommaOk {
			in.tpanic("type-assert", err)
		}
		return Tuple{zero(instr.AssertedType), mkBool(false)}
	}
	if instr.CommaOk {
		return Tuple{v, mkBool(true)}
	}
	return v
}

// conv implements Convert.
func (in *Interp) conv(tdst, tsrc types.Type, x Value) Value {
	ud := tdst.Underlying()
	us := tsrc.Underlying()
	// pointers / unsafe
	switch d := ud.(type) {
	case *types.Pointer:
		if u, ok := x.(UnsafePtr); ok {
			if u.P == nil {
				return (*Value)(nil)
			}
			return u.P
		}
		return x
	case *types.Basic:
		if d.Kind() == types.UnsafePointer {
			if u, ok := x.(UnsafePtr); ok {
				return u
			}
			if i, ok := x.(Int); ok {
				_ = i
				panic(engineErr("uintptr -> unsafe.Pointer unsupported"))
			}
			return UnsafePtr{P: x}
		}
	case *types.Slice:
		// string -> []byte / []rune
		if s, ok := x.(Str); ok {
			ek, _ := basicKind(d.Elem())
			switch ek {
			case types.Uint8:
				return bytesToValues(s.bytes())
			case types.Int32:
				return in.strToRunes(s)
			}
		}
		return x
	}
	switch x := x.(type) {
	case Int:
		dk, ok := basicKind(tdst)
		if !ok {
			break
		}
		switch {
		case isIntKind(dk):
			return in.convInt(dk, x)
		case isFloatKind(dk):
			if x.S != nil {
				return symFloat(dk, FPFromBV(floatW(dk), x.S, kindSigned(x.K)))
			}
			var f float64
			if kindSigned(x.K) {
				f = float64(int64(x.C))
			} else {
				f = float64(x.C)
			}
			if dk == types.Float32 {
				f = float64(float32(f))
			}
			return Float{K: dk, C: f}
		case dk == types.String:
			// string(rune)
			if x.S != nil {
				panic(engineErr("string(symbolic rune)"))
			}
			r := rune(int64(x.C))
			if int64(x.C) < 0 || int64(x.C) > utf8.MaxRune {
				r = utf8.RuneError
			}
			return mkStr(string(r))
		case dk == types.UnsafePointer:
			panic(engineErr("int -> unsafe.Pointer"))
		}
	case Float:
		dk, ok := basicKind(tdst)
		if !ok {
			break
		}
		switch {
		case isFloatKind(dk):
			if x.S != nil {
				return symFloat(dk, FPToFP(floatW(dk), x.S))
			}
			f := x.C
			if dk == types.Float32 {
				f = float64(float32(f))
			}
			return Float{K: dk, C: f}
		case isIntKind(dk):
			if x.S != nil {
				return symInt(dk, FPToBV(kindWidth(dk), x.S, kindSigned(dk)))
			}
			if kindSigned(dk) {
				return mkInt(dk, int64(x.C))
			}
			if x.C < 0 {
				return mkUint(dk, uint64(int64(x.C)))
			}
			return mkUint(dk, uint64(x.C))
		}
	case Str:
		if b, ok := ud.(*types.Basic); ok && b.Info()&types.IsString != 0 {
			return x
		}
	case []Value:
		if b, ok := ud.(*types.Basic); ok && b.Info()&types.IsString != 0 {
			ek, _ := basicKind(us.(*types.Slice).Elem())
			switch ek {
			case types.Uint8:
				return valuesToStr(x)
			case types.Int32:
				buf := make([]rune, len(x))
				for i, r := range x {
					ri := r.(Int)
					if ri.S != nil {
						panic(engineErr("string([]rune) with symbolic rune"))
					}
					buf[i] = rune(int64(ri.C))
				}
				return mkStr(string(buf))
			}
		}
	case Bool, Complex:
		return x
	case UnsafePtr:
		if dk, ok := basicKind(tdst); ok && dk == types.Uintptr {
			panic(engineErr("unsafe.Pointer -> uintptr unsupported"))
		}
	}
	if types.Identical(ud, us) {
		return x
	}
	panic(engineErr(fmt.Sprintf("conv %v -> %v (%T)", tsrc, tdst, x)))
}

func (in *Interp) convInt(dk types.BasicKind, x Int) Int {
	if x.S == nil {
		return mkUint(dk, x.C)
	}
	dw, sw := kindWidth(dk), kindWidth(x.K)
	switch {
	case dw == sw:
		return Int{K: dk, S: x.S}
	case dw < sw:
		return symInt(dk, Extract(dw-1, 0, x.S))
	case kindSigned(x.K):
		return symInt(dk, SExt(dw, x.S))
	default:
		return symInt(dk, ZExt(dw, x.S))
	}
}

var _ = math.Abs
