package main

import (
	"fmt"
	"math/rand"
	"regexp"
	"testing"
)

// Differential test of the positional matcher against the real regexp package on concrete inputs.
func TestPositionalMatcherAgainstRegexp(t *testing.T) {
	pats := []string{`\w+:"[^"]+"`, `@tag (.*)`, "`.+`$", `a*`, `(a|ab)(c|bcd)(d*)`, `x*y?`, `^\d+$`, `(\w+)@(\w+)`}
	alphabet := []byte("ab:\"` @tagxy1\n$c d_")
	in := &Interp{}
	in.ex = NewExplorer(nil)
	rng := rand.New(rand.NewSource(1))
	for _, p := range pats {
		re := regexp.MustCompile(p)
		for it := 0; it < 3000; it++ {
			n := rng.Intn(12)
			b := make([]byte, n)
			for i := range b {
				b[i] = alphabet[rng.Intn(len(alphabet))]
			}
			s := string(b)
			want := re.FindAllStringSubmatchIndex(s, -1)
			got := in.findAll(re, mkStr(s).bytes(), -1)
			if fmt.Sprint(want) != fmt.Sprint(got) && !(len(want) == 0 && len(got) == 0) {
				t.Fatalf("pattern %q input %q: regexp %v, matcher %v", p, s, want, got)
			}
			repl := []string{"X", "[$0]", "$1-$2", "${1}x", "$$", "$", "$x", "a$1b"}[rng.Intn(8)]
			wr := string(re.ReplaceAll([]byte(s), []byte(repl)))
			gr, _ := in.regexReplaceAll(re, mkStr(s), mkStr(repl)).Concrete()
			if wr != gr {
				t.Fatalf("pattern %q input %q repl %q: regexp %q, matcher %q", p, s, repl, wr, gr)
			}
		}
	}
}
