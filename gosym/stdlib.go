package main

// Standard-library surface: native-when-concrete wrappers, exact symbolic
// models over ropes, and nondeterministic/uninterpreted stubs.

import (
	"encoding/json"
	"fmt"
	"go/token"
	"go/types"
	"math"
	"net"
	"net/url"
	"os"
	"regexp"
	"strconv"
	"strings"
	"time"
	"unicode"
	"unicode/utf8"

	"golang.org/x/tools/go/ssa"
)

type intrinsicFn func(in *Interp, fr *frame, a []Value) Value

var intrinsics = map[string]intrinsicFn{}

type poolState struct{ items []Value }

type ufCall struct {
	args []Value
	res  []*Term
}

// uf returns result terms of an uninterpreted function application; equal
// arguments give equal results (Ackermann constraints added to the path).
func (in *Interp) uf(name string, args []Value, sorts []Sort) []*Term {
	n := len(in.ufCalls[name])
	res := make([]*Term, len(sorts))
	for i, s := range sorts {
		res[i] = Var(fmt.Sprintf("uf!%s!%d!%d", name, n, i), s)
	}
	for _, prev := range in.ufCalls[name] {
		same := TrueT
		for i := range args {
			same = And(same, in.valEq(args[i], prev.args[i]))
		}
		if same.IsFalse() {
			continue
		}
		eqs := TrueT
		for i := range res {
			eqs = And(eqs, Eq(res[i], prev.res[i]))
		}
		in.ex.assumeSoft(Implies(same, eqs))
	}
	in.ufCalls[name] = append(in.ufCalls[name], ufCall{args: args, res: res})
	return res
}

func (in *Interp) valEq(a, b Value) *Term {
	switch x := a.(type) {
	case Str:
		y := b.(Str)
		if x.hasAtoms() || y.hasAtoms() {
			if sameRope(x.norm(), y.norm()) {
				return TrueT
			}
			return FalseT // treated as distinct applications (sound: fewer constraints)
		}
		return in.strEq(x, y).Term()
	case Int:
		return Eq(x.Term(), b.(Int).Term())
	case Bool:
		return Eq(x.Term(), b.(Bool).Term())
	}
	return FalseT
}

// assumeSoft adds a constraint known to be satisfiable together with pc
// (constraints over fresh variables).
func (e *Explorer) assumeSoft(c *Term) {
	if c.IsTrue() {
		return
	}
	e.addPC(c)
	if v, ok := e.evalModel(c); !(ok && v) {
		e.modelOK = false
	}
}

func (in *Interp) newAtom(kind string, arg Value, charset string, minLen, maxLen int) Str {
	in.atomN++
	a := &Atom{id: in.atomN, Kind: kind, Arg: arg}
	a.add(charset)
	a.Len = Var(fmt.Sprintf("atomlen!%d", a.id), BV64)
	c := And(BVSle(BVC(64, uint64(minLen)), a.Len), BVSle(a.Len, BVC(64, uint64(maxLen))))
	in.ex.addPC(c)
	if in.ex.modelOK && in.ex.model != nil {
		in.ex.model[a.Len.Name] = MVal{U: uint64(minLen)}
	}
	return Str{segs: []Seg{{A: a}}}
}

func (in *Interp) itoa(v Int) Str {
	if v.S == nil {
		if kindSigned(v.K) {
			return mkStr(strconv.FormatInt(int64(v.C), 10))
		}
		return mkStr(strconv.FormatUint(v.C, 10))
	}
	if kindSigned(v.K) {
		return in.newAtom("itoa", v, "-0123456789", 1, 20)
	}
	return in.newAtom("utoa", v, "0123456789", 1, 20)
}

// mkError builds an *errors.errorString via the interpreted errors.New.
func (in *Interp) mkError(fr *frame, msg Str) Value {
	fn := in.prog.ImportedPackage("errors").Func("New")
	return in.callSSA(fr, 0, fn, []Value{msg}, nil)
}

func nilError() Value { return Iface{} }

// errorText calls Error() on an error interface value.
func (in *Interp) errorText(fr *frame, e Iface) Str {
	if e.T == nil {
		return mkStr("<nil>")
	}
	m := in.findMethod(e.T, "Error")
	if m == nil {
		panic(engineErr("no Error method on " + e.T.String()))
	}
	return in.call(fr, 0, m, []Value{e.V}).(Str)
}

// toNative converts a concrete value to a host Go value for fmt.
func (in *Interp) toNative(fr *frame, v Value) (interface{}, bool) {
	switch x := v.(type) {
	case Iface:
		if x.T == nil {
			return nil, true
		}
		if rv, isRV := x.V.(RV); isRV {
			// fmt prints the value a reflect.Value holds
			if rv.T == nil {
				return rawString("<invalid reflect.Value>"), true
			}
			return in.toNative(fr, Iface{T: rv.T, V: rv.get()})
		}
		// fmt: a nil pointer whose Error/String method has a value receiver prints as <nil> (fmt recovers the
		// nil dereference); a nil pointer with pointer-receiver methods has the method called
		if _, isPtr := x.T.Underlying().(*types.Pointer); isPtr {
			if p, ok := x.V.(*Value); ok && p == nil {
				ms := in.prog.MethodSets.MethodSet(x.T)
				for i := 0; i < ms.Len(); i++ {
					f, isF := ms.At(i).Obj().(*types.Func)
					if !isF || (f.Name() != "Error" && f.Name() != "String") {
						continue
					}
					if recv := f.Type().(*types.Signature).Recv(); recv != nil {
						if _, ptrRecv := recv.Type().(*types.Pointer); !ptrRecv {
							return rawString("<nil>"), true
						}
					}
				}
			}
		}
		if types.Implements(x.T, errorIface) {
			s, ok := in.errorText(fr, x).Concrete()
			if !ok {
				return nil, false
			}
			return fmt.Errorf("%s", s), true
		}
		if m := in.findMethod(x.T, "String"); m != nil && m.Signature.Params().Len() == 0 && m.Signature.Results().Len() == 1 {
			if b, ok := m.Signature.Results().At(0).Type().(*types.Basic); ok && b.Kind() == types.String {
				s, ok := in.call(fr, 0, m, []Value{x.V}).(Str).Concrete()
				if !ok {
					return nil, false
				}
				return rawString(s), true
			}
		}
		return in.toNative(fr, x.V)
	case Int:
		if x.S != nil {
			return nil, false
		}
		switch x.K {
		case types.Int:
			return int(int64(x.C)), true
		case types.Int8:
			return int8(x.C), true
		case types.Int16:
			return int16(x.C), true
		case types.Int32:
			return int32(x.C), true
		case types.Int64:
			return int64(x.C), true
		case types.Uint:
			return uint(x.C), true
		case types.Uint8:
			return uint8(x.C), true
		case types.Uint16:
			return uint16(x.C), true
		case types.Uint32:
			return uint32(x.C), true
		case types.Uint64:
			return x.C, true
		case types.Uintptr:
			return uintptr(x.C), true
		}
		return int64(x.C), true
	case Bool:
		if x.S != nil {
			return nil, false
		}
		return x.C, true
	case Float:
		if x.S != nil {
			return nil, false
		}
		if x.K == types.Float32 {
			return float32(x.C), true
		}
		return x.C, true
	case Str:
		s, ok := x.Concrete()
		return s, ok
	case []Value:
		if x == nil {
			return []interface{}(nil), true
		}
		out := make([]interface{}, len(x))
		for i, e := range x {
			n, ok := in.toNative(fr, e)
			if !ok {
				return nil, false
			}
			out[i] = n
		}
		return out, true
	case *Value:
		if x == nil {
			return nil, true
		}
		return fmt.Sprintf("%p", x), true
	case nil:
		return nil, true
	case *Map:
		out := map[interface{}]interface{}{}
		for _, e := range x.live() {
			k, ok1 := in.toNative(fr, e.k)
			v, ok2 := in.toNative(fr, e.v)
			if !ok1 || !ok2 {
				return nil, false
			}
			out[k] = v
		}
		return out, true
	case Struct:
		out := make([]interface{}, len(x))
		for i, e := range x {
			n, ok := in.toNative(fr, e)
			if !ok {
				return nil, false
			}
			out[i] = n
		}
		return structFmt(out), true
	}
	return nil, false
}

type rawString string

func (r rawString) String() string { return string(r) }

type structFmt []interface{}

func (s structFmt) Format(f fmt.State, c rune) {
	fmt.Fprint(f, "{")
	for i, e := range s {
		if i > 0 {
			fmt.Fprint(f, " ")
		}
		fmt.Fprintf(f, "%v", e)
	}
	fmt.Fprint(f, "}")
}

var errorIface = types.Universe.Lookup("error").Type().Underlying().(*types.Interface)

// sprintf: native when everything is concrete; otherwise supports %s/%v/%d of
// symbolic strings / ints by splicing ropes.
func (in *Interp) sprintf(fr *frame, format Str, args []Value) Str {
	f, ok := format.Concrete()
	if !ok {
		if len(args) == 0 {
			// no args: text is copied verbatim unless it contains '%'
			for _, b := range format.norm().segs {
				for _, x := range b.B {
					if x.S == nil && x.C == '%' {
						panic(engineErr("symbolic format string with %"))
					}
					if x.S != nil {
						in.ex.assume(Neq(x.S, BVC(8, '%')))
					}
				}
			}
			return format
		}
		panic(engineErr("symbolic format string"))
	}
	natives := make([]interface{}, len(args))
	allc := true
	for i, a := range args {
		n, ok := in.toNative(fr, a)
		if !ok {
			allc = false
			break
		}
		natives[i] = n
	}
	if allc {
		return mkStr(fmt.Sprintf(f, natives...))
	}
	// piecewise
	var out Str
	ai := 0
	for i := 0; i < len(f); {
		j := strings.IndexByte(f[i:], '%')
		if j < 0 {
			out = strConcat(out, mkStr(f[i:]))
			break
		}
		out = strConcat(out, mkStr(f[i:i+j]))
		i += j
		if i+1 >= len(f) {
			panic(engineErr("bad format"))
		}
		verb := f[i+1]
		i += 2
		if verb == '%' {
			out = strConcat(out, mkStr("%"))
			continue
		}
		if ai >= len(args) {
			panic(engineErr("format: missing arg"))
		}
		a := args[ai]
		ai++
		if n, ok := in.toNative(fr, a); ok {
			out = strConcat(out, mkStr(fmt.Sprintf("%"+string(verb), n)))
			continue
		}
		if verb == 'q' {
			out = strConcat(out, in.quoteSym(fr, a))
			continue
		}
		if verb != 's' && verb != 'v' && verb != 'd' {
			panic(engineErr("format verb on symbolic arg: " + string(verb)))
		}
		out = strConcat(out, in.symToStr(fr, a))
	}
	return out
}

// quoteSym: strconv.Quote of a string with symbolic bytes. Each symbolic byte forks over the classes
// Quote distinguishes for ASCII: backslash, double quote, other printable ASCII (copied); control bytes,
// DEL and bytes >= 0x80 (whose rendering depends on the surrounding UTF-8 sequence) end the path as unsupported.
func (in *Interp) quoteSym(fr *frame, a Value) Str {
	if itf, ok := a.(Iface); ok {
		a = itf.V
	}
	s, ok := a.(Str)
	if !ok {
		panic(engineErr(fmt.Sprintf("%%q on symbolic %T", a)))
	}
	s = s.norm()
	out := mkStr("\"")
	for _, g := range s.segs {
		if g.A != nil {
			out = strConcat(out, Str{segs: []Seg{g}}) // digits and signs: copied
			continue
		}
		for _, b := range g.B {
			if b.S == nil {
				q := strconv.Quote(string([]byte{b.C}))
				if b.C >= 0x80 {
					panic(engineErr("%q on a string mixing symbolic bytes and non-ASCII"))
				}
				out = strConcat(out, mkStr(q[1:len(q)-1]))
				continue
			}
			switch {
			case in.br(Eq(b.S, BVC(8, '\\'))):
				out = strConcat(out, mkStr("\\\\"))
			case in.br(Eq(b.S, BVC(8, '"'))):
				out = strConcat(out, mkStr("\\\""))
			case in.br(And(BVUle(BVC(8, 0x20), b.S), BVUle(b.S, BVC(8, 0x7e)))):
				out = strConcat(out, strOfBytes([]SByte{b}))
			default:
				panic(engineErr("%q on a symbolic control or non-ASCII byte"))
			}
		}
	}
	return strConcat(out, mkStr("\""))
}

func (in *Interp) symToStr(fr *frame, a Value) Str {
	switch x := a.(type) {
	case RV:
		return in.symToStr(fr, x.get())
	case Iface:
		if x.T != nil && types.Implements(x.T, errorIface) {
			return in.errorText(fr, x)
		}
		return in.symToStr(fr, x.V)
	case Str:
		return x
	case Int:
		return in.itoa(x)
	case Float:
		return in.ftoa(x, 64)
	case Bool:
		if in.brVal(x) {
			return mkStr("true")
		}
		return mkStr("false")
	}
	// %v of arrays and slices whose elements are strings, integers or booleans (directly or in interfaces):
	// "[e0 e1 ...]" -- fmt's rendering; anything else (floats use %g there, pointers print addresses, structs may
	// have String methods the value does not carry) stays unsupported
	var elems []Value
	switch x := a.(type) {
	case Array:
		elems = []Value(x)
	case []Value:
		elems = x
	default:
		panic(engineErr(fmt.Sprintf("symToStr %T", a)))
	}
	out := mkStr("[")
	for i, e := range elems {
		if i > 0 {
			out = strConcat(out, mkStr(" "))
		}
		if it, isI := e.(Iface); isI {
			if it.T == nil {
				out = strConcat(out, mkStr("<nil>"))
				continue
			}
			if _, named := it.T.(*types.Named); named {
				panic(engineErr("symToStr: element of a named type inside an interface"))
			}
			e = it.V
		}
		switch e.(type) {
		case Str, Int, Bool:
			out = strConcat(out, in.symToStr(fr, e))
		default:
			panic(engineErr(fmt.Sprintf("symToStr element %T", e)))
		}
	}
	return strConcat(out, mkStr("]"))
}

func (in *Interp) ftoa(f Float, bits int) Str {
	if f.S == nil {
		return mkStr(strconv.FormatFloat(f.C, 'f', -1, bits))
	}
	s := in.newAtom("ftoa", f, "-.0123456789NaInf+", 1, 400)
	s.segs[0].A.Bits = bits
	return s
}

func strArg(v Value) Str { return v.(Str) }

func boolTuple(vs ...Value) Tuple { return Tuple(vs) }

func (in *Interp) nativeRegexp(v Value) *regexp.Regexp {
	n, ok := v.(Native)
	if !ok {
		if p, isP := v.(*Value); isP && p == nil {
			in.tpanic("nil-deref", "nil *regexp.Regexp")
		}
		panic(engineErr(fmt.Sprintf("regexp receiver %T", v)))
	}
	return n.V.(*regexp.Regexp)
}

func builderBuf(in *Interp, v Value) *Value {
	p := v.(*Value)
	if p == nil {
		in.tpanic("nil-deref", "nil *strings.Builder")
	}
	st := (*p).(Struct)
	// strings.Builder{addr *Builder; buf []byte}: we keep a Str in the buf slot
	return &st[1]
}

func builderStr(in *Interp, v Value) Str {
	b := builderBuf(in, v)
	in.onRead(b)
	switch x := (*b).(type) {
	case Str:
		return x
	case []Value:
		return valuesToStr(x)
	}
	return Str{}
}

func init() {
	reg := func(name string, f intrinsicFn) { intrinsics[name] = f }

	// ---- strings ----
	reg("strings.Index", func(in *Interp, fr *frame, a []Value) Value { return in.strIndex(strArg(a[0]), strArg(a[1]), false) })
	reg("strings.LastIndex", func(in *Interp, fr *frame, a []Value) Value { return in.strIndex(strArg(a[0]), strArg(a[1]), true) })
	reg("strings.IndexByte", func(in *Interp, fr *frame, a []Value) Value {
		return in.strIndex(strArg(a[0]), strOfBytes([]SByte{sbyteOf(a[1])}), false)
	})
	reg("strings.Contains", func(in *Interp, fr *frame, a []Value) Value {
		i := in.strIndex(strArg(a[0]), strArg(a[1]), false)
		return mkBool(int64(i.C) >= 0)
	})
	reg("strings.HasPrefix", func(in *Interp, fr *frame, a []Value) Value {
		return mkBool(in.strHasPrefix(strArg(a[0]), strArg(a[1])))
	})
	reg("strings.HasSuffix", func(in *Interp, fr *frame, a []Value) Value {
		return mkBool(in.strHasSuffix(strArg(a[0]), strArg(a[1])))
	})
	reg("strings.TrimSuffix", func(in *Interp, fr *frame, a []Value) Value { return in.strTrimSuffix(strArg(a[0]), strArg(a[1])) })
	reg("strings.TrimPrefix", func(in *Interp, fr *frame, a []Value) Value { return in.strTrimPrefix(strArg(a[0]), strArg(a[1])) })
	reg("strings.Trim", func(in *Interp, fr *frame, a []Value) Value {
		return in.strTrim(strArg(a[0]), strArg(a[1]).mustConcrete(), true, true)
	})
	reg("strings.TrimLeft", func(in *Interp, fr *frame, a []Value) Value {
		return in.strTrim(strArg(a[0]), strArg(a[1]).mustConcrete(), true, false)
	})
	reg("strings.TrimRight", func(in *Interp, fr *frame, a []Value) Value {
		return in.strTrim(strArg(a[0]), strArg(a[1]).mustConcrete(), false, true)
	})
	reg("strings.TrimSpace", func(in *Interp, fr *frame, a []Value) Value {
		return in.strTrim(strArg(a[0]), " \t\n\v\f\r", true, true)
	})
	reg("strings.Split", func(in *Interp, fr *frame, a []Value) Value { return in.strSplit(strArg(a[0]), strArg(a[1])) })
	reg("strings.Join", func(in *Interp, fr *frame, a []Value) Value {
		parts := a[0].([]Value)
		ps := make([]Str, len(parts))
		for i, p := range parts {
			ps[i] = p.(Str)
		}
		return strJoin(ps, strArg(a[1]))
	})
	reg("strings.Repeat", func(in *Interp, fr *frame, a []Value) Value {
		n := asInt(a[1])
		var out Str
		for i := 0; i < n; i++ {
			out = strConcat(out, strArg(a[0]))
		}
		return out
	})
	reg("strings.ReplaceAll", func(in *Interp, fr *frame, a []Value) Value {
		s0, c0 := strArg(a[0]).Concrete()
		o0, c1 := strArg(a[1]).Concrete()
		n0, c2 := strArg(a[2]).Concrete()
		if c0 && c1 && c2 {
			return mkStr(strings.ReplaceAll(s0, o0, n0))
		}
		if c1 && o0 == "" {
			panic(engineErr("ReplaceAll with empty old and symbolic operands"))
		}
		// ReplaceAll(s, old, new) == Join(Split(s, old), new) for a non-empty old
		parts := in.strSplit(strArg(a[0]), strArg(a[1]))
		ps := make([]Str, len(parts))
		for i, p := range parts {
			ps[i] = p.(Str)
		}
		return strJoin(ps, strArg(a[2]))
	})
	// ToLower / ToUpper: concrete runs go through the real function (length-changing special cases included);
	// symbolic bytes are mapped as ASCII letters, a symbolic byte >= 0x80 ends the path as unsupported
	caseMap := func(in *Interp, s Str, lower bool) Str {
		if c, ok := s.Concrete(); ok {
			if lower {
				return mkStr(strings.ToLower(c))
			}
			return mkStr(strings.ToUpper(c))
		}
		var out Str
		var run []byte
		flush := func() {
			if len(run) > 0 {
				if lower {
					out = strConcat(out, mkStr(strings.ToLower(string(run))))
				} else {
					out = strConcat(out, mkStr(strings.ToUpper(string(run))))
				}
				run = nil
			}
		}
		for _, g := range s.norm().segs {
			if g.A != nil {
				flush()
				out = strConcat(out, Str{segs: []Seg{g}}) // digits and signs
				continue
			}
			for _, b := range g.B {
				if b.S == nil {
					run = append(run, b.C)
					continue
				}
				flush()
				if !in.br(BVUlt(b.S, BVC(8, 0x80))) {
					panic(engineErr("ToLower/ToUpper on a symbolic non-ASCII byte"))
				}
				lo, hi, delta := byte('A'), byte('Z'), uint64(32)
				if !lower {
					lo, hi, delta = 'a', 'z', uint64(0xE0) // -32 mod 256
				}
				isL := And(BVUle(BVC(8, uint64(lo)), b.S), BVUle(b.S, BVC(8, uint64(hi))))
				out = strConcat(out, strOfBytes([]SByte{{S: Ite(isL, BVAdd(b.S, BVC(8, delta)), b.S)}}))
			}
		}
		flush()
		return out
	}
	reg("strings.ToLower", func(in *Interp, fr *frame, a []Value) Value { return caseMap(in, strArg(a[0]), true) })
	reg("strings.ToUpper", func(in *Interp, fr *frame, a []Value) Value { return caseMap(in, strArg(a[0]), false) })

	// sort.Slice / sort.SliceStable: insertion sort through the caller's less (what package sort does for
	// fewer than 12 elements); longer slices must be concrete enough for less to decide without forking
	sortSlice := func(in *Interp, fr *frame, a []Value) Value {
		itf, ok := a[0].(Iface)
		if !ok || itf.T == nil {
			in.tpanic("explicit", "sort.Slice: nil slice interface")
		}
		sl, _ := itf.V.([]Value)
		less := func(i, j int) bool {
			r := in.call(fr, 0, a[1], []Value{goInt(i), goInt(j)})
			return in.brVal(r.(Bool))
		}
		for i := 1; i < len(sl); i++ {
			for j := i; j > 0 && less(j, j-1); j-- {
				sl[j], sl[j-1] = sl[j-1], sl[j]
			}
		}
		return nil
	}
	reg("sort.Slice", sortSlice)
	reg("sort.SliceStable", sortSlice)

	// package bytes on []byte values: the string models on the same bytes
	bstr := func(v Value) Str {
		sl, _ := v.([]Value)
		return valuesToStr(sl)
	}
	unb := func(s Str) Value { return bytesToValues(s.bytes()) }
	reg("bytes.Equal", func(in *Interp, fr *frame, a []Value) Value { return in.strEq(bstr(a[0]), bstr(a[1])) })
	reg("bytes.Index", func(in *Interp, fr *frame, a []Value) Value { return in.strIndex(bstr(a[0]), bstr(a[1]), false) })
	idxByte := func(last bool) intrinsicFn {
		return func(in *Interp, fr *frame, a []Value) Value {
			return in.strIndex(bstr(a[0]), strOfBytes([]SByte{sbyteOf(a[1])}), last)
		}
	}
	reg("bytes.IndexByte", idxByte(false))
	reg("bytes.LastIndexByte", idxByte(true))
	reg("internal/bytealg.IndexByte", idxByte(false))
	reg("internal/bytealg.IndexByteString", func(in *Interp, fr *frame, a []Value) Value {
		return in.strIndex(strArg(a[0]), strOfBytes([]SByte{sbyteOf(a[1])}), false)
	})
	reg("bytes.LastIndex", func(in *Interp, fr *frame, a []Value) Value { return in.strIndex(bstr(a[0]), bstr(a[1]), true) })
	reg("bytes.Contains", func(in *Interp, fr *frame, a []Value) Value {
		return intrinsics["strings.Contains"](in, fr, []Value{bstr(a[0]), bstr(a[1])})
	})
	reg("bytes.HasPrefix", func(in *Interp, fr *frame, a []Value) Value { return mkBool(in.strHasPrefix(bstr(a[0]), bstr(a[1]))) })
	reg("bytes.HasSuffix", func(in *Interp, fr *frame, a []Value) Value {
		return intrinsics["strings.HasSuffix"](in, fr, []Value{bstr(a[0]), bstr(a[1])})
	})
	reg("bytes.TrimSpace", func(in *Interp, fr *frame, a []Value) Value {
		return unb(intrinsics["strings.TrimSpace"](in, fr, []Value{bstr(a[0])}).(Str))
	})
	reg("bytes.Replace", func(in *Interp, fr *frame, a []Value) Value {
		n := asInt(a[3])
		s, old, nw := bstr(a[0]), bstr(a[1]), bstr(a[2])
		if n < 0 {
			return unb(intrinsics["strings.ReplaceAll"](in, fr, []Value{s, old, nw}).(Str))
		}
		if ob := old.bytes(); len(ob) == 0 {
			panic(engineErr("bytes.Replace with an empty old"))
		}
		parts := in.strSplit(s, old)
		out := parts[0].(Str)
		for i := 1; i < len(parts); i++ {
			if i <= n {
				out = strConcat(strConcat(out, nw), parts[i].(Str))
			} else {
				out = strConcat(strConcat(out, old), parts[i].(Str))
			}
		}
		return unb(out)
	})
	reg("bytes.ReplaceAll", func(in *Interp, fr *frame, a []Value) Value {
		return unb(intrinsics["strings.ReplaceAll"](in, fr, []Value{bstr(a[0]), bstr(a[1]), bstr(a[2])}).(Str))
	})
	reg("strings.Count", func(in *Interp, fr *frame, a []Value) Value {
		s0, c0 := strArg(a[0]).Concrete()
		o0, c1 := strArg(a[1]).Concrete()
		if c0 && c1 {
			return goInt(strings.Count(s0, o0))
		}
		if c1 && o0 == "" {
			panic(engineErr("Count with empty separator and symbolic operand"))
		}
		return goInt(len(in.strSplit(strArg(a[0]), strArg(a[1]))) - 1)
	})
	reg("strings.EqualFold", func(in *Interp, fr *frame, a []Value) Value {
		return mkBool(strings.EqualFold(strArg(a[0]).mustConcrete(), strArg(a[1]).mustConcrete()))
	})

	// strings.Builder: the buf field slot holds a Str rope.
	reg("(*strings.Builder).WriteString", func(in *Interp, fr *frame, a []Value) Value {
		b := builderBuf(in, a[0])
		cur := builderStr(in, a[0])
		in.onWrite(b)
		*b = strConcat(cur, strArg(a[1]))
		return Tuple{strArg(a[1]).LenVal(), nilError()}
	})
	reg("(*strings.Builder).WriteByte", func(in *Interp, fr *frame, a []Value) Value {
		b := builderBuf(in, a[0])
		cur := builderStr(in, a[0])
		in.onWrite(b)
		*b = strConcat(cur, strOfBytes([]SByte{sbyteOf(a[1])}))
		return nilError()
	})
	reg("(*strings.Builder).WriteRune", func(in *Interp, fr *frame, a []Value) Value {
		r := a[1].(Int)
		if r.S != nil {
			panic(engineErr("WriteRune symbolic"))
		}
		b := builderBuf(in, a[0])
		cur := builderStr(in, a[0])
		s := string(rune(int64(r.C)))
		in.onWrite(b)
		*b = strConcat(cur, mkStr(s))
		return Tuple{goInt(len(s)), nilError()}
	})
	reg("(*strings.Builder).Write", func(in *Interp, fr *frame, a []Value) Value {
		b := builderBuf(in, a[0])
		cur := builderStr(in, a[0])
		p := a[1].([]Value)
		in.onWrite(b)
		*b = strConcat(cur, valuesToStr(p))
		return Tuple{goInt(len(p)), nilError()}
	})
	reg("(*strings.Builder).String", func(in *Interp, fr *frame, a []Value) Value { return builderStr(in, a[0]) })
	reg("(*strings.Builder).Len", func(in *Interp, fr *frame, a []Value) Value { return builderStr(in, a[0]).LenVal() })
	reg("(*strings.Builder).Cap", func(in *Interp, fr *frame, a []Value) Value { return builderStr(in, a[0]).LenVal() })
	reg("(*strings.Builder).Grow", func(in *Interp, fr *frame, a []Value) Value {
		n := a[1].(Int)
		if n.S == nil && int64(n.C) < 0 {
			in.tpanic("explicit", "strings.Builder.Grow: negative count")
		}
		builderBuf(in, a[0])
		return nil
	})
	reg("(*strings.Builder).Reset", func(in *Interp, fr *frame, a []Value) Value {
		b := builderBuf(in, a[0])
		in.onWrite(b)
		*b = []Value(nil)
		return nil
	})

	// ---- strconv ----
	reg("strconv.Itoa", func(in *Interp, fr *frame, a []Value) Value { return in.itoa(a[0].(Int)) })
	reg("strconv.FormatInt", func(in *Interp, fr *frame, a []Value) Value {
		if asInt(a[1]) != 10 {
			return mkStr(strconv.FormatInt(int64(a[0].(Int).C), asInt(a[1])))
		}
		return in.itoa(a[0].(Int))
	})
	reg("strconv.FormatUint", func(in *Interp, fr *frame, a []Value) Value {
		if asInt(a[1]) != 10 {
			return mkStr(strconv.FormatUint(a[0].(Int).C, asInt(a[1])))
		}
		return in.itoa(a[0].(Int))
	})
	reg("strconv.AppendInt", func(in *Interp, fr *frame, a []Value) Value {
		s := in.itoa(a[1].(Int))
		dst := a[0].([]Value)
		if s.hasAtoms() {
			// cannot live in a []byte: return a marker slice holding the rope
			return append(dst[:len(dst):len(dst)], ropeInBytes{s})
		}
		return append(dst, bytesToValues(s.bytes())...)
	})
	reg("strconv.AppendUint", func(in *Interp, fr *frame, a []Value) Value {
		s := in.itoa(a[1].(Int))
		dst := a[0].([]Value)
		if s.hasAtoms() {
			return append(dst[:len(dst):len(dst)], ropeInBytes{s})
		}
		return append(dst, bytesToValues(s.bytes())...)
	})
	reg("strconv.AppendFloat", func(in *Interp, fr *frame, a []Value) Value {
		f := a[1].(Float)
		fm := byte(asInt(a[2]))
		prec := asInt(a[3])
		bits := asInt(a[4])
		dst := a[0].([]Value)
		if f.S == nil {
			return append(dst, bytesToValues(mkStr(strconv.FormatFloat(f.C, fm, prec, bits)).bytes())...)
		}
		s := in.ftoa(f, bits)
		return append(dst[:len(dst):len(dst)], ropeInBytes{s})
	})
	reg("strconv.FormatFloat", func(in *Interp, fr *frame, a []Value) Value {
		f := a[0].(Float)
		fm := byte(asInt(a[1]))
		prec := asInt(a[2])
		bits := asInt(a[3])
		if f.S == nil {
			return mkStr(strconv.FormatFloat(f.C, fm, prec, bits))
		}
		if fm != 'f' || prec != -1 {
			panic(engineErr("FormatFloat symbolic with unusual format"))
		}
		return in.ftoa(f, bits)
	})
	for _, n := range []string{"Index", "IndexByte", "HasPrefix", "HasSuffix", "TrimPrefix", "TrimSuffix"} {
		if f, ok := intrinsics["strings."+n]; ok {
			intrinsics["internal/stringslite."+n] = f
		}
	}
	reg("internal/stringslite.Clone", func(in *Interp, fr *frame, a []Value) Value { return a[0] })
	reg("strings.Clone", func(in *Interp, fr *frame, a []Value) Value { return a[0] })
	// ---- unicode predicates and go/token name classes: native on concrete arguments ----
	for name, f := range map[string]func(rune) bool{"unicode.IsUpper": unicode.IsUpper, "unicode.IsLower": unicode.IsLower, "unicode.IsLetter": unicode.IsLetter,
		"unicode.IsDigit": unicode.IsDigit, "unicode.IsSpace": unicode.IsSpace, "unicode.IsPunct": unicode.IsPunct, "unicode.IsPrint": unicode.IsPrint,
		"unicode.IsControl": unicode.IsControl, "unicode.IsNumber": unicode.IsNumber, "unicode.IsGraphic": unicode.IsGraphic} {
		name, f := name, f
		reg(name, func(in *Interp, fr *frame, a []Value) Value {
			r := a[0].(Int)
			if r.S != nil {
				panic(engineErr(name + " of a symbolic rune"))
			}
			return mkBool(f(rune(int64(r.C))))
		})
	}
	for name, f := range map[string]func(rune) rune{"unicode.ToLower": unicode.ToLower, "unicode.ToUpper": unicode.ToUpper, "unicode.ToTitle": unicode.ToTitle} {
		name, f := name, f
		reg(name, func(in *Interp, fr *frame, a []Value) Value {
			r := a[0].(Int)
			if r.S != nil {
				panic(engineErr(name + " of a symbolic rune"))
			}
			return mkInt(types.Int32, int64(f(rune(int64(r.C)))))
		})
	}
	reg("go/token.IsExported", func(in *Interp, fr *frame, a []Value) Value {
		return mkBool(token.IsExported(strArg(a[0]).mustConcrete()))
	})
	reg("go/ast.IsExported", func(in *Interp, fr *frame, a []Value) Value {
		return mkBool(token.IsExported(strArg(a[0]).mustConcrete()))
	})
	reg("go/token.IsIdentifier", func(in *Interp, fr *frame, a []Value) Value {
		return mkBool(token.IsIdentifier(strArg(a[0]).mustConcrete()))
	})
	reg("go/token.IsKeyword", func(in *Interp, fr *frame, a []Value) Value {
		return mkBool(token.IsKeyword(strArg(a[0]).mustConcrete()))
	})
	// ---- math (the bit-cast helpers go through unsafe pointers in the source) ----
	reg("math.Abs", func(in *Interp, fr *frame, a []Value) Value {
		f := a[0].(Float)
		if f.S == nil {
			return Float{K: f.K, C: math.Abs(f.C)}
		}
		t := f.S
		zero := FPC(floatW(f.K), 0)
		return symFloat(f.K, Ite(FPEq(t, zero), zero, Ite(FPLt(t, zero), FPNeg(t), t)))
	})
	concF := func(v Value, what string) float64 {
		f := v.(Float)
		if f.S != nil {
			panic(engineErr(what + " of a symbolic float"))
		}
		return f.C
	}
	concU := func(v Value, what string) uint64 {
		i := v.(Int)
		if i.S != nil {
			panic(engineErr(what + " of a symbolic integer"))
		}
		return i.C
	}
	reg("math.Float64bits", func(in *Interp, fr *frame, a []Value) Value {
		return Int{K: types.Uint64, C: math.Float64bits(concF(a[0], "Float64bits"))}
	})
	reg("math.Float32bits", func(in *Interp, fr *frame, a []Value) Value {
		return Int{K: types.Uint32, C: uint64(math.Float32bits(float32(concF(a[0], "Float32bits"))))}
	})
	reg("math.Float64frombits", func(in *Interp, fr *frame, a []Value) Value {
		return Float{K: types.Float64, C: math.Float64frombits(concU(a[0], "Float64frombits"))}
	})
	reg("math.Float32frombits", func(in *Interp, fr *frame, a []Value) Value {
		return Float{K: types.Float32, C: float64(math.Float32frombits(uint32(concU(a[0], "Float32frombits"))))}
	})
	for name, f := range map[string]func(float64) float64{"math.Floor": math.Floor, "math.Ceil": math.Ceil, "math.Trunc": math.Trunc, "math.Round": math.Round, "math.Sqrt": math.Sqrt, "math.Log10": math.Log10} {
		name, f := name, f
		reg(name, func(in *Interp, fr *frame, a []Value) Value {
			return Float{K: types.Float64, C: f(concF(a[0], name))}
		})
	}
	reg("strconv.FormatBool", func(in *Interp, fr *frame, a []Value) Value {
		if in.brVal(a[0].(Bool)) {
			return mkStr("true")
		}
		return mkStr("false")
	})
	reg("strconv.AppendQuote", func(in *Interp, fr *frame, a []Value) Value {
		dst := a[0].([]Value)
		return append(dst, bytesToValues(mkStr(strconv.Quote(strArg(a[1]).mustConcrete())).bytes())...)
	})
	reg("strconv.QuoteToASCII", func(in *Interp, fr *frame, a []Value) Value {
		return mkStr(strconv.QuoteToASCII(strArg(a[0]).mustConcrete()))
	})
	reg("strconv.Quote", func(in *Interp, fr *frame, a []Value) Value { return mkStr(strconv.Quote(strArg(a[0]).mustConcrete())) })
	reg("strconv.Atoi", func(in *Interp, fr *frame, a []Value) Value { return in.atoi(fr, strArg(a[0])) })
	// strconv.Parse*: the real functions on concrete text; ParseFloat of the decimal text of a symbolic
	// float64 rendered with bit size 64 is that float again (shortest round-trip text)
	errOrNil := func(in *Interp, fr *frame, err error) Value {
		if err != nil {
			return in.mkError(fr, mkStr(err.Error()))
		}
		return nilError()
	}
	reg("strconv.ParseFloat", func(in *Interp, fr *frame, a []Value) Value {
		s := strArg(a[0]).norm()
		bits := asInt(a[1])
		if c, ok := s.Concrete(); ok {
			f, err := strconv.ParseFloat(c, bits)
			return Tuple{Float{K: types.Float64, C: f}, errOrNil(in, fr, err)}
		}
		if len(s.segs) == 1 && s.segs[0].A != nil && s.segs[0].A.Kind == "ftoa" && s.segs[0].A.Bits == 64 && bits == 64 {
			f := s.segs[0].A.Arg.(Float)
			return Tuple{Float{K: types.Float64, C: f.C, S: f.S}, nilError()}
		}
		panic(engineErr("ParseFloat on symbolic text " + s.Debug()))
	})
	reg("strconv.ParseInt", func(in *Interp, fr *frame, a []Value) Value {
		n, err := strconv.ParseInt(strArg(a[0]).mustConcrete(), asInt(a[1]), asInt(a[2]))
		return Tuple{Int{K: types.Int64, C: uint64(n)}, errOrNil(in, fr, err)}
	})
	reg("strconv.ParseUint", func(in *Interp, fr *frame, a []Value) Value {
		n, err := strconv.ParseUint(strArg(a[0]).mustConcrete(), asInt(a[1]), asInt(a[2]))
		return Tuple{Int{K: types.Uint64, C: n}, errOrNil(in, fr, err)}
	})
	reg("strconv.ParseBool", func(in *Interp, fr *frame, a []Value) Value {
		b, err := strconv.ParseBool(strArg(a[0]).mustConcrete())
		return Tuple{Bool{C: b}, errOrNil(in, fr, err)}
	})

	// ---- fmt ----
	reg("fmt.Sprintf", func(in *Interp, fr *frame, a []Value) Value { return in.sprintf(fr, strArg(a[0]), a[1].([]Value)) })
	reg("fmt.Errorf", func(in *Interp, fr *frame, a []Value) Value {
		return in.mkError(fr, in.sprintf(fr, strArg(a[0]), a[1].([]Value)))
	})
	reg("fmt.Sprint", func(in *Interp, fr *frame, a []Value) Value {
		var out Str
		for _, x := range a[0].([]Value) {
			out = strConcat(out, in.sprintf(fr, mkStr("%v"), []Value{x}))
		}
		return out
	})
	reg("fmt.Println", func(in *Interp, fr *frame, a []Value) Value {
		var parts []Str
		for _, x := range a[0].([]Value) {
			parts = append(parts, in.sprintf(fr, mkStr("%v"), []Value{x}))
		}
		s := strConcat(strJoin(parts, mkStr(" ")), mkStr("\n"))
		in.output = strConcat(in.output, s)
		return Tuple{goInt(0), nilError()}
	})
	reg("fmt.Printf", func(in *Interp, fr *frame, a []Value) Value {
		in.output = strConcat(in.output, in.sprintf(fr, strArg(a[0]), a[1].([]Value)))
		return Tuple{goInt(0), nilError()}
	})
	reg("fmt.Print", func(in *Interp, fr *frame, a []Value) Value {
		for _, x := range a[0].([]Value) {
			in.output = strConcat(in.output, in.sprintf(fr, mkStr("%v"), []Value{x}))
		}
		return Tuple{goInt(0), nilError()}
	})

	// ---- sync ----
	noop := func(in *Interp, fr *frame, a []Value) Value { return nil }
	reg("(*sync.Mutex).Lock", func(in *Interp, fr *frame, a []Value) Value { in.lockOp(a[0], "Lock"); return nil })
	reg("(*sync.Mutex).Unlock", func(in *Interp, fr *frame, a []Value) Value { in.lockOp(a[0], "Unlock"); return nil })
	reg("(*sync.RWMutex).Lock", func(in *Interp, fr *frame, a []Value) Value { in.lockOp(a[0], "Lock"); return nil })
	reg("(*sync.RWMutex).Unlock", func(in *Interp, fr *frame, a []Value) Value { in.lockOp(a[0], "Unlock"); return nil })
	reg("(*sync.RWMutex).RLock", func(in *Interp, fr *frame, a []Value) Value { in.lockOp(a[0], "RLock"); return nil })
	reg("(*sync.RWMutex).RUnlock", func(in *Interp, fr *frame, a []Value) Value { in.lockOp(a[0], "RUnlock"); return nil })
	reg("(*sync.RWMutex).TryLock", func(in *Interp, fr *frame, a []Value) Value { return in.tryLockOp(a[0], "TryLock") })
	reg("(*sync.RWMutex).TryRLock", func(in *Interp, fr *frame, a []Value) Value { return in.tryLockOp(a[0], "TryRLock") })
	reg("(*sync.Mutex).TryLock", func(in *Interp, fr *frame, a []Value) Value { return in.tryLockOp(a[0], "TryLock") })
	reg("(*sync.WaitGroup).Add", func(in *Interp, fr *frame, a []Value) Value {
		in.threadMode().wgAdd(in, a[0].(*Value), asInt(a[1]))
		return nil
	})
	reg("(*sync.WaitGroup).Done", func(in *Interp, fr *frame, a []Value) Value {
		in.threadMode().wgAdd(in, a[0].(*Value), -1)
		return nil
	})
	reg("(*sync.WaitGroup).Wait", func(in *Interp, fr *frame, a []Value) Value {
		in.threadMode().wgWait(in, a[0].(*Value))
		return nil
	})
	reg("(*sync.Once).Do", func(in *Interp, fr *frame, a []Value) Value {
		p := a[0].(*Value)
		if !in.onces[p] {
			in.onces[p] = true
			in.call(fr, 0, a[1], nil)
		}
		return nil
	})
	reg("(*sync.Pool).Get", func(in *Interp, fr *frame, a []Value) Value { return in.poolGet(fr, a[0].(*Value)) })
	reg("(*sync.Pool).Put", func(in *Interp, fr *frame, a []Value) Value { in.poolPut(fr, a[0].(*Value), a[1]); return nil })
	_ = noop

	// ---- regexp ----
	reg("regexp.MustCompile", func(in *Interp, fr *frame, a []Value) Value {
		p := strArg(a[0]).mustConcrete()
		re, err := regexp.Compile(p)
		if err != nil {
			in.tpanic("explicit", "regexp: Compile("+strconv.Quote(p)+"): "+err.Error())
		}
		return Native{V: re}
	})
	compile := func(in *Interp, fr *frame, a []Value) Value {
		if p, ok := strArg(a[0]).Concrete(); ok {
			re, err := regexp.Compile(p)
			if err != nil {
				return Tuple{(*Value)(nil), in.mkError(fr, mkStr(err.Error()))}
			}
			return Tuple{Native{V: re}, nilError()}
		}
		// symbolic pattern: compiles or not (uninterpreted, refined against the real regexp.Compile)
		r := in.uf("regexp.Compile", []Value{a[0]}, []Sort{BoolSort})
		if in.br(r[0]) {
			return Tuple{Native{V: &symRegexp{pattern: strArg(a[0])}}, nilError()}
		}
		return Tuple{(*Value)(nil), in.mkError(fr, mkStr("error parsing regexp: <symbolic>"))}
	}
	reg("regexp.Compile", compile)
	reg("regexp.CompilePOSIX", compile)
	reg("regexp.MatchString", func(in *Interp, fr *frame, a []Value) Value {
		p, okp := strArg(a[0]).Concrete()
		s := strArg(a[1])
		if okp {
			re, err := regexp.Compile(p)
			if err != nil {
				return Tuple{mkBool(false), in.mkError(fr, mkStr(err.Error()))}
			}
			return Tuple{in.regexMatch(re, s), nilError()}
		}
		// symbolic pattern: uninterpreted (matched, errIsNil)
		r := in.uf("regexp.MatchString", []Value{a[0], a[1]}, []Sort{BoolSort, BoolSort})
		if in.br(r[1]) {
			return Tuple{symBool(r[0]), nilError()}
		}
		return Tuple{mkBool(false), in.mkError(fr, mkStr("error parsing regexp: <symbolic>"))}
	})
	reg("(*regexp.Regexp).MatchString", func(in *Interp, fr *frame, a []Value) Value {
		if n, ok := a[0].(Native); ok {
			if sr, isSym := n.V.(*symRegexp); isSym {
				r := in.uf("regexp.MatchString", []Value{sr.pattern, a[1]}, []Sort{BoolSort, BoolSort})
				return symBool(r[0])
			}
		}
		return in.regexMatch(in.nativeRegexp(a[0]), strArg(a[1]))
	})
	reg("(*regexp.Regexp).FindAllString", func(in *Interp, fr *frame, a []Value) Value {
		re := in.nativeRegexp(a[0])
		if s, ok := strArg(a[1]).Concrete(); ok {
			res := re.FindAllString(s, asInt(a[2]))
			if res == nil {
				return []Value(nil)
			}
			out := make([]Value, len(res))
			for i, r := range res {
				out[i] = mkStr(r)
			}
			return out
		}
		return in.regexFindAllString(re, strArg(a[1]), asInt(a[2]))
	})
	reg("(*regexp.Regexp).FindStringSubmatch", func(in *Interp, fr *frame, a []Value) Value {
		re := in.nativeRegexp(a[0])
		if s, ok := strArg(a[1]).Concrete(); ok {
			res := re.FindStringSubmatch(s)
			if res == nil {
				return []Value(nil)
			}
			out := make([]Value, len(res))
			for i, r := range res {
				out[i] = mkStr(r)
			}
			return out
		}
		return in.regexFindStringSubmatch(re, strArg(a[1]))
	})
	reg("(*regexp.Regexp).ReplaceAll", func(in *Interp, fr *frame, a []Value) Value {
		re := in.nativeRegexp(a[0])
		src := valuesToStr(a[1].([]Value))
		repl := valuesToStr(a[2].([]Value))
		cs, ok1 := src.Concrete()
		cr, ok2 := repl.Concrete()
		if ok1 && ok2 {
			return bytesToValues(mkStr(string(re.ReplaceAll([]byte(cs), []byte(cr)))).bytes())
		}
		return bytesToValues(in.regexReplaceAll(re, src, repl).bytes())
	})
	reg("(*regexp.Regexp).ReplaceAllLiteral", func(in *Interp, fr *frame, a []Value) Value {
		re := in.nativeRegexp(a[0])
		src := valuesToStr(a[1].([]Value))
		repl := valuesToStr(a[2].([]Value))
		cs, ok1 := src.Concrete()
		cr, ok2 := repl.Concrete()
		if ok1 && ok2 {
			return bytesToValues(mkStr(string(re.ReplaceAllLiteral([]byte(cs), []byte(cr)))).bytes())
		}
		bs := src.bytes()
		var out []SByte
		last := 0
		for _, m := range in.findAll(re, bs, -1) {
			out = append(out, bs[last:m[0]]...)
			out = append(out, repl.bytes()...)
			last = m[1]
		}
		out = append(out, bs[last:]...)
		return bytesToValues(out)
	})
	reg("(*regexp.Regexp).String", func(in *Interp, fr *frame, a []Value) Value { return mkStr(in.nativeRegexp(a[0]).String()) })

	// ---- time / net / json / os / url: contracts ----
	reg("time.Parse", func(in *Interp, fr *frame, a []Value) Value {
		layout, ok1 := strArg(a[0]).Concrete()
		val, ok2 := strArg(a[1]).Concrete()
		tt := in.prog.ImportedPackage("time").Type("Time").Type()
		if ok1 && ok2 {
			_, err := time.Parse(layout, val)
			in.event("time.Parse", mkStr(layout), mkStr(val))
			if err != nil {
				return Tuple{zero(tt), in.mkError(fr, mkStr(err.Error()))}
			}
			return Tuple{zero(tt), nilError()}
		}
		in.event("time.Parse", a[0], a[1])
		r := in.uf("time.Parse", []Value{a[0], a[1]}, []Sort{BoolSort})
		if ok1 {
			// documented syntax of a fixed-width layout: success => same length, digits under
			// 2006/01/02/15/04/05, literal bytes elsewhere (semantic validity stays uninterpreted)
			if nec, suf, fixed := timeLayoutNecessary(layout, strArg(a[1])); fixed {
				in.ex.assumeSoft(Implies(r[0], nec))
				in.ex.assumeSoft(Implies(suf, r[0]))
			}
		}
		if in.br(r[0]) {
			return Tuple{zero(tt), nilError()}
		}
		return Tuple{zero(tt), in.mkError(fr, mkStr("parsing time: <symbolic>"))}
	})
	reg("net.ParseIP", func(in *Interp, fr *frame, a []Value) Value {
		if s, ok := strArg(a[0]).Concrete(); ok {
			ip := net.ParseIP(s)
			if ip == nil {
				return []Value(nil)
			}
			return bytesToValues(mkStr(string(ip)).bytes())
		}
		// contract: nil, or a 16-byte address that is 4-in-6 or not (class symbolic)
		r := in.uf("net.ParseIP", []Value{a[0]}, []Sort{BV(2)})
		in.ex.assumeSoft(Implies(Neq(r[0], BVC(2, 0)), ipNecessary(strArg(a[0]))))
		in.ex.assumeSoft(Neq(r[0], BVC(2, 3)))
		if ex := ipExactShort(strArg(a[0])); ex != nil {
			in.ex.assumeSoft(Eq(r[0], ex))
		}
		switch {
		case in.br(Eq(r[0], BVC(2, 0))):
			return []Value(nil)
		case in.br(Eq(r[0], BVC(2, 1))):
			return bytesToValues(mkStr(string(net.ParseIP("1.2.3.4"))).bytes())
		default:
			in.ex.assume(Eq(r[0], BVC(2, 2)))
			return bytesToValues(mkStr(string(net.ParseIP("2001:db8::1"))).bytes())
		}
	})
	reg("(net.IP).To4", func(in *Interp, fr *frame, a []Value) Value {
		b := a[0].([]Value)
		raw := make([]byte, len(b))
		for i, x := range b {
			raw[i] = byte(x.(Int).C)
		}
		r := net.IP(raw).To4()
		if r == nil {
			return []Value(nil)
		}
		return bytesToValues(mkStr(string(r)).bytes())
	})
	reg("encoding/json.Valid", func(in *Interp, fr *frame, a []Value) Value {
		s := valuesToStr(a[0].([]Value))
		if c, ok := s.Concrete(); ok {
			return mkBool(json.Valid([]byte(c)))
		}
		r := in.uf("json.Valid", []Value{s}, []Sort{BoolSort})
		if ex := jsonExactShort(s); ex != nil {
			in.ex.assumeSoft(Eq(r[0], ex))
		}
		return symBool(r[0])
	})
	reg("os.Stat", func(in *Interp, fr *frame, a []Value) Value {
		p := strArg(a[0])
		if in.fs != nil {
			return in.fs.stat(in, fr, p)
		}
		if c, ok := p.Concrete(); ok {
			// native-when-concrete: the host file system (same sandbox as the native replay)
			fi, err := os.Stat(c)
			if err != nil {
				return Tuple{Iface{}, in.mkError(fr, mkStr(err.Error()))}
			}
			return Tuple{Iface{T: fileInfoMarker, V: Native{V: fakeFileInfo{dir: fi.IsDir()}}}, nilError()}
		}
		// nondeterministic: error | file | dir
		r := in.uf("os.Stat", []Value{p}, []Sort{BV(2)})
		switch {
		case in.br(Eq(r[0], BVC(2, 0))):
			return Tuple{Iface{}, in.mkError(fr, strConcat(mkStr("stat "), strConcat(p, mkStr(": no such file or directory"))))}
		case in.br(Eq(r[0], BVC(2, 1))):
			return Tuple{Iface{T: fileInfoMarker, V: Native{V: fakeFileInfo{dir: false}}}, nilError()}
		default:
			in.ex.assume(Eq(r[0], BVC(2, 2)))
			return Tuple{Iface{T: fileInfoMarker, V: Native{V: fakeFileInfo{dir: true}}}, nilError()}
		}
	})
	reg("net/url.QueryUnescape", func(in *Interp, fr *frame, a []Value) Value {
		s := strArg(a[0])
		if c, ok := s.Concrete(); ok {
			r, err := url.QueryUnescape(c)
			if err != nil {
				return Tuple{mkStr(""), in.mkError(fr, mkStr(err.Error()))}
			}
			return Tuple{mkStr(r), nilError()}
		}
		return in.queryUnescape(fr, s)
	})
	reg("net/url.QueryEscape", func(in *Interp, fr *frame, a []Value) Value {
		return mkStr(url.QueryEscape(strArg(a[0]).mustConcrete()))
	})

	// unicode/utf8
	reg("unicode/utf8.DecodeRuneInString", func(in *Interp, fr *frame, a []Value) Value {
		bs := strArg(a[0]).bytes()
		if len(bs) == 0 {
			return Tuple{mkInt(types.Int32, int64(utf8.RuneError)), goInt(0)}
		}
		r, w := in.decodeRune(bs, 0)
		return Tuple{r, goInt(w)}
	})
	reg("unicode/utf8.DecodeLastRuneInString", func(in *Interp, fr *frame, a []Value) Value {
		// utf8.DecodeLastRuneInString, step by step
		bs := strArg(a[0]).bytes()
		end := len(bs)
		if end == 0 {
			return Tuple{mkInt(types.Int32, int64(utf8.RuneError)), goInt(0)}
		}
		start := end - 1
		if in.byteIn(bs[start], 0x00, 0x7F) {
			return Tuple{symInt(types.Int32, ZExt(32, bs[start].Term())), goInt(1)}
		}
		lim := end - utf8.UTFMax
		if lim < 0 {
			lim = 0
		}
		for start--; start >= lim; start-- {
			if !in.byteIn(bs[start], 0x80, 0xBF) { // utf8.RuneStart
				break
			}
		}
		if start < 0 {
			start = 0
		}
		r, w := in.decodeRune(bs[:end], start)
		if start+w != end {
			return Tuple{mkInt(types.Int32, int64(utf8.RuneError)), goInt(1)}
		}
		return Tuple{r, goInt(w)}
	})
	reg("unicode/utf8.RuneCountInString", func(in *Interp, fr *frame, a []Value) Value { return goInt(len(in.strToRunes(strArg(a[0])))) })
	reg("unicode/utf8.RuneCount", func(in *Interp, fr *frame, a []Value) Value { return goInt(len(in.strToRunes(bstr(a[0])))) })
	reg("unicode/utf8.Valid", func(in *Interp, fr *frame, a []Value) Value {
		s := bstr(a[0])
		if c, ok := s.Concrete(); ok {
			return mkBool(utf8.ValidString(c))
		}
		return symBool(validUTF8Term(s.bytes()))
	})
	reg("unicode/utf8.ValidString", func(in *Interp, fr *frame, a []Value) Value {
		s := strArg(a[0])
		if c, ok := s.Concrete(); ok {
			return mkBool(utf8.ValidString(c))
		}
		return symBool(validUTF8Term(s.bytes()))
	})

	// os (misc)
	reg("os.Getenv", func(in *Interp, fr *frame, a []Value) Value { return mkStr("") })
}

type fakeFileInfo struct {
	name string
	dir  bool
	link bool
	size int64
}

// symRegexp: a *regexp.Regexp compiled from a symbolic pattern (opaque; matching is uninterpreted)
type symRegexp struct{ pattern Str }

var fileInfoMarker types.Type

// ropeInBytes: a rope carried inside a []byte produced by strconv.Append* of
// a symbolic number; only Builder.Write / string() consume it.
type ropeInBytes struct{ s Str }

func (in *Interp) atoi(fr *frame, s Str) Value {
	s = s.norm()
	if c, ok := s.Concrete(); ok {
		n, err := strconv.Atoi(c)
		if err != nil {
			return Tuple{goInt(n), in.mkError(fr, mkStr(err.Error()))}
		}
		return Tuple{goInt(n), nilError()}
	}
	if len(s.segs) == 1 && s.segs[0].A != nil {
		a := s.segs[0].A
		if a.Kind == "itoa" {
			if iv := a.Arg.(Int); kindWidth(iv.K) == 64 {
				return Tuple{Int{K: types.Int, S: iv.S, C: iv.C}, nilError()}
			}
		}
		panic(engineErr("Atoi on non-int atom"))
	}
	if s.hasAtoms() {
		// e.g. "-"+itoa(x) or digits around an atom: syntactically it could be
		// valid; we do not model it.
		panic(engineErr("Atoi on mixed atom text " + s.Debug()))
	}
	bs := s.bytes()
	synErr := func() Value {
		return Tuple{goInt(0), in.mkError(fr, strConcat(mkStr("strconv.Atoi: parsing \""), strConcat(s, mkStr("\": invalid syntax"))))}
	}
	if len(bs) == 0 {
		return synErr()
	}
	if len(bs) > 18 {
		panic(engineErr("Atoi on symbolic text longer than 18 bytes"))
	}
	i := 0
	neg := false
	isB := func(b SByte, c byte) bool {
		if b.S == nil {
			return b.C == c
		}
		return in.br(Eq(b.S, BVC(8, uint64(c))))
	}
	if isB(bs[0], '-') {
		neg = true
		i = 1
	} else if isB(bs[0], '+') {
		i = 1
	}
	if i == len(bs) {
		return synErr()
	}
	n := BVC(64, 0)
	for ; i < len(bs); i++ {
		if !in.byteIn(bs[i], '0', '9') {
			return synErr()
		}
		d := BVSub(ZExt(64, bs[i].Term()), BVC(64, '0'))
		n = BVAdd(BVMul(n, BVC(64, 10)), d)
	}
	if neg {
		n = BVNeg(n)
	}
	return Tuple{symInt(types.Int, n), nilError()}
}

// queryUnescape models url.QueryUnescape on symbolic text exactly for '+'
// and bytes other than '%'; a '%' in symbolic position forks to the error /
// unsupported path.
func (in *Interp) queryUnescape(fr *frame, s Str) Value {
	bs := s.bytes()
	out := make([]SByte, 0, len(bs))
	isHex := func(b SByte) bool {
		if b.S == nil {
			c := b.C
			return ('0' <= c && c <= '9') || ('a' <= c && c <= 'f') || ('A' <= c && c <= 'F')
		}
		return in.br(Or(
			And(BVUle(BVC(8, '0'), b.S), BVUle(b.S, BVC(8, '9'))),
			And(BVUle(BVC(8, 'a'), b.S), BVUle(b.S, BVC(8, 'f'))),
			And(BVUle(BVC(8, 'A'), b.S), BVUle(b.S, BVC(8, 'F')))))
	}
	hexVal := func(b SByte) *Term {
		t := ZExt(8, b.Term())
		return Ite(BVUle(t, BVC(8, '9')), BVSub(t, BVC(8, '0')),
			Ite(BVUle(t, BVC(8, 'F')), BVSub(t, BVC(8, 'A'-10)), BVSub(t, BVC(8, 'a'-10))))
	}
	for i := 0; i < len(bs); i++ {
		b := bs[i]
		isPct := false
		if b.S == nil {
			isPct = b.C == '%'
		} else {
			isPct = in.br(Eq(b.S, BVC(8, '%')))
		}
		if isPct {
			if i+2 >= len(bs) || !isHex(bs[i+1]) || !isHex(bs[i+2]) {
				return Tuple{mkStr(""), in.mkError(fr, mkStr("invalid URL escape"))}
			}
			v := BVOr(bvBin("bvshl", hexVal(bs[i+1]), BVC(8, 4)), hexVal(bs[i+2]))
			if v.IsConst() {
				out = append(out, SByte{C: byte(v.Val)})
			} else {
				out = append(out, SByte{S: v})
			}
			i += 2
			continue
		}
		if b.S == nil {
			if b.C == '+' {
				out = append(out, SByte{C: ' '})
			} else {
				out = append(out, b)
			}
			continue
		}
		out = append(out, SByte{S: Ite(Eq(b.S, BVC(8, '+')), BVC(8, ' '), b.S)})
	}
	return Tuple{strOfBytes(out), nilError()}
}

// ---- pools ----

func (in *Interp) poolGet(fr *frame, p *Value) Value {
	st := in.pools[p]
	if st == nil {
		st = &poolState{}
		in.pools[p] = st
	}
	n := len(st.items)
	pick := -1
	if n > 0 {
		switch in.poolMode {
		case "adversarial":
			// any previously Put object, or a fresh one; objects in the same state are interchangeable,
			// so only one representative per distinct state is offered (symmetry reduction)
			var reps []int
			seen := map[string]bool{}
			for i := n - 1; i >= 0; i-- {
				k := stateKey(st.items[i], 4)
				if !seen[k] {
					seen[k] = true
					reps = append(reps, i)
				}
			}
			c := in.ex.choose("pool.Get", make([]*Term, len(reps)+1))
			if c > 0 {
				pick = reps[c-1]
			}
		default: // "lifo": most recently Put (what a single P does without GC)
			pick = n - 1
		}
	}
	if pick >= 0 {
		it := st.items[pick]
		st.items = append(st.items[:pick:pick], st.items[pick+1:]...)
		in.event("pool.Get.reuse")
		in.onPoolGet(it)
		return it
	}
	// New
	pool := (*p).(Struct)
	newFn := pool[len(pool)-1]
	if isNilFunc(newFn) {
		return Iface{}
	}
	if f, ok := newFn.(*ssa.Function); ok && f == nil {
		return Iface{}
	}
	return in.call(fr, 0, newFn, nil)
}

func (in *Interp) poolPut(fr *frame, p *Value, x Value) {
	st := in.pools[p]
	if st == nil {
		st = &poolState{}
		in.pools[p] = st
	}
	if itf, ok := x.(Iface); ok && itf.T == nil {
		return
	}
	in.onPoolPut(x)
	st.items = append(st.items, x)
}

var _ = os.Stat

// findMethod looks up an exported method by name in T's method set.
func (in *Interp) findMethod(T types.Type, name string) *ssa.Function {
	ms := in.prog.MethodSets.MethodSet(T)
	for i := 0; i < ms.Len(); i++ {
		sel := ms.At(i)
		if sel.Obj().Name() == name {
			return in.prog.MethodValue(sel)
		}
	}
	return nil
}

// ---- lazy refinement of uninterpreted stubs ----
//
// A stub result is a free variable (plus congruence). When the solver returns a
// model, the arguments of every stub call are evaluated under that model and the
// real function is run on them inside the executor; if the model's result
// differs, the true fact "these argument bytes => this result" is added to the
// path condition and the query is repeated. Counterexamples therefore never rest
// on a result the real function cannot produce for the model's own inputs.

var ufReal = map[string]func(args []string) []uint64{
	"time.Parse": func(a []string) []uint64 {
		_, err := time.Parse(a[0], a[1])
		return []uint64{b2u(err == nil)}
	},
	"net.ParseIP": func(a []string) []uint64 {
		ip := net.ParseIP(a[0])
		switch {
		case ip == nil:
			return []uint64{0}
		case ip.To4() != nil:
			return []uint64{1}
		}
		return []uint64{2}
	},
	"json.Valid": func(a []string) []uint64 { return []uint64{b2u(json.Valid([]byte(a[0])))} },
	"regexp.Compile": func(a []string) []uint64 {
		_, err := regexp.Compile(a[0])
		return []uint64{b2u(err == nil)}
	},
	"regexp.MatchString": func(a []string) []uint64 {
		m, err := regexp.MatchString(a[0], a[1])
		return []uint64{b2u(m), b2u(err == nil)}
	},
}

// strUnderModel evaluates a rope without atoms under m.
func strUnderModel(v Value, m Model) (string, *Term, bool) {
	s, ok := v.(Str)
	if !ok || s.hasAtoms() {
		return "", nil, false
	}
	bs := s.bytes()
	out := make([]byte, len(bs))
	var conj []*Term
	for i, b := range bs {
		if b.S == nil {
			out[i] = b.C
			continue
		}
		mv, ok := m.Eval(b.S)
		if !ok {
			return "", nil, false
		}
		out[i] = byte(mv.U)
		conj = append(conj, Eq(b.S, BVC(8, mv.U)))
	}
	return string(out), And(conj...), true
}

// refineStubs returns true facts contradicting m's stub results (empty: m is consistent with the real functions).
func (in *Interp) refineStubs(m Model) []*Term {
	var out []*Term
	for name, calls := range in.ufCalls {
		real := ufReal[name]
		if real == nil {
			continue
		}
		for _, c := range calls {
			args := make([]string, len(c.args))
			cond := TrueT
			ok := true
			for i, a := range c.args {
				s, t, k := strUnderModel(a, m)
				if !k {
					ok = false
					break
				}
				args[i] = s
				cond = And(cond, t)
			}
			if !ok {
				continue
			}
			want := real(args)
			same := true
			eqs := TrueT
			for i, r := range c.res {
				mv, k := m.Eval(r)
				if !k || mv.U != want[i] {
					same = false
				}
				if r.Sort.K == SBool {
					eqs = And(eqs, Eq(r, BoolC(want[i] != 0)))
				} else {
					eqs = And(eqs, Eq(r, BVC(r.Sort.W, want[i])))
				}
			}
			if !same {
				out = append(out, Implies(cond, eqs))
			}
		}
	}
	return out
}

// timeLayoutNecessary: for a layout made only of the fixed-width tokens 2006 01 02 15 04 05 and
// literal bytes: a necessary condition (syntax) and a sufficient condition (syntax + month 01..12,
// day 01..28, hour <= 23, minute/second <= 59) for time.Parse(layout, val) to succeed. Days 29..31
// stay uninterpreted (they depend on month and leap years).
func timeLayoutNecessary(layout string, val Str) (nec, suf *Term, fixed bool) {
	if val.hasAtoms() {
		return nil, nil, false
	}
	type piece struct {
		digits int
		kind   byte // 'y','m','d','H','M','S'
		lit    byte
	}
	var ps []piece
	for i := 0; i < len(layout); {
		rest := layout[i:]
		switch {
		case strings.HasPrefix(rest, "2006"):
			ps = append(ps, piece{digits: 4, kind: 'y'})
			i += 4
		case strings.HasPrefix(rest, "01"):
			ps = append(ps, piece{digits: 2, kind: 'm'})
			i += 2
		case strings.HasPrefix(rest, "02"):
			ps = append(ps, piece{digits: 2, kind: 'd'})
			i += 2
		case strings.HasPrefix(rest, "15"):
			ps = append(ps, piece{digits: 2, kind: 'H'})
			i += 2
		case strings.HasPrefix(rest, "04"):
			ps = append(ps, piece{digits: 2, kind: 'M'})
			i += 2
		case strings.HasPrefix(rest, "05"):
			ps = append(ps, piece{digits: 2, kind: 'S'})
			i += 2
		default:
			c := layout[i]
			if (c >= '0' && c <= '9') || (c >= 'A' && c <= 'Z') || (c >= 'a' && c <= 'z') || c == '_' {
				return nil, nil, false // could start another layout token: not handled
			}
			if (c == '.' || c == ',') && i+1 < len(layout) && (layout[i+1] == '0' || layout[i+1] == '9') {
				// fractional seconds (.000 / .999) unless the run of 0s/9s is followed by another digit
				j := i + 1
				for j < len(layout) && layout[j] == layout[i+1] {
					j++
				}
				if !(j < len(layout) && layout[j] >= '0' && layout[j] <= '9') {
					return nil, nil, false
				}
			}
			ps = append(ps, piece{lit: c})
			i++
		}
	}
	bs := val.bytes()
	n := 0
	for _, p := range ps {
		if p.digits > 0 {
			n += p.digits
		} else {
			n++
		}
	}
	if len(bs) != n {
		return FalseT, FalseT, true
	}
	var conj, sconj []*Term
	k := 0
	for _, p := range ps {
		if p.digits == 0 {
			conj = append(conj, Eq(bs[k].Term(), BVC(8, uint64(p.lit))))
			k++
			continue
		}
		for j := 0; j < p.digits; j++ {
			t := bs[k+j].Term()
			conj = append(conj, And(BVUle(BVC(8, '0'), t), BVUle(t, BVC(8, '9'))))
		}
		if p.digits == 2 {
			v := BVAdd(BVMul(BVSub(bs[k].Term(), BVC(8, '0')), BVC(8, 10)), BVSub(bs[k+1].Term(), BVC(8, '0')))
			rg := func(lo, hi uint64) *Term { return And(BVUle(BVC(8, lo), v), BVUle(v, BVC(8, hi))) }
			switch p.kind {
			case 'm':
				sconj = append(sconj, rg(1, 12))
				conj = append(conj, rg(1, 12))
			case 'd':
				sconj = append(sconj, rg(1, 28))
				conj = append(conj, rg(1, 31))
			case 'H':
				sconj = append(sconj, rg(0, 23))
				conj = append(conj, rg(0, 23))
			default:
				sconj = append(sconj, rg(0, 59))
				conj = append(conj, rg(0, 59))
			}
		}
		k += p.digits
	}
	nec = And(conj...)
	return nec, And(nec, And(sconj...)), true
}

// ipNecessary: net.ParseIP(s) != nil => at least 2 bytes, all of them hex digits, '.' or ':'.
func ipNecessary(s Str) *Term {
	if s.hasAtoms() {
		return TrueT
	}
	bs := s.bytes()
	if len(bs) < 2 {
		return FalseT
	}
	var conj []*Term
	hasColon := FalseT
	for _, b := range bs {
		t := b.Term()
		rg := func(lo, hi byte) *Term { return And(BVUle(BVC(8, uint64(lo)), t), BVUle(t, BVC(8, uint64(hi)))) }
		conj = append(conj, Or(rg('0', '9'), rg('a', 'f'), rg('A', 'F'), Eq(t, BVC(8, '.')), Eq(t, BVC(8, ':'))))
		hasColon = Or(hasColon, Eq(t, BVC(8, ':')))
	}
	if len(bs) < 7 {
		conj = append(conj, hasColon) // the shortest dotted quad has 7 bytes
	}
	return And(conj...)
}

// ---- exact tables for short inputs (computed from the real functions, cached per process) ----

var shortTables = map[string][]string{}

func acceptedShort(name string, n int, alphabet []byte, accept func(string) bool) []string {
	key := fmt.Sprintf("%s/%d", name, n)
	if t, ok := shortTables[key]; ok {
		return t
	}
	var out []string
	buf := make([]byte, n)
	var rec func(i int)
	rec = func(i int) {
		if i == n {
			if accept(string(buf)) {
				out = append(out, string(buf))
			}
			return
		}
		for _, c := range alphabet {
			buf[i] = c
			rec(i + 1)
		}
	}
	rec(0)
	shortTables[key] = out
	return out
}

func memberTerm(bs []SByte, set []string) *Term {
	var alts []*Term
	for _, w := range set {
		conj := make([]*Term, 0, len(w))
		for i := 0; i < len(w); i++ {
			conj = append(conj, Eq(bs[i].Term(), BVC(8, uint64(w[i]))))
		}
		alts = append(alts, And(conj...))
	}
	return Or(alts...)
}

// ipExactShort: the exact class (0 nil, 1 has To4, 2 pure v6) of net.ParseIP for inputs of up to 4 bytes.
func ipExactShort(s Str) *Term {
	if s.hasAtoms() {
		return nil
	}
	bs := s.bytes()
	if len(bs) > 4 {
		return nil
	}
	alpha := []byte("0123456789abcdefABCDEF.:")
	v4 := acceptedShort("ip4", len(bs), alpha, func(x string) bool { ip := net.ParseIP(x); return ip != nil && ip.To4() != nil })
	v6 := acceptedShort("ip6", len(bs), alpha, func(x string) bool { ip := net.ParseIP(x); return ip != nil && ip.To4() == nil })
	return Ite(memberTerm(bs, v4), BVC(2, 1), Ite(memberTerm(bs, v6), BVC(2, 2), BVC(2, 0)))
}

// jsonExactShort: json.Valid decided exactly for inputs of up to 2 bytes (3 with GOSYM_JSON3=1).
func jsonExactShort(s Str) *Term {
	if s.hasAtoms() {
		return nil
	}
	bs := s.bytes()
	lim := 2
	if os.Getenv("GOSYM_JSON3") != "" {
		lim = 3
	}
	if len(bs) > lim {
		return nil
	}
	alpha := make([]byte, 256)
	for i := range alpha {
		alpha[i] = byte(i)
	}
	ok := acceptedShort("json", len(bs), alpha, func(x string) bool { return json.Valid([]byte(x)) })
	return memberTerm(bs, ok)
}

// stateKey renders the state reachable from v (pointers followed up to depth) for symmetry reduction.
func stateKey(v Value, depth int) string {
	switch x := v.(type) {
	case *Value:
		if x == nil {
			return "nil"
		}
		if depth == 0 {
			return "&..."
		}
		return "&" + stateKey(*x, depth-1)
	case Iface:
		if x.T == nil {
			return "<nil>"
		}
		return "i(" + x.T.String() + ":" + stateKey(x.V, depth) + ")"
	case Struct:
		parts := make([]string, len(x))
		for i, f := range x {
			parts[i] = stateKey(f, depth)
		}
		return "{" + strings.Join(parts, ",") + "}"
	case []Value:
		if x == nil {
			return "nilslice"
		}
		parts := make([]string, len(x))
		for i, f := range x {
			parts[i] = stateKey(f, depth)
		}
		return fmt.Sprintf("[%d/%d:%s]", len(x), cap(x), strings.Join(parts, ","))
	case *Map:
		if x == nil {
			return "nilmap"
		}
		var parts []string
		for _, e := range x.live() {
			parts = append(parts, stateKey(e.k, depth)+"="+stateKey(e.v, depth))
		}
		return "map{" + strings.Join(parts, ",") + "}"
	}
	return describe(v)
}
