package main

// Symbolic regular-expression matching. The pattern comes from the compiled
// *regexp.Regexp built by the code under test (its String()), is compiled with
// regexp/syntax to Go's own NFA program, and MatchString on a string of
// concrete length with symbolic bytes becomes one formula: R[pc][i] = "a
// thread is at instruction pc before byte offset i" (no forks).

import (
	"regexp"
	"regexp/syntax"
	"unicode"
)

type symRune struct {
	// decoding of the rune starting at byte offset i (Go semantics: invalid
	// sequences decode as U+FFFD, width 1)
	w   [5]*Term // w[k]: rune has width k (k=1..4), exactly one true
	val [5]*Term // 32-bit rune value if width k
}

func decodeAllRunes(bs []SByte) []symRune {
	n := len(bs)
	out := make([]symRune, n)
	rng := func(b SByte, lo, hi uint64) *Term {
		t := b.Term()
		return And(BVUle(BVC(8, lo), t), BVUle(t, BVC(8, hi)))
	}
	t32 := func(b SByte) *Term { return ZExt(32, b.Term()) }
	and := func(x *Term, m uint64) *Term { return BVAnd(x, BVC(32, m)) }
	shl := func(x *Term, k uint64) *Term { return bvBin("bvshl", x, BVC(32, k)) }
	for i := 0; i < n; i++ {
		var r symRune
		ascii := rng(bs[i], 0, 0x7F)
		v2, v3, v4 := FalseT, FalseT, FalseT
		if i+1 < n {
			v2 = And(rng(bs[i], 0xC2, 0xDF), rng(bs[i+1], 0x80, 0xBF))
		}
		if i+2 < n {
			c2 := rng(bs[i+2], 0x80, 0xBF)
			v3 = Or(
				And(rng(bs[i], 0xE0, 0xE0), rng(bs[i+1], 0xA0, 0xBF), c2),
				And(rng(bs[i], 0xE1, 0xEC), rng(bs[i+1], 0x80, 0xBF), c2),
				And(rng(bs[i], 0xED, 0xED), rng(bs[i+1], 0x80, 0x9F), c2),
				And(rng(bs[i], 0xEE, 0xEF), rng(bs[i+1], 0x80, 0xBF), c2))
		}
		if i+3 < n {
			c2 := rng(bs[i+2], 0x80, 0xBF)
			c3 := rng(bs[i+3], 0x80, 0xBF)
			v4 = Or(
				And(rng(bs[i], 0xF0, 0xF0), rng(bs[i+1], 0x90, 0xBF), c2, c3),
				And(rng(bs[i], 0xF1, 0xF3), rng(bs[i+1], 0x80, 0xBF), c2, c3),
				And(rng(bs[i], 0xF4, 0xF4), rng(bs[i+1], 0x80, 0x8F), c2, c3))
		}
		bad := Not(Or(ascii, v2, v3, v4))
		r.w[1] = Or(ascii, bad)
		r.w[2], r.w[3], r.w[4] = v2, v3, v4
		r.val[1] = Ite(ascii, t32(bs[i]), BVC(32, 0xFFFD))
		if i+1 < n {
			r.val[2] = BVOr(shl(and(t32(bs[i]), 0x1F), 6), and(t32(bs[i+1]), 0x3F))
		}
		if i+2 < n {
			r.val[3] = BVOr(BVOr(shl(and(t32(bs[i]), 0x0F), 12), shl(and(t32(bs[i+1]), 0x3F), 6)), and(t32(bs[i+2]), 0x3F))
		}
		if i+3 < n {
			r.val[4] = BVOr(BVOr(BVOr(shl(and(t32(bs[i]), 0x07), 18), shl(and(t32(bs[i+1]), 0x3F), 12)), shl(and(t32(bs[i+2]), 0x3F), 6)), and(t32(bs[i+3]), 0x3F))
		}
		out[i] = r
	}
	return out
}

// runeMatches: formula that the rune value v (of UTF-8 width k) matches instruction inst.
func runeMatches(inst *syntax.Inst, v *Term, k int) *Term {
	// width-k runes lie in these value ranges (valid encodings); bad bytes are FFFD at width 1
	switch inst.Op {
	case syntax.InstRuneAny:
		return TrueT
	case syntax.InstRuneAnyNotNL:
		return Neq(v, BVC(32, '\n'))
	}
	rs := inst.Rune
	fold := syntax.Flags(inst.Arg)&syntax.FoldCase != 0
	inRange := func(lo, hi rune) *Term {
		// prune by width
		wlo, whi := rune(0), rune(0x7F)
		switch k {
		case 1:
			// ascii or FFFD
			if lo <= 0xFFFD && 0xFFFD <= hi {
				if hi <= 0x7F || lo > 0x7F {
					// only FFFD possible from this range unless it also covers ascii
				}
			}
			wlo, whi = 0, 0xFFFD
		case 2:
			wlo, whi = 0x80, 0x7FF
		case 3:
			wlo, whi = 0x800, 0xFFFF
		case 4:
			wlo, whi = 0x10000, 0x10FFFF
		}
		if hi < wlo || lo > whi {
			return FalseT
		}
		if lo == hi {
			return Eq(v, BVC(32, uint64(lo)))
		}
		return And(BVUle(BVC(32, uint64(lo)), v), BVUle(v, BVC(32, uint64(hi))))
	}
	var alts []*Term
	if len(rs) == 1 {
		alts = append(alts, inRange(rs[0], rs[0]))
		if fold {
			for r1 := unicode.SimpleFold(rs[0]); r1 != rs[0]; r1 = unicode.SimpleFold(r1) {
				alts = append(alts, inRange(r1, r1))
			}
		}
		return Or(alts...)
	}
	if fold {
		panic(engineErr("case-folded character class in symbolic regexp"))
	}
	for j := 0; j+1 < len(rs); j += 2 {
		alts = append(alts, inRange(rs[j], rs[j+1]))
	}
	return Or(alts...)
}

var progCache = map[string]*syntax.Prog{}

func progFor(re *regexp.Regexp) *syntax.Prog {
	pat := re.String()
	if p, ok := progCache[pat]; ok {
		return p
	}
	rx, err := syntax.Parse(pat, syntax.Perl)
	if err != nil {
		panic(engineErr("regexp parse: " + err.Error()))
	}
	p, err := syntax.Compile(rx.Simplify())
	if err != nil {
		panic(engineErr("regexp compile: " + err.Error()))
	}
	progCache[pat] = p
	return p
}

// regexMatch returns the Bool "re matches somewhere in s".
func (in *Interp) regexMatch(re *regexp.Regexp, s Str) Bool {
	if c, ok := s.Concrete(); ok {
		return mkBool(re.MatchString(c))
	}
	bs := s.bytes()
	return symBool(regexMatchTerm(progFor(re), bs))
}

func regexMatchTerm(prog *syntax.Prog, bs []SByte) *Term {
	n := len(bs)
	runes := decodeAllRunes(bs)
	np := len(prog.Inst)
	// boundary[i]: i is a rune boundary reachable by decoding from 0
	boundary := make([]*Term, n+1)
	for i := range boundary {
		boundary[i] = FalseT
	}
	boundary[0] = TrueT
	for i := 0; i < n; i++ {
		for k := 1; k <= 4 && i+k <= n; k++ {
			boundary[i+k] = Or(boundary[i+k], And(boundary[i], runes[i].w[k]))
		}
	}
	// R[i][p]
	R := make([][]*Term, n+1)
	for i := range R {
		R[i] = make([]*Term, np)
		for p := range R[i] {
			R[i][p] = FalseT
		}
	}
	emptyCond := func(i int, op syntax.EmptyOp) *Term {
		c := TrueT
		if op&syntax.EmptyBeginText != 0 {
			c = And(c, BoolC(i == 0))
		}
		if op&syntax.EmptyEndText != 0 {
			c = And(c, BoolC(i == n))
		}
		if op&syntax.EmptyBeginLine != 0 {
			if i == 0 {
			} else {
				c = And(c, Eq(bs[i-1].Term(), BVC(8, '\n')))
			}
		}
		if op&syntax.EmptyEndLine != 0 {
			if i == n {
			} else {
				c = And(c, Eq(bs[i].Term(), BVC(8, '\n')))
			}
		}
		if op&(syntax.EmptyWordBoundary|syntax.EmptyNoWordBoundary) != 0 {
			isWord := func(j int) *Term {
				if j < 0 || j >= n {
					return FalseT
				}
				t := bs[j].Term()
				rg := func(lo, hi uint64) *Term { return And(BVUle(BVC(8, lo), t), BVUle(t, BVC(8, hi))) }
				return Or(rg('a', 'z'), rg('A', 'Z'), rg('0', '9'), Eq(t, BVC(8, '_')))
			}
			wb := Not(Eq(isWord(i-1), isWord(i)))
			if op&syntax.EmptyWordBoundary != 0 {
				c = And(c, wb)
			}
			if op&syntax.EmptyNoWordBoundary != 0 {
				c = And(c, Not(wb))
			}
		}
		return c
	}
	// add thread at (i,p) with condition c, following epsilon edges
	var add func(i, p int, c *Term, visiting map[int]bool)
	add = func(i, p int, c *Term, visiting map[int]bool) {
		if c.IsFalse() || visiting[p] {
			return
		}
		visiting[p] = true
		defer delete(visiting, p)
		inst := &prog.Inst[p]
		switch inst.Op {
		case syntax.InstAlt, syntax.InstAltMatch:
			add(i, int(inst.Out), c, visiting)
			add(i, int(inst.Arg), c, visiting)
		case syntax.InstCapture, syntax.InstNop:
			add(i, int(inst.Out), c, visiting)
		case syntax.InstEmptyWidth:
			add(i, int(inst.Out), And(c, emptyCond(i, syntax.EmptyOp(inst.Arg))), visiting)
		case syntax.InstFail:
		default: // Match, Rune*
			R[i][p] = Or(R[i][p], c)
		}
	}
	matched := FalseT
	for i := 0; i <= n; i++ {
		// new thread at every rune boundary (unanchored search)
		add(i, prog.Start, boundary[i], map[int]bool{})
		for p := 0; p < np; p++ {
			c := R[i][p]
			if c.IsFalse() {
				continue
			}
			inst := &prog.Inst[p]
			switch inst.Op {
			case syntax.InstMatch:
				matched = Or(matched, c)
			case syntax.InstRune, syntax.InstRune1, syntax.InstRuneAny, syntax.InstRuneAnyNotNL:
				if i == n {
					continue
				}
				for k := 1; k <= 4 && i+k <= n; k++ {
					if runes[i].val[k] == nil {
						continue
					}
					step := And(c, runes[i].w[k], runeMatches(inst, runes[i].val[k], k))
					add(i+k, int(inst.Out), step, map[int]bool{})
				}
			}
		}
	}
	return matched
}

// position-returning operations: implemented in regexpos.go
