package main

// Strings: ropes of segments. A byte segment has concrete length and
// (possibly) symbolic bytes; an atom is an opaque piece of text with a
// contract (itoa of a symbolic int, ...); an alias segment is a live view of
// a []byte (unsafe conversion).

import (
	"fmt"
	"go/types"
	"math"
	"strconv"
	"strings"
	"unicode/utf8"
)

type SByte struct {
	C byte
	S *Term
}

func (b SByte) Term() *Term {
	if b.S != nil {
		return b.S
	}
	return BVC(8, uint64(b.C))
}

func (b SByte) Val() Value {
	if b.S != nil {
		return Int{K: types.Uint8, S: b.S}
	}
	return Int{K: types.Uint8, C: uint64(b.C)}
}

func sbyteOf(v Value) SByte {
	i := v.(Int)
	if i.S != nil {
		return SByte{S: Extract(7, 0, i.S)}
	}
	return SByte{C: byte(i.C)}
}

type Atom struct {
	id   int
	Kind string // "itoa" (signed decimal), "utoa", "ftoa", "opaque"
	Arg  Value
	Bits int       // ftoa bit size
	Len  *Term     // BV64 symbolic length
	Set  [4]uint64 // charset bitmap
	Name string
}

func (a *Atom) has(c byte) bool { return a.Set[c>>6]&(1<<(c&63)) != 0 }
func (a *Atom) add(cs string) {
	for i := 0; i < len(cs); i++ {
		a.Set[cs[i]>>6] |= 1 << (cs[i] & 63)
	}
}

type Seg struct {
	B     []SByte
	A     *Atom
	Alias []Value
}

type Str struct{ segs []Seg }

// aliasReadHook is set while goroutines of a harness run (thread mode): race monitor for alias views
var aliasReadHook func(cells []Value)

func mkStr(s string) Str {
	if s == "" {
		return Str{}
	}
	b := make([]SByte, len(s))
	for i := 0; i < len(s); i++ {
		b[i].C = s[i]
	}
	return Str{segs: []Seg{{B: b}}}
}

func strOfBytes(b []SByte) Str {
	if len(b) == 0 {
		return Str{}
	}
	return Str{segs: []Seg{{B: b}}}
}

// norm materialises alias segments and merges adjacent byte segments.
func (s Str) norm() Str {
	need := false
	for i, g := range s.segs {
		if g.Alias != nil || (g.A == nil && len(g.B) == 0) {
			need = true
			break
		}
		if i > 0 && g.A == nil && s.segs[i-1].A == nil {
			need = true
			break
		}
	}
	if !need {
		return s
	}
	var out []Seg
	for _, g := range s.segs {
		var b []SByte
		switch {
		case g.A != nil:
			out = append(out, g)
			continue
		case g.Alias != nil:
			if aliasReadHook != nil {
				aliasReadHook(g.Alias) // reading an unsafe string view reads the byte cells it aliases
			}
			b = make([]SByte, len(g.Alias))
			for i, v := range g.Alias {
				b[i] = sbyteOf(v)
			}
		default:
			b = g.B
		}
		if len(b) == 0 {
			continue
		}
		if n := len(out); n > 0 && out[n-1].A == nil {
			nb := make([]SByte, 0, len(out[n-1].B)+len(b))
			nb = append(nb, out[n-1].B...)
			nb = append(nb, b...)
			out[n-1] = Seg{B: nb}
		} else {
			out = append(out, Seg{B: b})
		}
	}
	return Str{segs: out}
}

func (s Str) hasAtoms() bool {
	for _, g := range s.segs {
		if g.A != nil {
			return true
		}
	}
	return false
}

// bytes returns the flat byte vector (engine error if atoms are present).
func (s Str) bytes() []SByte {
	s = s.norm()
	if len(s.segs) == 0 {
		return nil
	}
	if len(s.segs) == 1 && s.segs[0].A == nil {
		return s.segs[0].B
	}
	panic(engineErr("string with opaque atom used byte-wise: " + s.Debug()))
}

func (s Str) Concrete() (string, bool) {
	s = s.norm()
	if len(s.segs) == 0 {
		return "", true
	}
	if len(s.segs) != 1 || s.segs[0].A != nil {
		return "", false
	}
	b := s.segs[0].B
	out := make([]byte, len(b))
	for i, x := range b {
		if x.S != nil {
			return "", false
		}
		out[i] = x.C
	}
	return string(out), true
}

func (s Str) mustConcrete() string {
	c, ok := s.Concrete()
	if !ok {
		panic(engineErr("symbolic string where concrete required: " + s.Debug()))
	}
	return c
}

func (s Str) Debug() string {
	var sb strings.Builder
	sb.WriteByte('"')
	for _, g := range s.norm().segs {
		if g.A != nil {
			fmt.Fprintf(&sb, "<%s#%d>", g.A.Kind, g.A.id)
			continue
		}
		for _, b := range g.B {
			if b.S != nil {
				sb.WriteString("?")
			} else if b.C >= 32 && b.C < 127 {
				sb.WriteByte(b.C)
			} else {
				fmt.Fprintf(&sb, "\\x%02x", b.C)
			}
		}
	}
	sb.WriteByte('"')
	return sb.String()
}

// concLen returns the byte length if no atoms.
func (s Str) concLen() (int, bool) {
	n := 0
	for _, g := range s.segs {
		switch {
		case g.A != nil:
			return 0, false
		case g.Alias != nil:
			n += len(g.Alias)
		default:
			n += len(g.B)
		}
	}
	return n, true
}

// LenVal returns len(s) as an Int (symbolic if atoms present).
func (s Str) LenVal() Int {
	if n, ok := s.concLen(); ok {
		return goInt(n)
	}
	t := BVC(64, 0)
	for _, g := range s.norm().segs {
		if g.A != nil {
			t = BVAdd(t, g.A.Len)
		} else {
			t = BVAdd(t, BVC(64, uint64(len(g.B))))
		}
	}
	return symInt(types.Int, t)
}

func strConcat(a, b Str) Str {
	if len(a.segs) == 0 {
		return b
	}
	if len(b.segs) == 0 {
		return a
	}
	segs := make([]Seg, 0, len(a.segs)+len(b.segs))
	segs = append(segs, a.segs...)
	segs = append(segs, b.segs...)
	return Str{segs: segs}.norm()
}

// strSlice slices with concrete bounds (hi<0 means to end).
func (in *Interp) strSlice(s Str, lo, hi int) Str {
	s = s.norm()
	if !s.hasAtoms() {
		b := s.bytes()
		if hi < 0 {
			hi = len(b)
		}
		if lo < 0 || hi > len(b) || lo > hi {
			panic(targetPanic{v: mkStrIface(fmt.Sprintf("runtime error: slice bounds out of range [%d:%d] with length %d", lo, hi, len(b))), kind: "slice-bounds"})
		}
		return strOfBytes(b[lo:hi])
	}
	// atoms present: allow cuts inside the leading concrete prefix, or to end
	pos := 0
	var out []Seg
	started := false
	for si, g := range s.segs {
		if g.A != nil {
			if !started {
				panic(engineErr("slice low bound beyond an opaque atom: " + s.Debug()))
			}
			if hi >= 0 {
				panic(engineErr("slice high bound beyond an opaque atom: " + s.Debug()))
			}
			out = append(out, g)
			continue
		}
		n := len(g.B)
		if !started {
			if lo <= pos+n {
				started = true
				from := lo - pos
				if hi >= 0 && hi <= pos+n {
					return strOfBytes(g.B[from : hi-pos])
				}
				if from < n {
					out = append(out, Seg{B: g.B[from:]})
				}
				if hi >= 0 && si == len(s.segs)-1 {
					panic(targetPanic{v: mkStrIface("runtime error: slice bounds out of range"), kind: "slice-bounds"})
				}
			}
		} else {
			if hi >= 0 {
				panic(engineErr("slice high bound beyond an opaque atom: " + s.Debug()))
			}
			out = append(out, g)
		}
		pos += n
	}
	if !started {
		panic(engineErr("slice bound beyond an opaque atom: " + s.Debug()))
	}
	return Str{segs: out}.norm()
}

// strEq returns the (possibly symbolic) equality of two strings.
func (in *Interp) strEq(a, b Str) Bool {
	a, b = a.norm(), b.norm()
	if !a.hasAtoms() && !b.hasAtoms() {
		x, y := a.bytes(), b.bytes()
		if len(x) != len(y) {
			return mkBool(false)
		}
		conj := make([]*Term, 0, len(x))
		for i := range x {
			if x[i].S == nil && y[i].S == nil {
				if x[i].C != y[i].C {
					return mkBool(false)
				}
				continue
			}
			conj = append(conj, Eq(x[i].Term(), y[i].Term()))
		}
		return symBool(And(conj...))
	}
	// skeleton comparison
	if len(a.segs) == len(b.segs) {
		same := true
		for i := range a.segs {
			ga, gb := a.segs[i], b.segs[i]
			if (ga.A == nil) != (gb.A == nil) {
				same = false
				break
			}
			if ga.A != nil {
				if ga.A.Kind != gb.A.Kind || ga.A.Bits != gb.A.Bits {
					same = false
					break
				}
			} else if len(ga.B) != len(gb.B) {
				same = false
				break
			}
		}
		if same {
			var conj []*Term
			for i := range a.segs {
				ga, gb := a.segs[i], b.segs[i]
				if ga.A != nil {
					if ga.A == gb.A {
						continue
					}
					switch x := ga.A.Arg.(type) {
					case Int:
						conj = append(conj, Eq(x.Term(), gb.A.Arg.(Int).Term()))
					default:
						panic(engineErr("atom equality on non-int atoms"))
					}
				} else {
					conj = append(conj, in.strEq(strOfBytes(ga.B), strOfBytes(gb.B)).Term())
				}
			}
			return symBool(And(conj...))
		}
	}
	// a literal vs. text with atoms: decide by charset where possible
	if r, ok := atomMismatch(a, b); ok {
		return mkBool(r)
	}
	// a single number atom vs. a concrete text: equal iff the text is the canonical rendering of the number
	if t, ok := atomVsConcrete(a, b); ok {
		return symBool(t)
	}
	panic(engineErr("string equality with differing atom skeletons: " + a.Debug() + " vs " + b.Debug()))
}

// atomMismatch proves inequality when one side is concrete and cannot match
// the other side's atoms (e.g. "" vs itoa(x), or a char outside the charset).
func atomMismatch(a, b Str) (eq bool, decided bool) {
	if a.hasAtoms() && b.hasAtoms() {
		return false, false
	}
	if b.hasAtoms() {
		a, b = b, a
	}
	cs, ok := b.Concrete()
	if !ok {
		return false, false
	}
	// a has atoms, cs concrete. minimal length of a:
	min := 0
	for _, g := range a.segs {
		if g.A != nil {
			min++
		} else {
			min += len(g.B)
		}
	}
	if len(cs) < min {
		return false, true
	}
	// leading concrete prefix must match
	if g := a.segs[0]; g.A == nil {
		for i, x := range g.B {
			if x.S == nil && i < len(cs) && cs[i] != x.C {
				return false, true
			}
		}
	}
	// if a is a single atom: all chars must be in charset
	if len(a.segs) == 1 {
		for i := 0; i < len(cs); i++ {
			if !a.segs[0].A.has(cs[i]) {
				return false, true
			}
		}
	}
	return false, false
}

// ---- symbolic UTF-8 decoding (forks on byte classes) ----

func (in *Interp) byteIn(b SByte, lo, hi byte) bool {
	if b.S == nil {
		return b.C >= lo && b.C <= hi
	}
	return in.br(And(BVUle(BVC(8, uint64(lo)), b.S), BVUle(b.S, BVC(8, uint64(hi)))))
}

// decodeRune decodes the rune at bs[i:], following utf8.DecodeRune.
func (in *Interp) decodeRune(bs []SByte, i int) (r Int, width int) {
	n := len(bs) - i
	b0 := bs[i]
	rk := types.Int32
	if b0.S == nil {
		// fully concrete fast path when all needed bytes concrete
		allc := true
		for j := i; j < len(bs) && j < i+4; j++ {
			if bs[j].S != nil {
				allc = false
			}
		}
		if allc {
			buf := make([]byte, 0, 4)
			for j := i; j < len(bs) && j < i+4; j++ {
				buf = append(buf, bs[j].C)
			}
			rr, w := utf8.DecodeRune(buf)
			return mkInt(rk, int64(rr)), w
		}
	}
	bad := func() (Int, int) { return mkInt(rk, int64(utf8.RuneError)), 1 }
	t := func(b SByte) *Term { return ZExt(32, b.Term()) }
	and := func(x *Term, m uint64) *Term { return BVAnd(x, BVC(32, m)) }
	shl := func(x *Term, n uint64) *Term { return bvBin("bvshl", x, BVC(32, n)) }
	if in.byteIn(b0, 0x00, 0x7F) {
		return symInt(rk, t(b0)), 1
	}
	if in.byteIn(b0, 0xC2, 0xDF) {
		if n < 2 || !in.byteIn(bs[i+1], 0x80, 0xBF) {
			return bad()
		}
		return symInt(rk, BVOr(shl(and(t(b0), 0x1F), 6), and(t(bs[i+1]), 0x3F))), 2
	}
	if in.byteIn(b0, 0xE0, 0xEF) {
		if n < 2 {
			return bad()
		}
		lo, hi := byte(0x80), byte(0xBF)
		if in.byteIn(b0, 0xE0, 0xE0) {
			lo = 0xA0
		} else if in.byteIn(b0, 0xED, 0xED) {
			hi = 0x9F
		}
		if !in.byteIn(bs[i+1], lo, hi) {
			return bad()
		}
		if n < 3 || !in.byteIn(bs[i+2], 0x80, 0xBF) {
			return bad()
		}
		return symInt(rk, BVOr(BVOr(shl(and(t(b0), 0x0F), 12), shl(and(t(bs[i+1]), 0x3F), 6)), and(t(bs[i+2]), 0x3F))), 3
	}
	if in.byteIn(b0, 0xF0, 0xF4) {
		if n < 2 {
			return bad()
		}
		lo, hi := byte(0x80), byte(0xBF)
		if in.byteIn(b0, 0xF0, 0xF0) {
			lo = 0x90
		} else if in.byteIn(b0, 0xF4, 0xF4) {
			hi = 0x8F
		}
		if !in.byteIn(bs[i+1], lo, hi) {
			return bad()
		}
		if n < 3 || !in.byteIn(bs[i+2], 0x80, 0xBF) {
			return bad()
		}
		if n < 4 || !in.byteIn(bs[i+3], 0x80, 0xBF) {
			return bad()
		}
		return symInt(rk, BVOr(BVOr(BVOr(shl(and(t(b0), 0x07), 18), shl(and(t(bs[i+1]), 0x3F), 12)), shl(and(t(bs[i+2]), 0x3F), 6)), and(t(bs[i+3]), 0x3F))), 4
	}
	return bad()
}

func (in *Interp) strToRunes(s Str) []Value {
	bs := s.bytes()
	var out []Value
	for i := 0; i < len(bs); {
		r, w := in.decodeRune(bs, i)
		out = append(out, r)
		i += w
	}
	return out
}

// validUTF8Term: formula "bs is valid UTF-8" without forking.
func validUTF8Term(bs []SByte) *Term {
	// DP over positions: ok[i] = suffix from i is valid
	n := len(bs)
	ok := make([]*Term, n+5)
	for i := n; i < n+5; i++ {
		ok[i] = FalseT
	}
	ok[n] = TrueT
	rng := func(b SByte, lo, hi uint64) *Term {
		t := b.Term()
		return And(BVUle(BVC(8, lo), t), BVUle(t, BVC(8, hi)))
	}
	for i := n - 1; i >= 0; i-- {
		var alts []*Term
		alts = append(alts, And(rng(bs[i], 0, 0x7F), ok[i+1]))
		if i+1 < n {
			alts = append(alts, And(rng(bs[i], 0xC2, 0xDF), rng(bs[i+1], 0x80, 0xBF), ok[i+2]))
		}
		if i+2 < n {
			c2 := rng(bs[i+2], 0x80, 0xBF)
			alts = append(alts, And(rng(bs[i], 0xE0, 0xE0), rng(bs[i+1], 0xA0, 0xBF), c2, ok[i+3]))
			alts = append(alts, And(rng(bs[i], 0xE1, 0xEC), rng(bs[i+1], 0x80, 0xBF), c2, ok[i+3]))
			alts = append(alts, And(rng(bs[i], 0xED, 0xED), rng(bs[i+1], 0x80, 0x9F), c2, ok[i+3]))
			alts = append(alts, And(rng(bs[i], 0xEE, 0xEF), rng(bs[i+1], 0x80, 0xBF), c2, ok[i+3]))
		}
		if i+3 < n {
			c2 := rng(bs[i+2], 0x80, 0xBF)
			c3 := rng(bs[i+3], 0x80, 0xBF)
			alts = append(alts, And(rng(bs[i], 0xF0, 0xF0), rng(bs[i+1], 0x90, 0xBF), c2, c3, ok[i+4]))
			alts = append(alts, And(rng(bs[i], 0xF1, 0xF3), rng(bs[i+1], 0x80, 0xBF), c2, c3, ok[i+4]))
			alts = append(alts, And(rng(bs[i], 0xF4, 0xF4), rng(bs[i+1], 0x80, 0x8F), c2, c3, ok[i+4]))
		}
		ok[i] = Or(alts...)
	}
	return ok[0]
}

// ---- rope-level string library (used by strings.* intrinsics) ----

// bytesEqAt: formula that hay[i:i+len(needle)] == needle.
func bytesEqAt(hay []SByte, i int, needle []SByte) *Term {
	conj := make([]*Term, 0, len(needle))
	for j := range needle {
		a, b := hay[i+j], needle[j]
		if a.S == nil && b.S == nil {
			if a.C != b.C {
				return FalseT
			}
			continue
		}
		conj = append(conj, Eq(a.Term(), b.Term()))
	}
	return And(conj...)
}

// strIndex: first index of needle in s; forks per candidate position.
// last=true gives LastIndex.
func (in *Interp) strIndex(s, needle Str, last bool) Int {
	s = s.norm()
	nb := needle.bytes()
	if s.hasAtoms() {
		return in.strIndexAtoms(s, nb, last)
	}
	hb := s.bytes()
	if len(nb) == 0 {
		if last {
			return goInt(len(hb))
		}
		return goInt(0)
	}
	if !last {
		for i := 0; i+len(nb) <= len(hb); i++ {
			if in.br(bytesEqAt(hb, i, nb)) {
				return goInt(i)
			}
		}
	} else {
		for i := len(hb) - len(nb); i >= 0; i-- {
			if in.br(bytesEqAt(hb, i, nb)) {
				return goInt(i)
			}
		}
	}
	return goInt(-1)
}

// strIndexAtoms: Index on text with atoms; the needle must not be able to
// overlap any atom (its bytes are outside the atom charsets).
func (in *Interp) strIndexAtoms(s Str, nb []SByte, last bool) Int {
	for _, g := range s.segs {
		if g.A == nil {
			continue
		}
		for _, b := range nb {
			if b.S != nil {
				panic(engineErr("Index with symbolic needle on atom text"))
			}
			if g.A.has(b.C) {
				panic(engineErr("Index needle may overlap opaque atom " + g.A.Kind))
			}
		}
	}
	if last {
		panic(engineErr("LastIndex on atom text"))
	}
	off := BVC(64, 0)
	symOff := false
	for si, g := range s.segs {
		if g.A != nil {
			off = BVAdd(off, g.A.Len)
			symOff = true
			continue
		}
		for i := 0; i+len(nb) <= len(g.B); i++ {
			if in.br(bytesEqAt(g.B, i, nb)) {
				if !symOff {
					return goInt(int(off.Val) + i)
				}
				t := BVAdd(off, BVC(64, uint64(i)))
				r := symInt(types.Int, t)
				in.posTerms[t] = ropePos{seg: si, off: i, s: s}
				return r
			}
		}
		off = BVAdd(off, BVC(64, uint64(len(g.B))))
	}
	return goInt(-1)
}

type ropePos struct {
	s   Str
	seg int
	off int
}

// strSplit splits s on sep (non-empty sep), n<0. Works on atoms structurally.
func (in *Interp) strSplit(s, sep Str) []Value {
	s = s.norm()
	sb := sep.bytes()
	if len(sb) == 0 {
		// explode into UTF-8 sequences: only concrete supported
		c := s.mustConcrete()
		parts := strings.Split(c, "")
		out := make([]Value, len(parts))
		for i, p := range parts {
			out[i] = mkStr(p)
		}
		return out
	}
	for _, g := range s.segs {
		if g.A == nil {
			continue
		}
		for _, b := range sb {
			if b.S != nil || g.A.has(b.C) {
				panic(engineErr("Split separator may overlap opaque atom"))
			}
		}
	}
	var out []Value
	var cur []Seg
	for _, g := range s.segs {
		if g.A != nil {
			cur = append(cur, g)
			continue
		}
		start := 0
		for i := 0; i+len(sb) <= len(g.B); {
			if in.br(bytesEqAt(g.B, i, sb)) {
				if i > start {
					cur = append(cur, Seg{B: g.B[start:i]})
				}
				out = append(out, Str{segs: cur}.norm())
				cur = nil
				i += len(sb)
				start = i
			} else {
				i++
			}
		}
		if start < len(g.B) {
			cur = append(cur, Seg{B: g.B[start:]})
		}
	}
	out = append(out, Str{segs: cur}.norm())
	return out
}

func (in *Interp) strHasPrefix(s, p Str) bool {
	s, p = s.norm(), p.norm()
	pb := p.bytes()
	if len(pb) == 0 {
		return true
	}
	if len(s.segs) == 0 {
		return false
	}
	g := s.segs[0]
	if g.A != nil {
		for _, b := range pb {
			if b.S == nil && !g.A.has(b.C) {
				return false
			}
		}
		panic(engineErr("HasPrefix on leading atom"))
	}
	if len(g.B) < len(pb) {
		if len(s.segs) == 1 {
			return false
		}
		panic(engineErr("HasPrefix reaching into atom"))
	}
	return in.br(bytesEqAt(g.B, 0, pb))
}

func (in *Interp) strHasSuffix(s, p Str) bool {
	s, p = s.norm(), p.norm()
	pb := p.bytes()
	if len(pb) == 0 {
		return true
	}
	if len(s.segs) == 0 {
		return false
	}
	g := s.segs[len(s.segs)-1]
	if g.A != nil {
		for _, b := range pb {
			if b.S == nil && !g.A.has(b.C) {
				return false
			}
		}
		panic(engineErr("HasSuffix on trailing atom"))
	}
	if len(g.B) < len(pb) {
		if len(s.segs) == 1 {
			return false
		}
		panic(engineErr("HasSuffix reaching into atom"))
	}
	return in.br(bytesEqAt(g.B, len(g.B)-len(pb), pb))
}

func (in *Interp) strTrimSuffix(s, p Str) Str {
	if !in.strHasSuffix(s, p) {
		return s
	}
	s = s.norm()
	n, _ := p.concLen()
	if n == 0 {
		return s
	}
	segs := append([]Seg(nil), s.segs...)
	g := segs[len(segs)-1]
	segs[len(segs)-1] = Seg{B: g.B[:len(g.B)-n]}
	return Str{segs: segs}.norm()
}

func (in *Interp) strTrimPrefix(s, p Str) Str {
	if !in.strHasPrefix(s, p) {
		return s
	}
	s = s.norm()
	n, _ := p.concLen()
	if n == 0 {
		return s
	}
	segs := append([]Seg(nil), s.segs...)
	segs[0] = Seg{B: segs[0].B[n:]}
	return Str{segs: segs}.norm()
}

// strTrim trims leading and trailing bytes that are in cutset (ASCII cutset).
func (in *Interp) strTrim(s Str, cutset string, left, right bool) Str {
	for i := 0; i < len(cutset); i++ {
		if cutset[i] >= 0x80 {
			c, ok := s.Concrete()
			if !ok {
				panic(engineErr("Trim with non-ASCII cutset on symbolic string"))
			}
			switch {
			case left && right:
				return mkStr(strings.Trim(c, cutset))
			case left:
				return mkStr(strings.TrimLeft(c, cutset))
			default:
				return mkStr(strings.TrimRight(c, cutset))
			}
		}
	}
	s = s.norm()
	inSet := func(b SByte) bool {
		if b.S == nil {
			return strings.IndexByte(cutset, b.C) >= 0
		}
		var alts []*Term
		for i := 0; i < len(cutset); i++ {
			alts = append(alts, Eq(b.S, BVC(8, uint64(cutset[i]))))
		}
		return in.br(Or(alts...))
	}
	segs := append([]Seg(nil), s.segs...)
	if left {
		for len(segs) > 0 && segs[0].A == nil {
			b := segs[0].B
			i := 0
			for i < len(b) && inSet(b[i]) {
				i++
			}
			if i == len(b) {
				segs = segs[1:]
				if len(segs) > 0 && segs[0].A != nil {
					// next is an atom: stop if atom charset disjoint from cutset
					for j := 0; j < len(cutset); j++ {
						if segs[0].A.has(cutset[j]) {
							panic(engineErr("Trim reaching atom"))
						}
					}
				}
				continue
			}
			segs[0] = Seg{B: b[i:]}
			break
		}
		if len(segs) > 0 && segs[0].A != nil {
			for j := 0; j < len(cutset); j++ {
				if segs[0].A.has(cutset[j]) {
					panic(engineErr("Trim reaching atom"))
				}
			}
		}
	}
	if right {
		for len(segs) > 0 && segs[len(segs)-1].A == nil {
			b := segs[len(segs)-1].B
			i := len(b)
			for i > 0 && inSet(b[i-1]) {
				i--
			}
			if i == 0 {
				segs = segs[:len(segs)-1]
				continue
			}
			segs[len(segs)-1] = Seg{B: b[:i]}
			break
		}
		if len(segs) > 0 && segs[len(segs)-1].A != nil {
			for j := 0; j < len(cutset); j++ {
				if segs[len(segs)-1].A.has(cutset[j]) {
					panic(engineErr("Trim reaching atom"))
				}
			}
		}
	}
	return Str{segs: segs}.norm()
}

func strJoin(parts []Str, sep Str) Str {
	var segs []Seg
	for i, p := range parts {
		if i > 0 {
			segs = append(segs, sep.segs...)
		}
		segs = append(segs, p.segs...)
	}
	return Str{segs: segs}.norm()
}

// bytesToValues converts to a fresh []Value of uint8.
func bytesToValues(bs []SByte) []Value {
	out := make([]Value, len(bs))
	for i, b := range bs {
		out[i] = b.Val()
	}
	return out
}

func valuesToStr(vs []Value) Str {
	var segs []Seg
	b := make([]SByte, 0, len(vs))
	for _, v := range vs {
		if r, ok := v.(ropeInBytes); ok {
			if len(b) > 0 {
				segs = append(segs, Seg{B: b})
				b = nil
			}
			segs = append(segs, r.s.segs...)
			continue
		}
		b = append(b, sbyteOf(v))
	}
	if len(segs) == 0 {
		return strOfBytes(b)
	}
	if len(b) > 0 {
		segs = append(segs, Seg{B: b})
	}
	return Str{segs: segs}.norm()
}

// atomVsConcrete: itoa(x)/utoa(x)/ftoa(f) == "c". strconv renders each number in exactly one way, so the
// texts are equal iff c is the canonical rendering of some value n and the atom's argument equals n.
func atomVsConcrete(a, b Str) (*Term, bool) {
	if b.hasAtoms() {
		a, b = b, a
	}
	cs, ok := b.Concrete()
	if !ok || len(a.segs) != 1 || a.segs[0].A == nil {
		return nil, false
	}
	at := a.segs[0].A
	switch at.Kind {
	case "itoa":
		iv := at.Arg.(Int)
		n, err := strconv.ParseInt(cs, 10, 64)
		if err != nil || strconv.FormatInt(n, 10) != cs {
			return FalseT, true
		}
		w := kindWidth(iv.K)
		if sext(w, uint64(n)&mask(w)) != n {
			return FalseT, true
		}
		return Eq(iv.Term(), BVC(w, uint64(n))), true
	case "utoa":
		iv := at.Arg.(Int)
		n, err := strconv.ParseUint(cs, 10, 64)
		if err != nil || strconv.FormatUint(n, 10) != cs {
			return FalseT, true
		}
		w := kindWidth(iv.K)
		if n&mask(w) != n {
			return FalseT, true
		}
		return Eq(iv.Term(), BVC(w, n)), true
	case "ftoa":
		fv := at.Arg.(Float)
		bits := at.Bits
		if bits == 0 {
			bits = 64
		}
		f, err := strconv.ParseFloat(cs, bits)
		if err != nil || strconv.FormatFloat(f, 'f', -1, bits) != cs {
			return FalseT, true
		}
		if f != f { // NaN
			return FPIsNaN(fv.Term()), true
		}
		// bit-exact: distinguishes +0 / -0 the way FormatFloat does
		t := fv.Term()
		if floatW(fv.K) == 64 && bits == 32 {
			return nil, false
		}
		c := FPC(floatW(fv.K), f)
		if f == 0 {
			neg := math.Signbit(f)
			z := FPEq(t, c)
			if neg {
				return And(z, Not(FPIsPosZero(t))), true
			}
			return And(z, FPIsPosZero(t)), true
		}
		return FPEq(t, c), true
	}
	return nil, false
}
