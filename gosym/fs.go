package main

// In-memory file system and go/parser stub for the injector (package file, main).
// Files are ropes (symbolic bytes allowed); paths are concrete. parser.ParseFile
// returns what the harness registered for the path (an *ast.File the harness
// built together with the bytes, so positions are consistent by construction,
// or an error); everything else the injector does with the AST -- (*ast.Field).Pos/End,
// BasicLit.End, CommentGroup lists -- is go/ast's own code executed from SSA.

import (
	"go/format"
	"go/types"
	"path/filepath"
	"sort"
	"strings"
)

type parseRes struct {
	file Value // *ast.File
	err  Value // error interface value
}

type symFS struct {
	files  map[string]Str
	dirs   map[string]bool
	links  map[string]string // symbolic links: path -> target path (may dangle)
	writes []string
	parse  map[string]parseRes
	bases  map[*Value]int // next file base of every token.FileSet handed to the parser
}

// shiftPos returns a deep copy of an AST value with every token.Pos other than NoPos moved by delta
// (a file added to a FileSet that already holds files starts at a higher base). Sharing between
// pointers is preserved.
func shiftPos(v Value, t types.Type, delta int, seen map[*Value]*Value) Value {
	if n, ok := t.(*types.Named); ok && n.Obj().Pkg() != nil && n.Obj().Pkg().Path() == "go/token" && n.Obj().Name() == "Pos" {
		i := v.(Int)
		if i.S == nil && i.C != 0 {
			i.C = uint64(int64(i.C) + int64(delta))
		}
		return i
	}
	switch u := t.Underlying().(type) {
	case *types.Pointer:
		p, _ := v.(*Value)
		if p == nil {
			return v
		}
		if q, ok := seen[p]; ok {
			return q
		}
		q := new(Value)
		seen[p] = q
		*q = shiftPos(*p, u.Elem(), delta, seen)
		return q
	case *types.Struct:
		st, ok := v.(Struct)
		if !ok {
			return v
		}
		out := make(Struct, len(st))
		for i := range st {
			out[i] = shiftPos(st[i], u.Field(i).Type(), delta, seen)
		}
		return out
	case *types.Slice:
		sl, ok := v.([]Value)
		if !ok || sl == nil {
			return v
		}
		out := make([]Value, len(sl))
		for i := range sl {
			out[i] = shiftPos(sl[i], u.Elem(), delta, seen)
		}
		return out
	case *types.Interface:
		itf, ok := v.(Iface)
		if !ok || itf.T == nil {
			return v
		}
		return Iface{T: itf.T, V: shiftPos(itf.V, itf.T, delta, seen)}
	}
	return v
}

func (in *Interp) vfs() *symFS {
	if in.fs == nil {
		in.fs = &symFS{files: map[string]Str{}, dirs: map[string]bool{}, links: map[string]string{}, parse: map[string]parseRes{}, bases: map[*Value]int{}}
	}
	return in.fs
}

type fileHandle struct {
	path   string
	off    int
	flags  int
	closed bool
}
type fakeDirEntry struct {
	name string
	dir  bool
	link bool
	path string
}

// resolve follows symbolic links (at most 8 hops); ok = false for a dangling link or a loop
func (f *symFS) resolve(path string) (string, bool) {
	for i := 0; i < 8; i++ {
		t, isLink := f.links[path]
		if !isLink {
			return path, true
		}
		if !filepath.IsAbs(t) {
			t = filepath.Join(filepath.Dir(path), t)
		}
		path = t
	}
	return path, false
}

func (f *symFS) exists(path string) bool {
	_, isFile := f.files[path]
	return isFile || f.dirs[path]
}

func (in *Interp) notExist(fr *frame, op, path string) Value {
	return in.mkError(fr, mkStr(op+" "+path+": no such file or directory"))
}

func (f *symFS) infoOf(path string, name string) Value {
	sz := int64(0)
	if c, ok := f.files[path]; ok {
		sz = int64(len(c.bytes()))
	}
	return Iface{T: fileInfoMarker, V: Native{V: fakeFileInfo{name: name, dir: f.dirs[path], size: sz}}}
}

var dirEntryMarker types.Type

func (f *symFS) stat(in *Interp, fr *frame, p Str) Value {
	path := strings.TrimSuffix(p.mustConcrete(), "/")
	if path == "" {
		path = "/"
	}
	rp, ok := f.resolve(path)
	if !ok || !f.exists(rp) {
		return Tuple{Iface{}, in.notExist(fr, "stat", path)}
	}
	return Tuple{f.infoOf(rp, filepath.Base(path)), nilError()}
}

func (f *symFS) lstat(in *Interp, fr *frame, p Str) Value {
	path := strings.TrimSuffix(p.mustConcrete(), "/")
	if _, isLink := f.links[path]; isLink {
		return Tuple{Iface{T: fileInfoMarker, V: Native{V: fakeFileInfo{name: filepath.Base(path), link: true}}}, nilError()}
	}
	if !f.exists(path) {
		return Tuple{Iface{}, in.notExist(fr, "lstat", path)}
	}
	return Tuple{f.infoOf(path, filepath.Base(path)), nilError()}
}

func (in *Interp) fileOf(v Value) *fileHandle {
	switch x := v.(type) {
	case Iface:
		return in.fileOf(x.V)
	case *Value:
		if x == nil {
			in.tpanic("nil-deref", "nil *os.File")
		}
		if n, ok := (*x).(Native); ok {
			if h, ok := n.V.(*fileHandle); ok {
				return h
			}
		}
	}
	panic(engineErr("not a stub *os.File"))
}

func init() {
	dirEntryMarker = types.NewNamed(types.NewTypeName(0, nil, "fakeDirEntry", nil), types.NewStruct(nil, nil), nil)
	reg := func(name string, f intrinsicFn) { intrinsics[name] = f }

	// ---- harness side ----
	harnessAPI["vFSPath"] = func(in *Interp, fr *frame, a []Value) Value { return strConcat(mkStr("/vfs/"), strArg(a[0])) }
	harnessAPI["vFSPut"] = func(in *Interp, fr *frame, a []Value) Value {
		in.vfs().files["/vfs/"+strArg(a[0]).mustConcrete()] = strArg(a[1])
		return nil
	}
	harnessAPI["vFSMkdir"] = func(in *Interp, fr *frame, a []Value) Value {
		in.vfs().dirs["/vfs/"+strings.TrimSuffix(strArg(a[0]).mustConcrete(), "/")] = true
		return nil
	}
	harnessAPI["vFSSymlink"] = func(in *Interp, fr *frame, a []Value) Value {
		// vFSSymlink(rel, targetRel): a symbolic link at rel pointing at targetRel (which need not exist)
		in.vfs().links["/vfs/"+strArg(a[0]).mustConcrete()] = "/vfs/" + strArg(a[1]).mustConcrete()
		return nil
	}
	harnessAPI["vFSGet"] = func(in *Interp, fr *frame, a []Value) Value {
		p, _ := in.vfs().resolve("/vfs/" + strArg(a[0]).mustConcrete())
		s, ok := in.vfs().files[p]
		return Tuple{s, mkBool(ok)}
	}
	harnessAPI["vFSList"] = func(in *Interp, fr *frame, a []Value) Value {
		// vFSList(dirRel): the names in the directory (files, links, sub-directories), sorted, one per line
		dir := "/vfs/" + strings.TrimSuffix(strArg(a[0]).mustConcrete(), "/")
		f := in.vfs()
		names := map[string]bool{}
		for p := range f.files {
			if filepath.Dir(p) == dir {
				names[filepath.Base(p)] = true
			}
		}
		for d := range f.dirs {
			if d != dir && filepath.Dir(d) == dir {
				names[filepath.Base(d)] = true
			}
		}
		for l := range f.links {
			if filepath.Dir(l) == dir {
				names[filepath.Base(l)] = true
			}
		}
		var sorted []string
		for n := range names {
			sorted = append(sorted, n)
		}
		sort.Strings(sorted)
		return mkStr(strings.Join(sorted, "\n"))
	}
	harnessAPI["vFSWrites"] = func(in *Interp, fr *frame, a []Value) Value {
		var out []Value
		for _, w := range in.vfs().writes {
			out = append(out, mkStr(strings.TrimPrefix(w, "/vfs/")))
		}
		return out
	}
	harnessAPI["vParseResult"] = func(in *Interp, fr *frame, a []Value) Value {
		in.vfs().parse["/vfs/"+strArg(a[0]).mustConcrete()] = parseRes{file: a[1], err: a[2]}
		return nil
	}

	// ---- code under test side ----
	reg("go/parser.ParseFile", func(in *Interp, fr *frame, a []Value) Value {
		path := strArg(a[1]).mustConcrete()
		r, ok := in.vfs().parse[path]
		if !ok {
			if _, exists := in.vfs().files[path]; !exists {
				return Tuple{(*Value)(nil), in.mkError(fr, mkStr("open "+path+": no such file or directory"))}
			}
			panic(engineErr("parser.ParseFile: no parse result registered for " + path))
		}
		// like go/parser: the file is added to the FileSet (before parsing); its positions start at the set's
		// next base, which is 1 only for the first file of a set
		if fset, isP := a[0].(*Value); isP && fset != nil {
			base := in.vfs().bases[fset]
			if base == 0 {
				base = 1
			}
			size := 0
			if content, exists := in.vfs().files[path]; exists {
				size = len(content.bytes())
			}
			in.vfs().bases[fset] = base + size + 1
			if base != 1 && r.file != nil {
				if fp, isF := r.file.(*Value); isF && fp != nil {
					ft := in.prog.ImportedPackage("go/ast").Type("File").Type()
					r.file = shiftPos(fp, types.NewPointer(ft), base-1, map[*Value]*Value{})
				}
			}
		}
		if e, isI := r.err.(Iface); isI && e.T != nil {
			// like go/parser: the (possibly partial) AST is returned together with the error
			if r.file == nil {
				return Tuple{(*Value)(nil), r.err}
			}
			return Tuple{r.file, r.err}
		}
		return Tuple{r.file, nilError()}
	})
	const (
		oWRONLY = 0x1
		oRDWR   = 0x2
		oAPPEND = 0x400
		oCREATE = 0x40
		oEXCL   = 0x80
		oTRUNC  = 0x200
	)
	openFile := func(in *Interp, fr *frame, name string, flags int) Value {
		f := in.vfs()
		path, ok := f.resolve(name)
		if !ok {
			return Tuple{(*Value)(nil), in.notExist(fr, "open", name)}
		}
		if f.dirs[path] {
			if flags&(oWRONLY|oRDWR) != 0 {
				return Tuple{(*Value)(nil), in.mkError(fr, mkStr("open "+name+": is a directory"))}
			}
			var cell Value = Native{V: &fileHandle{path: path, flags: flags}}
			return Tuple{&cell, nilError()}
		}
		if _, exists := f.files[path]; !exists {
			if flags&oCREATE == 0 || !f.dirs[filepath.Dir(path)] {
				return Tuple{(*Value)(nil), in.notExist(fr, "open", name)}
			}
			f.files[path] = mkStr("")
			f.writes = append(f.writes, path)
		} else if flags&oCREATE != 0 && flags&oEXCL != 0 {
			return Tuple{(*Value)(nil), in.mkError(fr, mkStr("open "+name+": file exists"))}
		} else if flags&oTRUNC != 0 && flags&(oWRONLY|oRDWR) != 0 {
			f.files[path] = mkStr("")
			f.writes = append(f.writes, path)
		}
		var cell Value = Native{V: &fileHandle{path: path, flags: flags}}
		return Tuple{&cell, nilError()}
	}
	reg("os.Open", func(in *Interp, fr *frame, a []Value) Value {
		return openFile(in, fr, strArg(a[0]).mustConcrete(), 0)
	})
	reg("os.OpenFile", func(in *Interp, fr *frame, a []Value) Value {
		return openFile(in, fr, strArg(a[0]).mustConcrete(), asInt(a[1]))
	})
	reg("os.Create", func(in *Interp, fr *frame, a []Value) Value {
		return openFile(in, fr, strArg(a[0]).mustConcrete(), oRDWR|oCREATE|oTRUNC)
	})
	reg("(*os.File).Close", func(in *Interp, fr *frame, a []Value) Value {
		if p, ok := a[0].(*Value); ok && p == nil {
			return in.mkError(fr, mkStr("invalid argument"))
		}
		h := in.fileOf(a[0])
		if h.closed {
			return in.mkError(fr, mkStr("close "+h.path+": file already closed"))
		}
		h.closed = true
		return nilError()
	})
	closedErr := func(in *Interp, fr *frame, op string, h *fileHandle) Value {
		return in.mkError(fr, mkStr(op+" "+h.path+": file already closed"))
	}
	readAll := func(in *Interp, fr *frame, a []Value) Value {
		h := in.fileOf(a[0])
		if h.closed {
			return Tuple{[]Value(nil), closedErr(in, fr, "read", h)}
		}
		if h.flags&oWRONLY != 0 {
			return Tuple{[]Value(nil), in.mkError(fr, mkStr("read "+h.path+": bad file descriptor"))}
		}
		bs := in.vfs().files[h.path].bytes()
		if h.off > len(bs) {
			h.off = len(bs)
		}
		out := bytesToValues(bs[h.off:])
		h.off = len(bs)
		return Tuple{out, nilError()}
	}
	reg("io/ioutil.ReadAll", readAll)
	reg("io.ReadAll", readAll)
	reg("(*os.File).Read", func(in *Interp, fr *frame, a []Value) Value {
		h := in.fileOf(a[0])
		if h.closed {
			return Tuple{goInt(0), closedErr(in, fr, "read", h)}
		}
		dst, _ := a[1].([]Value)
		bs := in.vfs().files[h.path].bytes()
		if len(dst) == 0 {
			return Tuple{goInt(0), nilError()}
		}
		if h.off >= len(bs) {
			return Tuple{goInt(0), *in.frGlobal(fr, "io", "EOF")}
		}
		n := copy(dst, bytesToValues(bs[h.off:]))
		h.off += n
		return Tuple{goInt(n), nilError()}
	})
	writeAt := func(in *Interp, fr *frame, h *fileHandle, data []Value, off int) {
		f := in.vfs()
		old := f.files[h.path].bytes()
		var nb []SByte
		if off > len(old) {
			nb = append(nb, old...)
			for len(nb) < off {
				nb = append(nb, SByte{})
			}
		} else {
			nb = append(nb, old[:off]...)
		}
		nb = append(nb, valuesToStr(data).bytes()...)
		if off+len(data) < len(old) {
			nb = append(nb, old[off+len(data):]...)
		}
		f.files[h.path] = strOfBytes(nb)
		f.writes = append(f.writes, h.path)
	}
	write := func(in *Interp, fr *frame, a0 Value, data []Value) Value {
		h := in.fileOf(a0)
		if h.closed {
			return Tuple{goInt(0), closedErr(in, fr, "write", h)}
		}
		if h.flags&(oWRONLY|oRDWR) == 0 {
			return Tuple{goInt(0), in.mkError(fr, mkStr("write "+h.path+": bad file descriptor"))}
		}
		for _, v := range data {
			if _, isRope := v.(ropeInBytes); isRope {
				panic(engineErr("(*os.File).Write of a number rendered from a symbolic value"))
			}
		}
		if h.flags&oAPPEND != 0 {
			h.off = len(in.vfs().files[h.path].bytes())
		}
		writeAt(in, fr, h, data, h.off)
		h.off += len(data)
		return Tuple{goInt(len(data)), nilError()}
	}
	reg("(*os.File).Write", func(in *Interp, fr *frame, a []Value) Value {
		data, _ := a[1].([]Value)
		return write(in, fr, a[0], data)
	})
	reg("(*os.File).WriteString", func(in *Interp, fr *frame, a []Value) Value {
		return write(in, fr, a[0], bytesToValues(strArg(a[1]).bytes()))
	})
	reg("(*os.File).WriteAt", func(in *Interp, fr *frame, a []Value) Value {
		h := in.fileOf(a[0])
		data, _ := a[1].([]Value)
		if h.closed || h.flags&(oWRONLY|oRDWR) == 0 {
			return Tuple{goInt(0), in.mkError(fr, mkStr("write "+h.path+": bad file descriptor"))}
		}
		writeAt(in, fr, h, data, asInt(a[2]))
		return Tuple{goInt(len(data)), nilError()}
	})
	reg("(*os.File).Seek", func(in *Interp, fr *frame, a []Value) Value {
		h := in.fileOf(a[0])
		off, whence := asInt(a[1]), asInt(a[2])
		switch whence {
		case 1:
			off += h.off
		case 2:
			off += len(in.vfs().files[h.path].bytes())
		}
		if off < 0 {
			return Tuple{mkInt(types.Int64, 0), in.mkError(fr, mkStr("seek "+h.path+": invalid argument"))}
		}
		h.off = off
		return Tuple{mkInt(types.Int64, int64(off)), nilError()}
	})
	truncate := func(in *Interp, fr *frame, path string, n int) Value {
		f := in.vfs()
		bs := f.files[path].bytes()
		if n <= len(bs) {
			bs = bs[:n:n]
		} else {
			for len(bs) < n {
				bs = append(bs, SByte{})
			}
		}
		f.files[path] = strOfBytes(bs)
		f.writes = append(f.writes, path)
		return nilError()
	}
	reg("(*os.File).Truncate", func(in *Interp, fr *frame, a []Value) Value {
		h := in.fileOf(a[0])
		if h.flags&(oWRONLY|oRDWR) == 0 {
			return in.mkError(fr, mkStr("truncate "+h.path+": invalid argument"))
		}
		return truncate(in, fr, h.path, asInt(a[1]))
	})
	reg("os.Truncate", func(in *Interp, fr *frame, a []Value) Value {
		f := in.vfs()
		path, ok := f.resolve(strArg(a[0]).mustConcrete())
		if _, isFile := f.files[path]; !ok || !isFile {
			return in.notExist(fr, "truncate", path)
		}
		return truncate(in, fr, path, asInt(a[1]))
	})
	reg("(*os.File).Sync", func(in *Interp, fr *frame, a []Value) Value { return nilError() })
	reg("(*os.File).Chmod", func(in *Interp, fr *frame, a []Value) Value { return nilError() })
	reg("os.Chmod", func(in *Interp, fr *frame, a []Value) Value { return nilError() })
	reg("(*os.File).Name", func(in *Interp, fr *frame, a []Value) Value { return mkStr(in.fileOf(a[0]).path) })
	reg("(*os.File).Stat", func(in *Interp, fr *frame, a []Value) Value {
		h := in.fileOf(a[0])
		return Tuple{in.vfs().infoOf(h.path, filepath.Base(h.path)), nilError()}
	})
	reg("os.Lstat", func(in *Interp, fr *frame, a []Value) Value { return in.vfs().lstat(in, fr, strArg(a[0])) })
	reg("os.Remove", func(in *Interp, fr *frame, a []Value) Value {
		f := in.vfs()
		path := strArg(a[0]).mustConcrete()
		if _, isLink := f.links[path]; isLink {
			delete(f.links, path)
			return nilError()
		}
		if _, isFile := f.files[path]; isFile {
			delete(f.files, path)
			f.writes = append(f.writes, path)
			return nilError()
		}
		if f.dirs[path] {
			delete(f.dirs, path)
			return nilError()
		}
		return in.notExist(fr, "remove", path)
	})
	reg("os.Rename", func(in *Interp, fr *frame, a []Value) Value {
		// rename(2): works on directory entries, never follows a symbolic link at either end; an existing
		// destination (file or link) is replaced; a directory cannot be replaced by a file
		f := in.vfs()
		from, to := strArg(a[0]).mustConcrete(), strArg(a[1]).mustConcrete()
		if f.dirs[to] {
			return in.mkError(fr, mkStr("rename "+from+" "+to+": file exists"))
		}
		if t, isLink := f.links[from]; isLink {
			delete(f.links, from)
			delete(f.files, to)
			f.links[to] = t
			f.writes = append(f.writes, from, to)
			return nilError()
		}
		c, isFile := f.files[from]
		if !isFile {
			return in.mkError(fr, mkStr("rename "+from+" "+to+": no such file or directory"))
		}
		delete(f.files, from)
		delete(f.links, to)
		f.files[to] = c
		f.writes = append(f.writes, from, to)
		return nilError()
	})
	reg("os.Readlink", func(in *Interp, fr *frame, a []Value) Value {
		path := strArg(a[0]).mustConcrete()
		if t, ok := in.vfs().links[path]; ok {
			return Tuple{mkStr(t), nilError()}
		}
		return Tuple{mkStr(""), in.mkError(fr, mkStr("readlink "+path+": invalid argument"))}
	})
	readFile := func(in *Interp, fr *frame, a []Value) Value {
		name := strArg(a[0]).mustConcrete()
		path, ok := in.vfs().resolve(name)
		s, isFile := in.vfs().files[path]
		if !ok || !isFile {
			if ok && in.vfs().dirs[path] {
				return Tuple{[]Value(nil), in.mkError(fr, mkStr("read "+name+": is a directory"))}
			}
			return Tuple{[]Value(nil), in.notExist(fr, "open", name)}
		}
		return Tuple{bytesToValues(s.bytes()), nilError()}
	}
	reg("os.ReadFile", readFile)
	reg("io/ioutil.ReadFile", readFile)
	writeFile := func(in *Interp, fr *frame, a []Value) Value {
		name := strArg(a[0]).mustConcrete()
		path, ok := in.vfs().resolve(name)
		if !ok || in.vfs().dirs[path] {
			return in.mkError(fr, mkStr("open "+name+": is a directory or a broken link"))
		}
		data, _ := a[1].([]Value)
		in.vfs().files[path] = valuesToStr(data)
		in.vfs().writes = append(in.vfs().writes, path)
		return nilError()
	}
	reg("io/ioutil.WriteFile", writeFile)
	reg("os.WriteFile", writeFile)
	reg("os.ReadDir", func(in *Interp, fr *frame, a []Value) Value {
		dir := strings.TrimSuffix(strArg(a[0]).mustConcrete(), "/")
		f := in.vfs()
		if !f.dirs[dir] {
			return Tuple{[]Value(nil), in.mkError(fr, mkStr("open "+dir+": no such file or directory"))}
		}
		names := map[string]bool{}
		for p := range f.files {
			if filepath.Dir(p) == dir {
				names[filepath.Base(p)] = false
			}
		}
		for d := range f.dirs {
			if d != dir && filepath.Dir(d) == dir {
				names[filepath.Base(d)] = true
			}
		}
		for l := range f.links {
			if filepath.Dir(l) == dir {
				names[filepath.Base(l)] = false
			}
		}
		var sorted []string
		for n := range names {
			sorted = append(sorted, n)
		}
		sort.Strings(sorted)
		var out []Value
		for _, n := range sorted {
			_, isLink := f.links[filepath.Join(dir, n)]
			out = append(out, Iface{T: dirEntryMarker, V: Native{V: fakeDirEntry{name: n, dir: names[n], link: isLink, path: filepath.Join(dir, n)}}})
		}
		return Tuple{out, nilError()}
	})
	// filepath.WalkDir / filepath.Walk over the in-memory tree, with the documented SkipDir / SkipAll contract:
	// lexical order; SkipDir returned for a directory skips it, for a file skips the rest of its directory
	walk := func(in *Interp, fr *frame, root string, fn Value, infoArg bool) Value {
		f := in.vfs()
		root = filepath.Clean(root)
		skipDir := *in.frGlobal(fr, "io/fs", "SkipDir")
		skipAll := *in.frGlobal(fr, "io/fs", "SkipAll")
		same := func(a, b Value) bool {
			x, ok1 := a.(Iface)
			y, ok2 := b.(Iface)
			return ok1 && ok2 && x.T != nil && y.T != nil && x.V == y.V
		}
		entry := func(name string, dir bool) Value {
			if infoArg {
				return Iface{T: fileInfoMarker, V: Native{V: fakeFileInfo{name: name, dir: dir}}}
			}
			return Iface{T: dirEntryMarker, V: Native{V: fakeDirEntry{name: name, dir: dir}}}
		}
		var rec func(path string, dir bool) Value // returns the error that ends the walk (nil Iface: go on)
		rec = func(path string, dir bool) Value {
			r := in.call(fr, 0, fn, []Value{mkStr(path), entry(filepath.Base(path), dir), nilError()})
			if e, ok := r.(Iface); ok && e.T != nil {
				if dir && same(r, skipDir) {
					return nilError()
				}
				return r
			}
			if !dir {
				return nilError()
			}
			names := map[string]bool{}
			for p := range f.files {
				if filepath.Dir(p) == path {
					names[filepath.Base(p)] = false
				}
			}
			for d := range f.dirs {
				if d != path && filepath.Dir(d) == path {
					names[filepath.Base(d)] = true
				}
			}
			var sorted []string
			for n := range names {
				sorted = append(sorted, n)
			}
			sort.Strings(sorted)
			for _, n := range sorted {
				r := rec(filepath.Join(path, n), names[n])
				if e, ok := r.(Iface); ok && e.T != nil {
					if same(r, skipDir) {
						break // returned for a file: the remaining entries of this directory are skipped
					}
					return r
				}
			}
			return nilError()
		}
		isDir := f.dirs[root]
		if _, isFile := f.files[root]; !isDir && !isFile {
			r := in.call(fr, 0, fn, []Value{mkStr(root), Iface{}, in.mkError(fr, mkStr("lstat "+root+": no such file or directory"))})
			if e, ok := r.(Iface); ok && e.T != nil && !same(r, skipDir) && !same(r, skipAll) {
				return r
			}
			return nilError()
		}
		r := rec(root, isDir)
		if same(r, skipDir) || same(r, skipAll) {
			return nilError()
		}
		return r
	}
	reg("path/filepath.WalkDir", func(in *Interp, fr *frame, a []Value) Value {
		return walk(in, fr, strArg(a[0]).mustConcrete(), a[1], false)
	})
	reg("path/filepath.Walk", func(in *Interp, fr *frame, a []Value) Value {
		return walk(in, fr, strArg(a[0]).mustConcrete(), a[1], true)
	})
	// go/format.Source: the real formatter on concrete sources (sources with symbolic bytes end the path as unsupported)
	reg("go/format.Source", func(in *Interp, fr *frame, a []Value) Value {
		src, ok := valuesToStr(a[0].([]Value)).Concrete()
		if !ok {
			panic(engineErr("go/format.Source on a source with symbolic bytes"))
		}
		out, err := format.Source([]byte(src))
		if err != nil {
			return Tuple{[]Value(nil), in.mkError(fr, mkStr(err.Error()))}
		}
		return Tuple{bytesToValues(mkStr(string(out)).bytes()), nilError()}
	})
	reg("path/filepath.Glob", func(in *Interp, fr *frame, a []Value) Value {
		pat := strArg(a[0]).mustConcrete()
		f := in.vfs()
		var all []string
		for p := range f.files {
			all = append(all, p)
		}
		for d := range f.dirs {
			all = append(all, d)
		}
		for l := range f.links {
			all = append(all, l) // Glob uses Lstat: dangling links match too
		}
		sort.Strings(all)
		var out []Value
		for _, p := range all {
			ok, err := filepath.Match(pat, p)
			if err != nil {
				return Tuple{[]Value(nil), in.mkError(fr, mkStr(err.Error()))}
			}
			if ok {
				out = append(out, mkStr(p))
			}
		}
		return Tuple{out, nilError()}
	})
}
