package main

// SSA interpreter core (frames, instructions, calls, panics/defers).
// Structure follows golang.org/x/tools/go/ssa/interp, with a different value
// model so that scalars can be symbolic and branches can fork.

import (
	"fmt"
	"go/constant"
	"go/token"
	"go/types"
	"os"
	"strings"

	"golang.org/x/tools/go/ssa"
)

type Interp struct {
	prog    *ssa.Program
	pkgs    []*ssa.Package
	globals map[*ssa.Global]*Value
	ex      *Explorer

	steps    int
	maxSteps int
	depth    int

	// per-run side tables
	pools       map[*Value]*poolState
	onces       map[*Value]bool
	posTerms    map[*Term]ropePos
	inputs      []inputRec
	inputIdx    map[string]int
	events      []Event
	summar      map[string]bool
	atomN       int
	ufCalls     map[string][]ufCall
	fs          *symFS
	harness     string
	curPos      token.Pos
	trace       bool
	extra       map[string]interface{}
	world       *World
	poolMode    string
	initialised map[*ssa.Package]bool
	output      Str
	th          *threadState
	lastPanic   *targetPanic
	ptrIDs      map[interface{}]uint64
	syncMaps    map[*Value]*Map

	// statistics across runs
	funcsEntered map[string]int
	stubsUsed    map[string]int
	sentinels    map[string]*Value
	instrCount   int64
}

type deferred struct {
	fn    Value
	args  []Value
	instr *ssa.Defer
	tail  *deferred
}

type frame struct {
	in               *Interp
	caller           *frame
	fn               *ssa.Function
	block, prevBlock *ssa.BasicBlock
	env              map[ssa.Value]Value
	locals           []Value
	defers           *deferred
	result           Value
	panicking        bool
	panic            interface{}
	phitemps         []Value
}

func (fr *frame) get(key ssa.Value) Value {
	switch key := key.(type) {
	case nil:
		return nil
	case *ssa.Function:
		return key
	case *ssa.Builtin:
		return key
	case *ssa.Const:
		return constValue(key)
	case *ssa.Global:
		if r, ok := fr.in.globals[key]; ok {
			return r
		}
		if key.Pkg != nil && fr.in.world.repo[key.Pkg] {
			fr.in.initPackage(key.Pkg)
			if r, ok := fr.in.globals[key]; ok {
				return r
			}
		}
		if key.Pkg != nil && key.Pkg.Pkg.Path() == "time" {
			// time.Local / time.UTC etc.: zero-valued cells are enough for the Time values harnesses build
			v := zero(deref(key.Type()))
			fr.in.globals[key] = &v
			fr.in.stubsUsed["time package globals (zero-initialised)"]++
			return fr.in.globals[key]
		}
		if key.Pkg != nil && stdInitAllowed[key.Pkg.Pkg.Path()] && !fr.in.initialised[key.Pkg] {
			// small data-only standard packages: run their initialiser (tables) on first use
			p := key.Pkg
			fr.in.initialised[p] = true
			for _, m := range p.Members {
				if g, ok := m.(*ssa.Global); ok {
					v := zero(deref(g.Type()))
					fr.in.globals[g] = &v
				}
			}
			if f := p.Func("init"); f != nil {
				fr.in.callSSA(nil, 0, f, nil, nil)
			}
			if r, ok := fr.in.globals[key]; ok {
				return r
			}
		}
		if key.Pkg != nil {
			// sentinel errors of the standard library keep their identity
			name := key.Pkg.Pkg.Path() + "." + key.Name()
			if alias, ok := sentinelAlias[name]; ok {
				name = alias
			}
			if msg, ok := sentinelErrors[name]; ok {
				if fr.in.sentinels == nil {
					fr.in.sentinels = map[string]*Value{}
				}
				cell := fr.in.sentinels[name]
				if cell == nil {
					v := fr.in.mkError(fr, mkStr(msg))
					cell = &v
					fr.in.sentinels[name] = cell
				}
				fr.in.globals[key] = cell
				return cell
			}
		}
		panic(engineErr("read of global of a package that was not initialised: " + key.String()))
	}
	if r, ok := fr.env[key]; ok {
		return r
	}
	panic(engineErr(fmt.Sprintf("get: no value for %T: %v in %s", key, key.Name(), fr.fn)))
}

func deref(t types.Type) types.Type {
	if p, ok := t.Underlying().(*types.Pointer); ok {
		return p.Elem()
	}
	panic(fmt.Sprintf("deref: not a pointer: %v", t))
}

func constValue(c *ssa.Const) Value {
	t := c.Type()
	if c.Value == nil {
		return zero(t)
	}
	if b, ok := t.Underlying().(*types.Basic); ok {
		k := b.Kind()
		switch {
		case k == types.Bool || k == types.UntypedBool:
			return mkBool(constant.BoolVal(c.Value))
		case isIntKind(k):
			if kindSigned(k) {
				return mkInt(k, c.Int64())
			}
			return mkUint(k, c.Uint64())
		case isFloatKind(k):
			f := c.Float64()
			if k == types.Float32 {
				return Float{K: k, C: float64(float32(f))}
			}
			if k == types.UntypedFloat {
				k = types.Float64
			}
			return Float{K: k, C: f}
		case k == types.String || k == types.UntypedString:
			if c.Value.Kind() == constant.String {
				return mkStr(constant.StringVal(c.Value))
			}
			return mkStr(string(rune(c.Int64())))
		case k == types.Complex64 || k == types.Complex128 || k == types.UntypedComplex:
			return Complex{C: c.Complex128()}
		}
	}
	panic(engineErr(fmt.Sprintf("constValue: unexpected constant %v of type %v", c, t)))
}

func (in *Interp) posStr(p token.Pos) string {
	if p == token.NoPos {
		return "?"
	}
	ps := in.prog.Fset.Position(p)
	f := ps.Filename
	if i := strings.LastIndex(f, "/repo/"); i >= 0 {
		f = f[i+6:]
	}
	return fmt.Sprintf("%s:%d", f, ps.Line)
}

func (in *Interp) tpanic(kind, msg string) {
	panic(targetPanic{v: Iface{T: types.Typ[types.String], V: mkStr(msg)}, kind: kind, pos: in.posStr(in.curPos)})
}

const maxCallDepth = 3000

var stdInitAllowed = map[string]bool{"unicode/utf8": true, "math/bits": true}

var sentinelErrors = map[string]string{
	"io/fs.SkipDir": "skip this directory", "io/fs.SkipAll": "skip everything and stop the walk",
	"io.EOF": "EOF", "io.ErrUnexpectedEOF": "unexpected EOF", "io.ErrShortWrite": "short write", "io.ErrShortBuffer": "short buffer",
	"io.ErrNoProgress": "multiple Read calls return no data or error", "io.ErrClosedPipe": "io: read/write on closed pipe",
	"io.errInvalidWrite": "invalid write result",
	"bufio.ErrBufferFull": "bufio: buffer full", "bufio.ErrNegativeCount": "bufio: negative count", "bufio.ErrInvalidUnreadByte": "bufio: invalid use of UnreadByte",
	"bufio.ErrInvalidUnreadRune": "bufio: invalid use of UnreadRune", "bufio.errNegativeRead": "bufio: reader returned negative count from Read",
	"bufio.errNegativeWrite": "bufio: writer returned negative count from Write",
	"bufio.ErrTooLong": "bufio.Scanner: token too long", "bufio.ErrNegativeAdvance": "bufio.Scanner: SplitFunc returns negative advance count",
	"bufio.ErrAdvanceTooFar": "bufio.Scanner: SplitFunc returns advance count beyond input", "bufio.ErrBadReadCount": "bufio.Scanner: Read returned impossible count",
	"bufio.ErrFinalToken": "final token",
	"io/fs.ErrNotExist": "file does not exist", "io/fs.ErrExist": "file already exists", "io/fs.ErrPermission": "permission denied",
}

var sentinelAlias = map[string]string{
	"path/filepath.SkipDir": "io/fs.SkipDir", "path/filepath.SkipAll": "io/fs.SkipAll",
	"os.ErrNotExist": "io/fs.ErrNotExist", "os.ErrExist": "io/fs.ErrExist", "os.ErrPermission": "io/fs.ErrPermission",
}

// frGlobal returns the cell of a package-level variable of an imported package.
func (in *Interp) frGlobal(fr *frame, pkg, name string) *Value {
	p := in.prog.ImportedPackage(pkg)
	if p == nil {
		panic(engineErr("package not loaded: " + pkg))
	}
	g, ok := p.Members[name].(*ssa.Global)
	if !ok {
		panic(engineErr("no such global: " + pkg + "." + name))
	}
	if fr == nil {
		fr = &frame{in: in}
	}
	return fr.get(g).(*Value)
}

// brVal forks on a Bool value.
func (in *Interp) brVal(b Bool) bool {
	if b.S == nil {
		return b.C
	}
	return in.ex.br(in.posStr(in.curPos), b.S)
}

func (in *Interp) br(c *Term) bool {
	return in.ex.br(in.posStr(in.curPos), c)
}

// concInt concretises a symbolic Int by forking over [lo,hi]; ok=false if outside.
func (in *Interp) concInt(v Int, lo, hi int) (int, bool) {
	if v.S == nil {
		x := int(int64(v.C))
		if !kindSigned(v.K) {
			if v.C > uint64(1<<62) {
				return 0, false
			}
			x = int(v.C)
		}
		return x, x >= lo && x <= hi
	}
	w := kindWidth(v.K)
	for x := lo; x <= hi; x++ {
		if in.br(Eq(v.S, BVC(w, uint64(int64(x))))) {
			return x, true
		}
	}
	return 0, false
}

func (fr *frame) runDefer(d *deferred) {
	var ok bool
	defer func() {
		if !ok {
			r := recover()
			if _, is := r.(targetPanic); !is {
				panic(r)
			}
			fr.panicking = true
			fr.panic = r
		}
	}()
	fr.in.call(fr, d.instr.Pos(), d.fn, d.args)
	ok = true
}

func (fr *frame) runDefers() {
	for d := fr.defers; d != nil; d = d.tail {
		fr.runDefer(d)
	}
	fr.defers = nil
	if fr.panicking {
		panic(fr.panic)
	}
}

func (in *Interp) step(fr *frame, instr ssa.Instruction) {
	in.steps++
	in.instrCount++
	if in.steps > in.maxSteps {
		panic(pathEnd{"unwind: step limit in " + fr.fn.String()})
	}
	if p := instr.Pos(); p != token.NoPos {
		in.curPos = p
	}
}

type continuation int

const (
	kNext continuation = iota
	kReturn
	kJump
)

func (in *Interp) visitInstr(fr *frame, instr ssa.Instruction) continuation {
	in.step(fr, instr)
	switch instr := instr.(type) {
	case *ssa.DebugRef:

	case *ssa.UnOp:
		fr.env[instr] = in.unop(instr, fr.get(instr.X))

	case *ssa.BinOp:
		fr.env[instr] = in.binop(instr.Op, instr.X.Type(), fr.get(instr.X), fr.get(instr.Y))

	case *ssa.Call:
		fn, args := in.prepareCall(fr, &instr.Call)
		fr.env[instr] = in.call(fr, instr.Pos(), fn, args)

	case *ssa.ChangeInterface:
		fr.env[instr] = fr.get(instr.X)

	case *ssa.ChangeType:
		fr.env[instr] = fr.get(instr.X)

	case *ssa.Convert:
		x := fr.get(instr.X)
		if s, ok := x.(Str); ok && onlyLenUses(instr) {
			if _, conc := s.Concrete(); !conc && !s.hasAtoms() {
				if sl, isSl := instr.Type().Underlying().(*types.Slice); isSl {
					if k, _ := basicKind(sl.Elem()); k == types.Int32 {
						// []rune(s) used only by len(): rune count as a formula, no forks
						fr.env[instr] = lazyRunes{s: s}
						break
					}
				}
			}
		}
		fr.env[instr] = in.conv(instr.Type(), instr.X.Type(), x)

	case *ssa.MakeInterface:
		fr.env[instr] = Iface{T: canonType(instr.X.Type()), V: fr.get(instr.X)}

	case *ssa.Extract:
		fr.env[instr] = fr.get(instr.Tuple).(Tuple)[instr.Index]

	case *ssa.Slice:
		fr.env[instr] = in.slice(instr, fr.get(instr.X), fr.get(instr.Low), fr.get(instr.High), fr.get(instr.Max))

	case *ssa.Return:
		switch len(instr.Results) {
		case 0:
		case 1:
			fr.result = fr.get(instr.Results[0])
		default:
			res := make(Tuple, 0, len(instr.Results))
			for _, r := range instr.Results {
				res = append(res, fr.get(r))
			}
			fr.result = res
		}
		fr.block = nil
		return kReturn

	case *ssa.RunDefers:
		fr.runDefers()

	case *ssa.Panic:
		panic(targetPanic{v: fr.get(instr.X), kind: "explicit", pos: in.posStr(instr.Pos())})

	case *ssa.Store:
		in.store(fr.get(instr.Addr), fr.get(instr.Val))

	case *ssa.If:
		succ := 1
		if in.brVal(fr.get(instr.Cond).(Bool)) {
			succ = 0
		}
		fr.prevBlock, fr.block = fr.block, fr.block.Succs[succ]
		return kJump

	case *ssa.Jump:
		fr.prevBlock, fr.block = fr.block, fr.block.Succs[0]
		return kJump

	case *ssa.Defer:
		fn, args := in.prepareCall(fr, &instr.Call)
		fr.defers = &deferred{fn: fn, args: args, instr: instr, tail: fr.defers}

	case *ssa.Go:
		fn, args := in.prepareCall(fr, &instr.Call)
		in.spawn(fr, fn, args)

	case *ssa.Alloc:
		var addr *Value
		if instr.Heap {
			addr = new(Value)
			fr.env[instr] = addr
		} else {
			addr = fr.env[instr].(*Value)
		}
		*addr = zero(deref(instr.Type()))

	case *ssa.MakeSlice:
		c := asInt(fr.get(instr.Cap))
		l := asInt(fr.get(instr.Len))
		if l < 0 || c < l {
			in.tpanic("makeslice", "runtime error: makeslice: len out of range")
		}
		if c > 1<<24 {
			panic(engineErr("MakeSlice too large"))
		}
		sl := make([]Value, c)
		tElt := instr.Type().Underlying().(*types.Slice).Elem()
		for i := range sl {
			sl[i] = zero(tElt)
		}
		fr.env[instr] = sl[:l]

	case *ssa.MakeChan:
		fr.env[instr] = &ChanV{cap: asInt(fr.get(instr.Size))}

	case *ssa.Send:
		in.chanSend(fr.get(instr.Chan), fr.get(instr.X))

	case *ssa.MakeMap:
		fr.env[instr] = newMap(instr.Type().Underlying().(*types.Map).Key())

	case *ssa.Range:
		fr.env[instr] = in.rangeIter(fr.get(instr.X), instr.X.Type())

	case *ssa.Next:
		fr.env[instr] = fr.get(instr.Iter).(iterator).next(in)

	case *ssa.FieldAddr:
		p := fr.get(instr.X).(*Value)
		if p == nil {
			in.tpanic("nil-deref", "runtime error: invalid memory address or nil pointer dereference")
		}
		st, ok := (*p).(Struct)
		if !ok {
			panic(engineErr(fmt.Sprintf("FieldAddr on %T (%s) in %s", *p, instr.X.Type(), fr.fn)))
		}
		fr.env[instr] = &st[instr.Field]

	case *ssa.Field:
		fr.env[instr] = copyVal(fr.get(instr.X).(Struct)[instr.Field])

	case *ssa.IndexAddr:
		x := fr.get(instr.X)
		idx := fr.get(instr.Index).(Int)
		switch x := x.(type) {
		case []Value:
			i, ok := in.concInt(idx, 0, len(x)-1)
			if !ok {
				in.tpanic("index", fmt.Sprintf("runtime error: index out of range [%s] with length %d", describe(idx), len(x)))
			}
			fr.env[instr] = &x[i]
		case *Value:
			if x == nil {
				in.tpanic("nil-deref", "runtime error: invalid memory address or nil pointer dereference")
			}
			a := (*x).(Array)
			i, ok := in.concInt(idx, 0, len(a)-1)
			if !ok {
				in.tpanic("index", fmt.Sprintf("runtime error: index out of range [%s] with length %d", describe(idx), len(a)))
			}
			fr.env[instr] = &a[i]
		default:
			panic(engineErr(fmt.Sprintf("IndexAddr on %T", x)))
		}

	case *ssa.Index:
		x := fr.get(instr.X)
		idx := fr.get(instr.Index).(Int)
		switch x := x.(type) {
		case Array:
			i, ok := in.concInt(idx, 0, len(x)-1)
			if !ok {
				in.tpanic("index", "runtime error: index out of range")
			}
			fr.env[instr] = copyVal(x[i])
		case Str:
			bs := x.bytes()
			i, ok := in.concInt(idx, 0, len(bs)-1)
			if !ok {
				in.tpanic("index", fmt.Sprintf("runtime error: index out of range [%s] with length %d", describe(idx), len(bs)))
			}
			fr.env[instr] = bs[i].Val()
		default:
			panic(engineErr(fmt.Sprintf("Index on %T", x)))
		}

	case *ssa.Lookup:
		fr.env[instr] = in.lookup(instr, fr.get(instr.X), fr.get(instr.Index))

	case *ssa.MapUpdate:
		m := fr.get(instr.Map).(*Map)
		if m == nil {
			in.tpanic("nil-map", "assignment to entry in nil map")
		}
		in.mapSet(m, fr.get(instr.Key), copyVal(fr.get(instr.Value)))

	case *ssa.TypeAssert:
		fr.env[instr] = in.typeAssert(instr, fr.get(instr.X).(Iface))

	case *ssa.MakeClosure:
		var bindings []Value
		for _, b := range instr.Bindings {
			bindings = append(bindings, fr.get(b))
		}
		fr.env[instr] = &Closure{Fn: instr.Fn.(*ssa.Function), Env: bindings}

	case *ssa.Phi:
		panic("unreachable")

	case *ssa.SliceToArrayPointer:
		panic(engineErr("SliceToArrayPointer unsupported"))

	default:
		panic(engineErr(fmt.Sprintf("unsupported instruction %T in %s", instr, fr.fn)))
	}
	return kNext
}

func (in *Interp) prepareCall(fr *frame, call *ssa.CallCommon) (fn Value, args []Value) {
	v := fr.get(call.Value)
	if call.Method == nil {
		fn = v
	} else {
		recv := v.(Iface)
		if recv.T == nil {
			in.tpanic("nil-deref", "runtime error: invalid memory address or nil pointer dereference (method on nil interface)")
		}
		if nv, ok := recv.V.(Native); ok {
			if fi, isFI := nv.V.(fakeFileInfo); isFI {
				name := call.Method.Name()
				fn = &NativeFn{Name: "os.FileInfo." + name, F: func(fr *frame, args []Value) Value {
					switch name {
					case "IsDir":
						return mkBool(fi.dir)
					case "Name":
						if fi.name != "" {
							return mkStr(fi.name)
						}
						return mkStr("f")
					case "Size":
						return mkInt(types.Int64, fi.size)
					case "Mode":
						switch {
						case fi.dir:
							return Int{K: types.Uint32, C: 1<<31 | 0755} // fs.ModeDir
						case fi.link:
							return Int{K: types.Uint32, C: 1<<27 | 0777} // fs.ModeSymlink
						}
						return Int{K: types.Uint32, C: 0644}
					}
					panic(engineErr("UNSUPPORTED os.FileInfo method " + name))
				}}
				for _, a := range call.Args {
					args = append(args, fr.get(a))
				}
				return
			}
		}
		if nv, ok := recv.V.(Native); ok {
			if de, isDE := nv.V.(fakeDirEntry); isDE {
				name := call.Method.Name()
				fn = &NativeFn{Name: "os.DirEntry." + name, F: func(fr *frame, args []Value) Value {
					switch name {
					case "IsDir":
						return mkBool(de.dir)
					case "Name":
						return mkStr(de.name)
					case "Type":
						if de.dir {
							return Int{K: types.Uint32, C: 1 << 31} // fs.ModeDir
						}
						if de.link {
							return Int{K: types.Uint32, C: 1 << 27} // fs.ModeSymlink
						}
						return Int{K: types.Uint32, C: 0}
					case "Info":
						if fr.in.fs != nil && de.path != "" {
							return fr.in.fs.lstat(fr.in, fr, mkStr(de.path))
						}
						return Tuple{Iface{T: fileInfoMarker, V: Native{V: fakeFileInfo{name: de.name, dir: de.dir, link: de.link}}}, nilError()}
					}
					panic(engineErr("UNSUPPORTED os.DirEntry method " + name))
				}}
				for _, a := range call.Args {
					args = append(args, fr.get(a))
				}
				return
			}
		}
		if rt, ok := recv.V.(RT); ok {
			// reflect.Type method
			name := call.Method.Name()
			fn = &NativeFn{Name: "reflect.Type." + name, F: func(fr *frame, args []Value) Value {
				return fr.in.rtypeMethod(name, rt, args[1:])
			}}
			args = append(args, recv.V)
		} else {
			f := in.prog.LookupMethod(recv.T, call.Method.Pkg(), call.Method.Name())
			if f == nil {
				panic(engineErr(fmt.Sprintf("method %s not found for dynamic type %v", call.Method, recv.T)))
			}
			fn = f
			args = append(args, recv.V)
		}
	}
	for _, a := range call.Args {
		args = append(args, fr.get(a))
	}
	return
}

func (in *Interp) call(caller *frame, pos token.Pos, fn Value, args []Value) Value {
	switch fn := fn.(type) {
	case *ssa.Function:
		if fn == nil {
			in.tpanic("nil-func", "runtime error: invalid memory address or nil pointer dereference (call of nil func)")
		}
		return in.callSSA(caller, pos, fn, args, nil)
	case *Closure:
		return in.callSSA(caller, pos, fn.Fn, args, fn.Env)
	case *ssa.Builtin:
		return in.callBuiltin(caller, pos, fn, args)
	case *NativeFn:
		return fn.F(caller, args)
	case nil:
		in.tpanic("nil-func", "call of nil function")
	}
	panic(engineErr(fmt.Sprintf("cannot call %T", fn)))
}

type notHandledT struct{}

var notHandled = notHandledT{}

func (in *Interp) callSSA(caller *frame, pos token.Pos, fn *ssa.Function, args []Value, env []Value) Value {
	name := fn.String()
	if fn.Parent() == nil {
		if fn.Pkg != nil && in.world.repo[fn.Pkg] && fn.Signature.Recv() == nil {
			if h := harnessAPI[fn.Name()]; h != nil {
				fr := &frame{in: in, caller: caller, fn: fn}
				return h(in, fr, args)
			}
		}
		if fn.Pkg != nil && in.world.repo[fn.Pkg] && strings.HasSuffix(fn.Pkg.Pkg.Path(), "/log") {
			in.stubsUsed["log.* (empty body)"]++
			if fn.Signature.Results().Len() == 0 {
				return nil
			}
			return zero(fn.Signature.Results())
		}
		if fn.Synthetic == "package initializer" && !in.world.repo[fn.Pkg] {
			return nil
		}
		if ext := intrinsics[name]; ext != nil {
			fr := &frame{in: in, caller: caller, fn: fn}
			savedPos := in.curPos
			r := ext(in, fr, args)
			in.curPos = savedPos
			if _, nh := r.(notHandledT); !nh {
				in.stubsUsed[name]++
				return r
			}
		}
		if fn.Blocks == nil {
			panic(engineErr("UNSUPPORTED callee (no body, no stub): " + name))
		}
	}
	if fn.TypeParams().Len() > 0 && len(fn.TypeArgs()) == 0 {
		panic(engineErr("uninstantiated generic " + name))
	}
	if in.trace {
		fmt.Fprintf(os.Stderr, "%*senter %s\n", in.depth, "", name)
	}
	in.funcsEntered[name]++
	in.depth++
	if in.depth > maxCallDepth {
		// unbounded recursion in the code under test: natively a fatal "stack overflow" (not recoverable);
		// reported as a panic finding and confirmed by the native replay
		in.recordFinding("panic", "no stack overflow (unbounded recursion)", fmt.Sprintf("call depth exceeds %d frames in %s", maxCallDepth, name))
		panic(pathEnd{"stack-overflow"})
	}
	defer func() { in.depth-- }()
	fr := &frame{in: in, caller: caller, fn: fn}
	fr.env = make(map[ssa.Value]Value, 16)
	fr.block = fn.Blocks[0]
	fr.locals = make([]Value, len(fn.Locals))
	for i, l := range fn.Locals {
		fr.locals[i] = zero(deref(l.Type()))
		fr.env[l] = &fr.locals[i]
	}
	for i, p := range fn.Params {
		fr.env[p] = args[i]
	}
	for i, fv := range fn.FreeVars {
		fr.env[fv] = env[i]
	}
	savedPos := in.curPos
	for fr.block != nil {
		in.runFrame(fr)
	}
	in.curPos = savedPos
	return fr.result
}

func (in *Interp) runFrame(fr *frame) {
	defer func() {
		if fr.block == nil {
			return
		}
		r := recover()
		if _, is := r.(targetPanic); !is {
			panic(r) // engine error / path end: propagate untouched
		}
		fr.panicking = true
		fr.panic = r
		fr.runDefers()
		// recovered
		fr.block = fr.fn.Recover
		if fr.block == nil {
			// no named results: return zero values
			fr.result = zero(fr.fn.Signature.Results())
			if fr.fn.Signature.Results().Len() == 0 {
				fr.result = nil
			}
		}
	}()
	for {
		nonPhis := in.executePhis(fr)
		for _, instr := range nonPhis {
			if in.visitInstr(fr, instr) == kReturn {
				return
			}
		}
	}
}

func (in *Interp) executePhis(fr *frame) []ssa.Instruction {
	firstNonPhi := -1
	for i, instr := range fr.block.Instrs {
		if _, ok := instr.(*ssa.Phi); !ok {
			firstNonPhi = i
			break
		}
	}
	nonPhis := fr.block.Instrs[firstNonPhi:]
	if firstNonPhi > 0 {
		phis := fr.block.Instrs[:firstNonPhi]
		predIndex := -1
		for i, p := range fr.block.Preds {
			if p == fr.prevBlock {
				predIndex = i
				break
			}
		}
		fr.phitemps = fr.phitemps[:0]
		for _, phi := range phis {
			fr.phitemps = append(fr.phitemps, fr.get(phi.(*ssa.Phi).Edges[predIndex]))
		}
		for i, phi := range phis {
			fr.env[phi.(*ssa.Phi)] = fr.phitemps[i]
		}
	}
	return nonPhis
}

func (in *Interp) doRecover(caller *frame) Value {
	if caller != nil && !caller.panicking && caller.caller != nil && caller.caller.panicking {
		caller.caller.panicking = false
		p := caller.caller.panic
		caller.caller.panic = nil
		if tp, ok := p.(targetPanic); ok {
			return tp.v
		}
		panic(p)
	}
	return Iface{}
}

// load / store with value semantics; handles the unsafe string<->[]byte views.
func (in *Interp) load(t types.Type, p Value) Value {
	ptr, ok := p.(*Value)
	if !ok {
		if n, isN := p.(Native); isN {
			return n
		}
		panic(engineErr(fmt.Sprintf("load through %T", p)))
	}
	if ptr == nil {
		in.tpanic("nil-deref", "runtime error: invalid memory address or nil pointer dereference")
	}
	v := *ptr
	in.onRead(ptr)
	switch vv := v.(type) {
	case []Value:
		if b, ok := t.Underlying().(*types.Basic); ok && b.Kind() == types.String {
			// *(*string)(unsafe.Pointer(&bytes)): a live alias view
			if len(vv) == 0 {
				return Str{}
			}
			return Str{segs: []Seg{{Alias: vv}}}
		}
	case Str:
		if _, ok := t.Underlying().(*types.Slice); ok {
			return bytesToValues(vv.bytes())
		}
	}
	return copyVal(v)
}

func (in *Interp) store(p Value, v Value) {
	ptr, ok := p.(*Value)
	if !ok {
		panic(engineErr(fmt.Sprintf("store through %T", p)))
	}
	if ptr == nil {
		in.tpanic("nil-deref", "runtime error: invalid memory address or nil pointer dereference")
	}
	in.onWrite(ptr)
	assignInPlace(ptr, v)
}

// assignInPlace stores v into the cell: aggregates keep their element cells (memory locations persist, so
// pointers to fields and elements taken earlier observe the new content), everything else is replaced
func assignInPlace(dst *Value, v Value) {
	switch src := v.(type) {
	case Struct:
		if cur, ok := (*dst).(Struct); ok && len(cur) == len(src) && len(cur) > 0 {
			for i := range src {
				assignInPlace(&cur[i], src[i])
			}
			return
		}
	case Array:
		if cur, ok := (*dst).(Array); ok && len(cur) == len(src) && len(cur) > 0 {
			for i := range src {
				assignInPlace(&cur[i], src[i])
			}
			return
		}
	}
	*dst = copyVal(v)
}

func (in *Interp) lookup(instr *ssa.Lookup, x, idx Value) Value {
	switch x := x.(type) {
	case *Map:
		var v Value
		e := in.mapFind(x, idx)
		ok := e != nil
		if ok {
			v = copyVal(e.v)
		} else {
			v = zero(instr.X.Type().Underlying().(*types.Map).Elem())
		}
		if instr.CommaOk {
			return Tuple{v, mkBool(ok)}
		}
		return v
	case Str:
		bs := x.bytes()
		i, ok := in.concInt(idx.(Int), 0, len(bs)-1)
		if !ok {
			in.tpanic("index", "runtime error: index out of range")
		}
		return bs[i].Val()
	}
	panic(engineErr(fmt.Sprintf("lookup on %T", x)))
}

// ---- iterators ----

type iterator interface{ next(in *Interp) Tuple }

type mapIter struct {
	es  []*mapEntry
	pos int
}

func (it *mapIter) next(in *Interp) Tuple {
	for it.pos < len(it.es) {
		e := it.es[it.pos]
		it.pos++
		if e.deleted {
			continue
		}
		return Tuple{mkBool(true), e.k, copyVal(e.v)}
	}
	return Tuple{mkBool(false), nil, nil}
}

type strIter struct {
	bs  []SByte
	pos int
}

func (it *strIter) next(in *Interp) Tuple {
	if it.pos >= len(it.bs) {
		return Tuple{mkBool(false), goInt(0), mkInt(types.Int32, 0)}
	}
	r, w := in.decodeRune(it.bs, it.pos)
	i := it.pos
	it.pos += w
	return Tuple{mkBool(true), goInt(i), r}
}

func (in *Interp) rangeIter(x Value, t types.Type) iterator {
	switch x := x.(type) {
	case *Map:
		in.onMapRead(x)
		return &mapIter{es: x.live()}
	case Str:
		return &strIter{bs: x.bytes()}
	}
	panic(engineErr(fmt.Sprintf("range over %T", x)))
}

// ---- slicing ----

func (in *Interp) slice(instr *ssa.Slice, x, lo, hi, max Value) Value {
	l := 0
	if lo != nil {
		v, ok := in.concIntAny(lo.(Int))
		if !ok {
			return in.symSlice(instr, x, lo, hi)
		}
		l = v
	}
	switch x := x.(type) {
	case Str:
		h := -1
		if hi != nil {
			v, ok := in.concIntAny(hi.(Int))
			if !ok {
				return in.symSlice(instr, x, lo, hi)
			}
			h = v
		}
		if n, ok := x.concLen(); ok {
			if h < 0 {
				h = n
			}
			if l < 0 || h > n || l > h {
				in.tpanic("slice-bounds", fmt.Sprintf("runtime error: slice bounds out of range [%d:%d] with length %d", l, h, n))
			}
		}
		return in.strSlice(x, l, h)
	case []Value:
		h := len(x)
		if hi != nil {
			v, ok := in.concIntAny(hi.(Int))
			if !ok {
				panic(engineErr("symbolic slice bound on slice"))
			}
			h = v
		}
		m := cap(x)
		if max != nil {
			m = asInt(max)
		}
		if l < 0 || h > cap(x) || l > h || m > cap(x) || h > m {
			in.tpanic("slice-bounds", fmt.Sprintf("runtime error: slice bounds out of range [%d:%d] with capacity %d", l, h, cap(x)))
		}
		if x == nil {
			return []Value(nil)
		}
		return x[l:h:m]
	case *Value:
		if x == nil {
			in.tpanic("nil-deref", "nil array pointer slice")
		}
		a := (*x).(Array)
		h := len(a)
		if hi != nil {
			h = asInt(hi)
		}
		m := len(a)
		if max != nil {
			m = asInt(max)
		}
		if l < 0 || h > len(a) || l > h || m > len(a) || h > m {
			in.tpanic("slice-bounds", "runtime error: slice bounds out of range")
		}
		return []Value(a)[l:h:m]
	}
	panic(engineErr(fmt.Sprintf("slice of %T", x)))
}

// concIntAny: concrete value of an Int, or (for symbolic) resolves known
// position terms; ok=false if symbolic.
func (in *Interp) concIntAny(v Int) (int, bool) {
	if v.S == nil {
		return int(int64(v.C)), true
	}
	return 0, false
}

// symSlice handles slicing of atom text at positions returned by Index.
func (in *Interp) symSlice(instr *ssa.Slice, x Value, lo, hi Value) Value {
	s, ok := x.(Str)
	if !ok {
		panic(engineErr("symbolic slice bound on non-string"))
	}
	s = s.norm()
	find := func(v Value) (seg, off int, isEnd bool) {
		if v == nil {
			return 0, 0, true
		}
		iv := v.(Int)
		if iv.S == nil {
			// concrete position: must lie in leading byte segment
			p := int(int64(iv.C))
			if len(s.segs) > 0 && s.segs[0].A == nil && p <= len(s.segs[0].B) {
				return 0, p, false
			}
			if len(s.segs) == 0 && p == 0 {
				return 0, 0, false
			}
			panic(engineErr("concrete slice position beyond atom"))
		}
		if rp, ok := in.posTerms[iv.S]; ok && sameRope(rp.s, s) {
			return rp.seg, rp.off, false
		}
		// fall back: fork over small concrete range if no atoms
		if n, okc := s.concLen(); okc {
			p, okp := in.concInt(iv, 0, n)
			if !okp {
				in.tpanic("slice-bounds", "runtime error: slice bounds out of range")
			}
			return -1, p, false
		}
		panic(engineErr("slice at unknown symbolic position of atom text"))
	}
	ls, lo2, _ := find(lo)
	if lo == nil {
		ls, lo2 = 0, 0
	}
	hs, ho2, hEnd := find(hi)
	if ls == -1 || hs == -1 {
		// flat positions
		n, _ := s.concLen()
		l, h := lo2, ho2
		if ls != -1 {
			l = flatPos(s, ls, lo2)
		}
		if hEnd {
			h = n
		} else if hs != -1 {
			h = flatPos(s, hs, ho2)
		}
		if l > h {
			in.tpanic("slice-bounds", fmt.Sprintf("runtime error: slice bounds out of range [%d:%d]", l, h))
		}
		return in.strSlice(s, l, h)
	}
	var out []Seg
	if hEnd {
		hs, ho2 = len(s.segs), 0
	}
	if ls > hs || (ls == hs && lo2 > ho2) {
		in.tpanic("slice-bounds", "runtime error: slice bounds out of range (low > high)")
	}
	for i := ls; i <= hs && i < len(s.segs); i++ {
		g := s.segs[i]
		from, to := 0, -1
		if i == ls {
			from = lo2
		}
		if i == hs {
			to = ho2
		}
		if g.A != nil {
			if from != 0 || to == 0 {
				if to == 0 {
					continue
				}
				panic(engineErr("cut inside atom"))
			}
			if to > 0 {
				panic(engineErr("cut inside atom"))
			}
			out = append(out, g)
			continue
		}
		if to < 0 {
			to = len(g.B)
		}
		if from < to {
			out = append(out, Seg{B: g.B[from:to]})
		}
	}
	return Str{segs: out}.norm()
}

func flatPos(s Str, seg, off int) int {
	p := 0
	for i := 0; i < seg; i++ {
		p += len(s.segs[i].B)
	}
	return p + off
}

func sameRope(a, b Str) bool {
	if len(a.segs) != len(b.segs) {
		return false
	}
	for i := range a.segs {
		if a.segs[i].A != b.segs[i].A {
			return false
		}
		if a.segs[i].A == nil {
			if len(a.segs[i].B) != len(b.segs[i].B) {
				return false
			}
			if len(a.segs[i].B) > 0 && &a.segs[i].B[0] != &b.segs[i].B[0] {
				return false
			}
		}
	}
	return true
}

// ---- builtins ----

func (in *Interp) callBuiltin(caller *frame, pos token.Pos, fn *ssa.Builtin, args []Value) Value {
	switch fn.Name() {
	case "append":
		if len(args) == 1 {
			return args[0]
		}
		var src []Value
		switch y := args[1].(type) {
		case Str:
			src = bytesToValues(y.bytes())
		case []Value:
			src = y
		default:
			panic(engineErr(fmt.Sprintf("append: %T", y)))
		}
		dst, _ := args[0].([]Value)
		if len(src) == 0 {
			return dst
		}
		// copy elements (value semantics)
		cp := make([]Value, len(src))
		for i, v := range src {
			cp[i] = copyVal(v)
		}
		if len(dst)+len(cp) <= cap(dst) {
			for i := range cp {
				in.onWrite(&dst[:cap(dst)][len(dst)+i])
			}
		}
		return append(dst, cp...)

	case "copy":
		dst := args[0].([]Value)
		var src []Value
		switch y := args[1].(type) {
		case Str:
			src = bytesToValues(y.bytes())
		case []Value:
			src = y
		}
		n := len(dst)
		if len(src) < n {
			n = len(src)
		}
		tmp := make([]Value, n)
		for i := 0; i < n; i++ {
			tmp[i] = copyVal(src[i])
		}
		for i := 0; i < n; i++ {
			in.onWrite(&dst[i])
			dst[i] = tmp[i]
		}
		return goInt(n)

	case "close":
		in.chanClose(args[0])
		return nil

	case "delete":
		in.mapDelete(args[0].(*Map), args[1])
		return nil

	case "print", "println":
		return nil

	case "len":
		switch x := args[0].(type) {
		case Str:
			return x.LenVal()
		case Array:
			return goInt(len(x))
		case *Value:
			if x == nil {
				return goInt(0)
			}
			return goInt(len((*x).(Array)))
		case []Value:
			return goInt(len(x))
		case *Map:
			in.onMapRead(x)
			return goInt(x.Len())
		case lazyRunes:
			return symInt(types.Int, runeCountTerm(x.s.bytes()))
		case *ChanV:
			if x == nil {
				return goInt(0)
			}
			return goInt(len(x.buf))
		}
		panic(engineErr(fmt.Sprintf("len: %T", args[0])))

	case "cap":
		switch x := args[0].(type) {
		case Array:
			return goInt(len(x))
		case *Value:
			return goInt(len((*x).(Array)))
		case []Value:
			return goInt(cap(x))
		case *ChanV:
			if x == nil {
				return goInt(0)
			}
			return goInt(x.cap)
		}
		panic(engineErr(fmt.Sprintf("cap: %T", args[0])))

	case "min", "max":
		// integers and strings: a chain of comparisons, forking on symbolic ones (floats have NaN rules: not modelled)
		best := args[0]
		for _, a := range args[1:] {
			if _, isF := a.(Float); isF {
				panic(engineErr("min/max on floats unsupported"))
			}
			op := token.LSS
			if fn.Name() == "max" {
				op = token.GTR
			}
			var t types.Type = types.Typ[types.Int]
			if _, isS := a.(Str); isS {
				t = types.Typ[types.String]
			}
			if in.brVal(in.binop(op, t, a, best).(Bool)) {
				best = a
			}
		}
		return best

	case "recover":
		return in.doRecover(caller)

	case "ssa:wrapnilchk":
		recv := args[0]
		if p, ok := recv.(*Value); ok && p == nil {
			in.tpanic("nil-deref", "value method called using nil pointer")
		}
		return recv
	}
	panic(engineErr("unknown built-in: " + fn.Name()))
}

// lazyRunes is []rune(s) whose only use is len().
type lazyRunes struct{ s Str }

func onlyLenUses(instr *ssa.Convert) bool {
	refs := instr.Referrers()
	if refs == nil || len(*refs) == 0 {
		return false
	}
	for _, r := range *refs {
		c, ok := r.(*ssa.Call)
		if !ok {
			if _, dbg := r.(*ssa.DebugRef); dbg {
				continue
			}
			return false
		}
		b, ok := c.Call.Value.(*ssa.Builtin)
		if !ok || b.Name() != "len" {
			return false
		}
	}
	return true
}

// runeCountTerm: number of runes Go's decoder finds in bs (invalid bytes count
// one each), as a 64-bit term.
func runeCountTerm(bs []SByte) *Term {
	n := len(bs)
	runes := decodeAllRunes(bs)
	boundary := make([]*Term, n+1)
	for i := range boundary {
		boundary[i] = FalseT
	}
	boundary[0] = TrueT
	for i := 0; i < n; i++ {
		for k := 1; k <= 4 && i+k <= n; k++ {
			boundary[i+k] = Or(boundary[i+k], And(boundary[i], runes[i].w[k]))
		}
	}
	cnt := BVC(64, 0)
	for i := 0; i < n; i++ {
		cnt = BVAdd(cnt, Ite(boundary[i], BVC(64, 1), BVC(64, 0)))
	}
	return cnt
}
