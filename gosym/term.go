package main

// Terms: the SMT-LIB2 expression DAG the executor builds, with constant
// folding, a printer (with let-sharing) and an evaluator under a model.

import (
	"fmt"
	"math"
	"math/big"
	"sort"
	"strconv"
	"strings"
)

type SortKind uint8

const (
	SBool SortKind = iota
	SBV
	SFP
)

type Sort struct {
	K SortKind
	W int // BV width, or FP total width (32, 64, 128)
}

var (
	BoolSort = Sort{SBool, 0}
	BV8      = Sort{SBV, 8}
	BV64     = Sort{SBV, 64}
	FP32     = Sort{SFP, 32}
	FP64     = Sort{SFP, 64}
	FP128    = Sort{SFP, 128}
)

func BV(w int) Sort { return Sort{SBV, w} }

func (s Sort) String() string {
	switch s.K {
	case SBool:
		return "Bool"
	case SBV:
		return fmt.Sprintf("(_ BitVec %d)", s.W)
	case SFP:
		switch s.W {
		case 32:
			return "(_ FloatingPoint 8 24)"
		case 64:
			return "(_ FloatingPoint 11 53)"
		case 128:
			return "(_ FloatingPoint 15 113)"
		}
	}
	panic("bad sort")
}

func fpEbSb(w int) (int, int) {
	switch w {
	case 32:
		return 8, 24
	case 64:
		return 11, 53
	case 128:
		return 15, 113
	}
	panic("bad fp width")
}

type Term struct {
	Op   string
	Sort Sort
	Args []*Term
	Name string  // var name
	Val  uint64  // BV const / Bool const (0,1)
	F    float64 // FP const (32/64)
	P1   int     // extract hi / extend amount
	P2   int     // extract lo
	id   int
	size int // dag size estimate (tree size, capped)
}

var termCounter int

func mk(op string, s Sort, args ...*Term) *Term {
	termCounter++
	sz := 1
	for _, a := range args {
		sz += a.size
		if sz > 1<<30 {
			sz = 1 << 30
		}
	}
	return &Term{Op: op, Sort: s, Args: args, id: termCounter, size: sz}
}

var (
	TrueT  = &Term{Op: "const", Sort: BoolSort, Val: 1, size: 1}
	FalseT = &Term{Op: "const", Sort: BoolSort, Val: 0, size: 1}
)

func BoolC(b bool) *Term {
	if b {
		return TrueT
	}
	return FalseT
}

func mask(w int) uint64 {
	if w >= 64 {
		return ^uint64(0)
	}
	return (uint64(1) << uint(w)) - 1
}

func BVC(w int, v uint64) *Term {
	t := mk("const", BV(w))
	t.Val = v & mask(w)
	return t
}

func FPC(w int, f float64) *Term {
	t := mk("const", Sort{SFP, w})
	t.F = f
	return t
}

func Var(name string, s Sort) *Term {
	t := mk("var", s)
	t.Name = name
	return t
}

func (t *Term) IsConst() bool { return t.Op == "const" }
func (t *Term) IsTrue() bool  { return t.Op == "const" && t.Sort.K == SBool && t.Val == 1 }
func (t *Term) IsFalse() bool { return t.Op == "const" && t.Sort.K == SBool && t.Val == 0 }

func sext(w int, v uint64) int64 {
	if w >= 64 {
		return int64(v)
	}
	sh := uint(64 - w)
	return int64(v<<sh) >> sh
}

// ---- constructors with folding ----

func Not(a *Term) *Term {
	if a.IsConst() {
		return BoolC(a.Val == 0)
	}
	if a.Op == "not" {
		return a.Args[0]
	}
	return mk("not", BoolSort, a)
}

func And(as ...*Term) *Term {
	var out []*Term
	for _, a := range as {
		if a.IsFalse() {
			return FalseT
		}
		if a.IsTrue() {
			continue
		}
		if a.Op == "and" {
			out = append(out, a.Args...)
			continue
		}
		out = append(out, a)
	}
	switch len(out) {
	case 0:
		return TrueT
	case 1:
		return out[0]
	}
	return mk("and", BoolSort, out...)
}

func Or(as ...*Term) *Term {
	var out []*Term
	for _, a := range as {
		if a.IsTrue() {
			return TrueT
		}
		if a.IsFalse() {
			continue
		}
		if a.Op == "or" {
			out = append(out, a.Args...)
			continue
		}
		out = append(out, a)
	}
	switch len(out) {
	case 0:
		return FalseT
	case 1:
		return out[0]
	}
	return mk("or", BoolSort, out...)
}

func Implies(a, b *Term) *Term { return Or(Not(a), b) }

func Ite(c, a, b *Term) *Term {
	if c.IsTrue() {
		return a
	}
	if c.IsFalse() {
		return b
	}
	if a == b {
		return a
	}
	if a.Sort.K == SBool {
		if a.IsTrue() && b.IsFalse() {
			return c
		}
		if a.IsFalse() && b.IsTrue() {
			return Not(c)
		}
	}
	if a.IsConst() && b.IsConst() && a.Sort.K == SBV && a.Val == b.Val {
		return a
	}
	return mk("ite", a.Sort, c, a, b)
}

func Eq(a, b *Term) *Term {
	if a == b {
		return TrueT
	}
	if a.IsConst() && b.IsConst() {
		switch a.Sort.K {
		case SBool, SBV:
			return BoolC(a.Val == b.Val)
		case SFP:
			// structural equality
			return BoolC(math.Float64bits(a.F) == math.Float64bits(b.F))
		}
	}
	if a.Sort.K == SBool {
		if a.IsConst() {
			a, b = b, a
		}
		if b.IsTrue() {
			return a
		}
		if b.IsFalse() {
			return Not(a)
		}
	}
	if a.Sort != b.Sort {
		panic(fmt.Sprintf("Eq sort mismatch %v %v", a.Sort, b.Sort))
	}
	return mk("=", BoolSort, a, b)
}

func bvBin(op string, a, b *Term) *Term {
	if a.Sort != b.Sort || a.Sort.K != SBV {
		panic(fmt.Sprintf("bv op %s sort mismatch %v %v", op, a.Sort, b.Sort))
	}
	w := a.Sort.W
	if a.IsConst() && b.IsConst() {
		if v, ok := foldBV(op, w, a.Val, b.Val); ok {
			return BVC(w, v)
		}
	}
	// light identities
	switch op {
	case "bvadd":
		if a.IsConst() && a.Val == 0 {
			return b
		}
		if b.IsConst() && b.Val == 0 {
			return a
		}
	case "bvsub":
		if b.IsConst() && b.Val == 0 {
			return a
		}
	case "bvmul":
		if a.IsConst() && a.Val == 1 {
			return b
		}
		if b.IsConst() && b.Val == 1 {
			return a
		}
	case "bvand":
		if (a.IsConst() && a.Val == 0) || (b.IsConst() && b.Val == 0) {
			return BVC(w, 0)
		}
	case "bvor", "bvxor":
		if a.IsConst() && a.Val == 0 {
			return b
		}
		if b.IsConst() && b.Val == 0 {
			return a
		}
	}
	return mk(op, a.Sort, a, b)
}

func foldBV(op string, w int, x, y uint64) (uint64, bool) {
	m := mask(w)
	switch op {
	case "bvadd":
		return (x + y) & m, true
	case "bvsub":
		return (x - y) & m, true
	case "bvmul":
		return (x * y) & m, true
	case "bvand":
		return x & y, true
	case "bvor":
		return x | y, true
	case "bvxor":
		return x ^ y, true
	case "bvudiv":
		if y == 0 {
			return m, true
		}
		return x / y, true
	case "bvurem":
		if y == 0 {
			return x, true
		}
		return x % y, true
	case "bvsdiv":
		sx, sy := sext(w, x), sext(w, y)
		if sy == 0 {
			if sx < 0 {
				return 1, true
			}
			return m, true
		}
		if sy == -1 {
			return uint64(-sx) & m, true
		}
		return uint64(sx/sy) & m, true
	case "bvsrem":
		sx, sy := sext(w, x), sext(w, y)
		if sy == 0 {
			return x, true
		}
		if sy == -1 {
			return 0, true
		}
		return uint64(sx%sy) & m, true
	case "bvshl":
		if y >= uint64(w) {
			return 0, true
		}
		return (x << y) & m, true
	case "bvlshr":
		if y >= uint64(w) {
			return 0, true
		}
		return x >> y, true
	case "bvashr":
		sx := sext(w, x)
		if y >= uint64(w) {
			if sx < 0 {
				return m, true
			}
			return 0, true
		}
		return uint64(sx>>y) & m, true
	}
	return 0, false
}

func BVAdd(a, b *Term) *Term { return bvBin("bvadd", a, b) }
func BVSub(a, b *Term) *Term { return bvBin("bvsub", a, b) }
func BVMul(a, b *Term) *Term { return bvBin("bvmul", a, b) }
func BVAnd(a, b *Term) *Term { return bvBin("bvand", a, b) }
func BVOr(a, b *Term) *Term  { return bvBin("bvor", a, b) }
func BVXor(a, b *Term) *Term { return bvBin("bvxor", a, b) }

func BVNot(a *Term) *Term {
	if a.IsConst() {
		return BVC(a.Sort.W, ^a.Val)
	}
	return mk("bvnot", a.Sort, a)
}
func BVNeg(a *Term) *Term {
	if a.IsConst() {
		return BVC(a.Sort.W, -a.Val)
	}
	return mk("bvneg", a.Sort, a)
}

func bvCmp(op string, a, b *Term) *Term {
	if a.Sort != b.Sort || a.Sort.K != SBV {
		panic(fmt.Sprintf("bv cmp %s sort mismatch %v %v", op, a.Sort, b.Sort))
	}
	if a.IsConst() && b.IsConst() {
		w := a.Sort.W
		switch op {
		case "bvult":
			return BoolC(a.Val < b.Val)
		case "bvule":
			return BoolC(a.Val <= b.Val)
		case "bvslt":
			return BoolC(sext(w, a.Val) < sext(w, b.Val))
		case "bvsle":
			return BoolC(sext(w, a.Val) <= sext(w, b.Val))
		}
	}
	if a == b {
		return BoolC(op == "bvule" || op == "bvsle")
	}
	return mk(op, BoolSort, a, b)
}

func BVUlt(a, b *Term) *Term { return bvCmp("bvult", a, b) }
func BVUle(a, b *Term) *Term { return bvCmp("bvule", a, b) }
func BVSlt(a, b *Term) *Term { return bvCmp("bvslt", a, b) }
func BVSle(a, b *Term) *Term { return bvCmp("bvsle", a, b) }

func Extract(hi, lo int, a *Term) *Term {
	if lo == 0 && hi == a.Sort.W-1 {
		return a
	}
	if a.IsConst() {
		return BVC(hi-lo+1, a.Val>>uint(lo))
	}
	if a.Op == "zext" || a.Op == "sext" {
		inner := a.Args[0]
		if hi < inner.Sort.W {
			return Extract(hi, lo, inner)
		}
	}
	t := mk("extract", BV(hi-lo+1), a)
	t.P1, t.P2 = hi, lo
	return t
}

func ZExt(to int, a *Term) *Term {
	if a.Sort.W == to {
		return a
	}
	if a.Sort.W > to {
		return Extract(to-1, 0, a)
	}
	if a.IsConst() {
		return BVC(to, a.Val)
	}
	t := mk("zext", BV(to), a)
	t.P1 = to - a.Sort.W
	return t
}

func SExt(to int, a *Term) *Term {
	if a.Sort.W == to {
		return a
	}
	if a.Sort.W > to {
		return Extract(to-1, 0, a)
	}
	if a.IsConst() {
		return BVC(to, uint64(sext(a.Sort.W, a.Val)))
	}
	t := mk("sext", BV(to), a)
	t.P1 = to - a.Sort.W
	return t
}

// FP
func fpCmp(op string, a, b *Term) *Term {
	if a.IsConst() && b.IsConst() && a.Sort.W <= 64 {
		switch op {
		case "fp.lt":
			return BoolC(a.F < b.F)
		case "fp.leq":
			return BoolC(a.F <= b.F)
		case "fp.eq":
			return BoolC(a.F == b.F)
		}
	}
	return mk(op, BoolSort, a, b)
}
func FPLt(a, b *Term) *Term  { return fpCmp("fp.lt", a, b) }
func FPLeq(a, b *Term) *Term { return fpCmp("fp.leq", a, b) }
func FPEq(a, b *Term) *Term  { return fpCmp("fp.eq", a, b) }
func FPIsNaN(a *Term) *Term {
	if a.IsConst() && a.Sort.W <= 64 {
		return BoolC(math.IsNaN(a.F))
	}
	return mk("fp.isNaN", BoolSort, a)
}
func FPIsInf(a *Term) *Term {
	if a.IsConst() && a.Sort.W <= 64 {
		return BoolC(math.IsInf(a.F, 0))
	}
	return mk("fp.isInfinite", BoolSort, a)
}
func FPNeg(a *Term) *Term {
	if a.IsConst() && a.Sort.W <= 64 {
		return FPC(a.Sort.W, -a.F)
	}
	return mk("fp.neg", a.Sort, a)
}
func FPBin(op string, a, b *Term) *Term { // fp.add etc, RNE
	if a.IsConst() && b.IsConst() && a.Sort.W <= 64 {
		var r float64
		ok := true
		switch op {
		case "fp.add":
			r = a.F + b.F
		case "fp.sub":
			r = a.F - b.F
		case "fp.mul":
			r = a.F * b.F
		case "fp.div":
			r = a.F / b.F
		default:
			ok = false
		}
		if ok {
			if a.Sort.W == 32 {
				r = float64(float32(r))
			}
			return FPC(a.Sort.W, r)
		}
	}
	return mk(op, a.Sort, a, b)
}

// FPToFP converts between FP widths (RNE).
func FPToFP(w int, a *Term) *Term {
	if a.Sort.W == w {
		return a
	}
	if a.IsConst() && w <= 64 && a.Sort.W <= 64 {
		if w == 32 {
			return FPC(32, float64(float32(a.F)))
		}
		return FPC(64, a.F)
	}
	t := mk("fp.to_fp", Sort{SFP, w}, a)
	return t
}

// FPFromBV converts a signed/unsigned bitvector integer to FP (RNE).
func FPFromBV(w int, a *Term, signed bool) *Term {
	if a.IsConst() && w <= 64 {
		var f float64
		if signed {
			f = float64(sext(a.Sort.W, a.Val))
		} else {
			f = float64(a.Val)
		}
		if w == 32 {
			f = float64(float32(f))
		}
		return FPC(w, f)
	}
	op := "fp.from_ubv"
	if signed {
		op = "fp.from_sbv"
	}
	return mk(op, Sort{SFP, w}, a)
}

// FPToBV converts FP to integer bitvector, round toward zero.
func FPToBV(w int, a *Term, signed bool) *Term {
	op := "fp.to_ubv"
	if signed {
		op = "fp.to_sbv"
	}
	t := mk(op, BV(w), a)
	return t
}

// FPZeroBits: true iff a is +0 (bit pattern all zero) - reflect.IsZero for floats
func FPIsPosZero(a *Term) *Term {
	if a.IsConst() && a.Sort.W <= 64 {
		return BoolC(math.Float64bits(a.F) == 0)
	}
	return mk("fp.isPosZero", BoolSort, a)
}

// ---- printing ----

func bvLit(w int, v uint64) string {
	if w%4 == 0 {
		return fmt.Sprintf("#x%0*x", w/4, v&mask(w))
	}
	return fmt.Sprintf("#b%0*b", w, v&mask(w))
}

func fpLit(w int, f float64) string {
	eb, sb := fpEbSb(w)
	if math.IsNaN(f) {
		return fmt.Sprintf("(_ NaN %d %d)", eb, sb)
	}
	switch w {
	case 32:
		bits := math.Float32bits(float32(f))
		return fmt.Sprintf("(fp #b%b #b%08b #b%023b)", bits>>31, (bits>>23)&0xff, bits&0x7fffff)
	case 64:
		bits := math.Float64bits(f)
		return fmt.Sprintf("(fp #b%b #b%011b #b%052b)", bits>>63, (bits>>52)&0x7ff, bits&((1<<52)-1))
	default:
		// widen the double constant exactly
		return fmt.Sprintf("((_ to_fp %d %d) RNE %s)", eb, sb, fpLit(64, f))
	}
}

func smtName(n string) string { return "|" + strings.ReplaceAll(n, "|", "_") + "|" }

func (t *Term) head() string {
	switch t.Op {
	case "extract":
		return fmt.Sprintf("(_ extract %d %d)", t.P1, t.P2)
	case "zext":
		return fmt.Sprintf("(_ zero_extend %d)", t.P1)
	case "sext":
		return fmt.Sprintf("(_ sign_extend %d)", t.P1)
	case "fp.to_fp":
		eb, sb := fpEbSb(t.Sort.W)
		return fmt.Sprintf("(_ to_fp %d %d) RNE", eb, sb)
	case "fp.from_sbv":
		eb, sb := fpEbSb(t.Sort.W)
		return fmt.Sprintf("(_ to_fp %d %d) RNE", eb, sb)
	case "fp.from_ubv":
		eb, sb := fpEbSb(t.Sort.W)
		return fmt.Sprintf("(_ to_fp_unsigned %d %d) RNE", eb, sb)
	case "fp.to_sbv":
		return fmt.Sprintf("(_ fp.to_sbv %d) RTZ", t.Sort.W)
	case "fp.to_ubv":
		return fmt.Sprintf("(_ fp.to_ubv %d) RTZ", t.Sort.W)
	case "fp.add", "fp.sub", "fp.mul", "fp.div":
		return t.Op + " RNE"
	case "fp.isPosZero":
		return "" // handled specially
	}
	return t.Op
}

func (t *Term) leafString() (string, bool) {
	switch t.Op {
	case "const":
		switch t.Sort.K {
		case SBool:
			if t.Val == 1 {
				return "true", true
			}
			return "false", true
		case SBV:
			return bvLit(t.Sort.W, t.Val), true
		case SFP:
			return fpLit(t.Sort.W, t.F), true
		}
	case "var":
		return smtName(t.Name), true
	}
	return "", false
}

// SMT prints the term; shared sub-DAGs are bound with let.
func (t *Term) SMT() string {
	if s, ok := t.leafString(); ok {
		return s
	}
	// count references
	refs := map[*Term]int{}
	var order []*Term
	var walk func(x *Term)
	walk = func(x *Term) {
		refs[x]++
		if refs[x] > 1 {
			return
		}
		for _, a := range x.Args {
			walk(a)
		}
		order = append(order, x) // post-order
	}
	walk(t)
	names := map[*Term]string{}
	var sb strings.Builder
	var pr func(x *Term) string
	pr = func(x *Term) string {
		if n, ok := names[x]; ok {
			return n
		}
		if s, ok := x.leafString(); ok {
			return s
		}
		if x.Op == "fp.isPosZero" {
			a := pr(x.Args[0])
			eb, sbits := fpEbSb(x.Args[0].Sort.W)
			return fmt.Sprintf("(= %s (_ +zero %d %d))", a, eb, sbits)
		}
		var b strings.Builder
		b.WriteByte('(')
		b.WriteString(x.head())
		for _, a := range x.Args {
			b.WriteByte(' ')
			b.WriteString(pr(a))
		}
		b.WriteByte(')')
		return b.String()
	}
	nlets := 0
	for _, x := range order {
		if x == t {
			continue
		}
		if refs[x] > 1 && x.Op != "const" && x.Op != "var" {
			s := pr(x)
			n := fmt.Sprintf("?l%d", x.id)
			sb.WriteString("(let ((" + n + " " + s + ")) ")
			names[x] = n
			nlets++
		}
	}
	sb.WriteString(pr(t))
	sb.WriteString(strings.Repeat(")", nlets))
	return sb.String()
}

// Vars collects free variables
func (t *Term) Vars(into map[string]*Term) {
	seen := map[*Term]bool{}
	var walk func(x *Term)
	walk = func(x *Term) {
		if seen[x] {
			return
		}
		seen[x] = true
		if x.Op == "var" {
			into[x.Name] = x
		}
		for _, a := range x.Args {
			walk(a)
		}
	}
	walk(t)
}

// ---- evaluation under a model ----

type MVal struct {
	U uint64  // bool / bv
	F float64 // fp32/64
	B *big.Float
}

type Model map[string]MVal

type evalUnknown struct{ why string }

// Eval evaluates t; ok=false if some op / var is unsupported or missing.
func (m Model) Eval(t *Term) (v MVal, ok bool) {
	defer func() {
		if r := recover(); r != nil {
			if _, is := r.(evalUnknown); is {
				ok = false
				return
			}
			panic(r)
		}
	}()
	memo := map[*Term]MVal{}
	return m.eval(t, memo), true
}

func (m Model) EvalBool(t *Term) (bool, bool) {
	if m == nil {
		return false, false
	}
	v, ok := m.Eval(t)
	return v.U != 0, ok
}

func b2u(b bool) uint64 {
	if b {
		return 1
	}
	return 0
}

func (m Model) eval(t *Term, memo map[*Term]MVal) MVal {
	if v, ok := memo[t]; ok {
		return v
	}
	var r MVal
	ev := func(i int) MVal { return m.eval(t.Args[i], memo) }
	switch t.Op {
	case "const":
		r = MVal{U: t.Val, F: t.F}
	case "var":
		v, ok := m[t.Name]
		if !ok {
			// unconstrained var: any value works only if solver omitted it; treat as 0
			v = MVal{}
			if t.Sort.K == SFP {
				panic(evalUnknown{"fp var missing"})
			}
		}
		r = v
	case "not":
		r.U = 1 - ev(0).U
	case "and":
		r.U = 1
		for i := range t.Args {
			if ev(i).U == 0 {
				r.U = 0
				break
			}
		}
	case "or":
		r.U = 0
		for i := range t.Args {
			if ev(i).U != 0 {
				r.U = 1
				break
			}
		}
	case "ite":
		if ev(0).U != 0 {
			r = ev(1)
		} else {
			r = ev(2)
		}
	case "=":
		a, b := ev(0), ev(1)
		if t.Args[0].Sort.K == SFP {
			if t.Args[0].Sort.W > 64 {
				panic(evalUnknown{"fp128"})
			}
			r.U = b2u(math.Float64bits(a.F) == math.Float64bits(b.F) || (math.IsNaN(a.F) && math.IsNaN(b.F)))
		} else {
			r.U = b2u(a.U == b.U)
		}
	case "bvadd", "bvsub", "bvmul", "bvand", "bvor", "bvxor", "bvudiv", "bvurem", "bvsdiv", "bvsrem", "bvshl", "bvlshr", "bvashr":
		v, _ := foldBV(t.Op, t.Sort.W, ev(0).U, ev(1).U)
		r.U = v
	case "bvnot":
		r.U = ^ev(0).U & mask(t.Sort.W)
	case "bvneg":
		r.U = (-ev(0).U) & mask(t.Sort.W)
	case "bvult":
		r.U = b2u(ev(0).U < ev(1).U)
	case "bvule":
		r.U = b2u(ev(0).U <= ev(1).U)
	case "bvslt":
		w := t.Args[0].Sort.W
		r.U = b2u(sext(w, ev(0).U) < sext(w, ev(1).U))
	case "bvsle":
		w := t.Args[0].Sort.W
		r.U = b2u(sext(w, ev(0).U) <= sext(w, ev(1).U))
	case "extract":
		r.U = (ev(0).U >> uint(t.P2)) & mask(t.P1-t.P2+1)
	case "zext":
		r.U = ev(0).U
	case "sext":
		r.U = uint64(sext(t.Args[0].Sort.W, ev(0).U)) & mask(t.Sort.W)
	case "concat":
		r.U = (ev(0).U<<uint(t.Args[1].Sort.W) | ev(1).U) & mask(t.Sort.W)
	case "fp.lt", "fp.leq", "fp.eq":
		if t.Args[0].Sort.W > 64 {
			panic(evalUnknown{"fp128"})
		}
		a, b := ev(0).F, ev(1).F
		switch t.Op {
		case "fp.lt":
			r.U = b2u(a < b)
		case "fp.leq":
			r.U = b2u(a <= b)
		case "fp.eq":
			r.U = b2u(a == b)
		}
	case "fp.isNaN":
		if t.Args[0].Sort.W > 64 {
			panic(evalUnknown{"fp128"})
		}
		r.U = b2u(math.IsNaN(ev(0).F))
	case "fp.isInfinite":
		if t.Args[0].Sort.W > 64 {
			panic(evalUnknown{"fp128"})
		}
		r.U = b2u(math.IsInf(ev(0).F, 0))
	case "fp.isPosZero":
		if t.Args[0].Sort.W > 64 {
			panic(evalUnknown{"fp128"})
		}
		r.U = b2u(math.Float64bits(ev(0).F) == 0)
	case "fp.neg":
		r.F = -ev(0).F
	case "fp.to_fp":
		if t.Sort.W > 64 {
			panic(evalUnknown{"fp128"})
		}
		f := ev(0).F
		if t.Sort.W == 32 {
			f = float64(float32(f))
		}
		r.F = f
	case "fp.from_sbv", "fp.from_ubv":
		if t.Sort.W > 64 {
			panic(evalUnknown{"fp128"})
		}
		a := ev(0).U
		var f float64
		if t.Op == "fp.from_sbv" {
			f = float64(sext(t.Args[0].Sort.W, a))
		} else {
			f = float64(a)
		}
		if t.Sort.W == 32 {
			f = float64(float32(f))
		}
		r.F = f
	case "fp.add", "fp.sub", "fp.mul", "fp.div":
		if t.Sort.W > 64 {
			panic(evalUnknown{"fp128"})
		}
		a, b := ev(0).F, ev(1).F
		var f float64
		switch t.Op {
		case "fp.add":
			f = a + b
		case "fp.sub":
			f = a - b
		case "fp.mul":
			f = a * b
		case "fp.div":
			f = a / b
		}
		if t.Sort.W == 32 {
			f = float64(float32(f))
		}
		r.F = f
	default:
		panic(evalUnknown{t.Op})
	}
	memo[t] = r
	return r
}

func Concat(a, b *Term) *Term {
	w := a.Sort.W + b.Sort.W
	if a.IsConst() && b.IsConst() && w <= 64 {
		return BVC(w, a.Val<<uint(b.Sort.W)|b.Val)
	}
	return mk("concat", BV(w), a, b)
}

// Distinct-ish helper
func Neq(a, b *Term) *Term { return Not(Eq(a, b)) }

// parse helpers for model values

func parseBVLit(s string) (uint64, bool) {
	if strings.HasPrefix(s, "#x") {
		v, err := strconv.ParseUint(s[2:], 16, 64)
		return v, err == nil
	}
	if strings.HasPrefix(s, "#b") {
		v, err := strconv.ParseUint(s[2:], 2, 64)
		return v, err == nil
	}
	return 0, false
}

func sortedKeys(m map[string]*Term) []string {
	ks := make([]string, 0, len(m))
	for k := range m {
		ks = append(ks, k)
	}
	sort.Strings(ks)
	return ks
}
